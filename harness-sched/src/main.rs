//! Small concurrent workload on feos-core only (Peng-Robinson), meant to be executed under
//! ThreadSanitizer and Miri: several threads share one `Arc<State>` and request cached
//! derivatives / public getters in random order; `par_pure` runs on a small rayon pool.
//! The sanitizer decides memory safety and data races; this program additionally compares
//! every returned value with the value obtained first on a fresh state (relative 1e-9: Miri
//! perturbs the last bits of exp/ln/pow on purpose).
//!
//! usage: fv-sched <seed> <threads> <ops per thread> <states> [par]
use feos_core::cubic::{PengRobinson, PengRobinsonParameters};
use feos_core::{Contributions, PhaseDiagram, ReferenceSystem, SolverOptions, State};
use ndarray::arr1;
use quantity::*;
use std::sync::{Arc, Barrier};

type Req = (u8, i32, i32, bool);

struct Rng(u64);
impl Rng {
    fn next(&mut self) -> u64 {
        self.0 ^= self.0 << 13;
        self.0 ^= self.0 >> 7;
        self.0 ^= self.0 << 17;
        self.0
    }
    fn below(&mut self, n: usize) -> usize {
        (self.next() % n as u64) as usize
    }
    fn f(&mut self) -> f64 {
        (self.next() >> 11) as f64 / (1u64 << 53) as f64
    }
}

fn requests(n: usize) -> Vec<Req> {
    let mut dirs = vec![-1, -3];
    dirs.extend(0..n as i32);
    let mut v = vec![(0u8, -2, -2, false)];
    for &d in &dirs {
        v.push((1, d, -2, false));
        v.push((2, d, d, false));
        v.push((3, d, -2, false));
        for &b in &dirs {
            v.push((2, d, b, true));
        }
    }
    v
}

fn getters(s: &State<PengRobinson>, k: usize) -> Vec<f64> {
    use Contributions::*;
    match k % 8 {
        0 => vec![s.pressure(Total).to_reduced()],
        1 => s.residual_chemical_potential().to_reduced().to_vec(),
        2 => s.ln_phi().to_vec(),
        3 => vec![s.dp_dv(Total).to_reduced(), s.dp_dt(Total).to_reduced()],
        4 => s.dmu_dni(Residual).to_reduced().iter().cloned().collect(),
        5 => vec![s.residual_molar_isobaric_heat_capacity().to_reduced()],
        6 => s.dmu_res_dt().to_reduced().to_vec(),
        _ => vec![s.d2p_dv2(Total).to_reduced(), s.residual_entropy().to_reduced()],
    }
}

fn close(a: f64, b: f64, scale: f64) -> bool {
    a == b || (a.is_nan() && b.is_nan()) || (a - b).abs() <= 1e-9 * a.abs().max(b.abs()).max(scale)
}

fn main() {
    let args: Vec<String> = std::env::args().collect();
    let num = |i: usize, d: u64| args.get(i).and_then(|s| s.parse().ok()).unwrap_or(d);
    let (seed, threads, ops, states) = (num(1, 1), num(2, 4) as usize, num(3, 20) as usize, num(4, 3) as usize);
    let with_par = args.get(5).map_or(false, |s| s == "par");
    let mut rng = Rng(seed.wrapping_mul(0x9E37_79B9_7F4A_7C15) | 1);
    let mut compared = 0u64;
    let mut mismatches = 0u64;
    feos_core::verif::cache_trace_enable(true);
    feos_core::verif::set_yield_hook(Some(Box::new(|_| {
        if feos_core::verif::thread_id() % 2 == 0 {
            std::thread::yield_now()
        }
    })));
    for _ in 0..states {
        let p = PengRobinsonParameters::new_simple(
            &[369.8 * (0.8 + 0.4 * rng.f()), 425.2 * (0.8 + 0.4 * rng.f())],
            &[4.25e6, 3.8e6],
            &[0.153, 0.199 * (0.5 + rng.f())],
            &[44.1, 58.1],
        )
        .unwrap();
        let eos = Arc::new(PengRobinson::new(Arc::new(p)));
        let t = Temperature::from_reduced(250.0 + 300.0 * rng.f());
        let x = 0.05 + 0.9 * rng.f();
        let n = Moles::from_reduced(arr1(&[x, 1.0 - x]) * (0.1 + 10.0 * rng.f()));
        let v = Volume::from_reduced(n.to_reduced().sum() / (1e-5 + 0.006 * rng.f()));
        let fresh = || State::new_nvt(&eos, t, v, &n).unwrap();
        let reqs = requests(2);
        let canon: Vec<f64> = reqs.iter().map(|r| fresh().verif_derivative(r.0, r.1, r.2, r.3)).collect();
        let canon_g: Vec<Vec<f64>> = (0..8).map(|k| getters(&fresh(), k)).collect();
        let scale = 1e-6 * (canon[0].abs() + n.to_reduced().sum() * t.to_reduced());
        let shared = Arc::new(fresh());
        let barrier = Arc::new(Barrier::new(threads));
        let progs: Vec<Vec<(bool, usize)>> = (0..threads).map(|_| (0..ops).map(|_| (rng.below(3) > 0, rng.below(reqs.len()))).collect()).collect();
        let outs: Vec<Vec<Vec<f64>>> = std::thread::scope(|sc| {
            let hs: Vec<_> = progs
                .iter()
                .map(|prog| {
                    let st = shared.clone();
                    let b = barrier.clone();
                    let reqs = &reqs;
                    sc.spawn(move || {
                        b.wait();
                        prog.iter()
                            .map(|&(key, k)| {
                                if key {
                                    let r = reqs[k];
                                    vec![st.verif_derivative(r.0, r.1, r.2, r.3)]
                                } else {
                                    getters(&st, k)
                                }
                            })
                            .collect()
                    })
                })
                .collect();
            hs.into_iter().map(|h| h.join().unwrap()).collect()
        });
        for (prog, out) in progs.iter().zip(&outs) {
            for (&(key, k), o) in prog.iter().zip(out) {
                let c: &[f64] = if key { std::slice::from_ref(&canon[k]) } else { &canon_g[k % 8] };
                let sc = if key { scale } else { c.iter().fold(0.0f64, |m, x| m.max(x.abs())) * 1e-3 };
                for (a, b) in o.iter().zip(c) {
                    compared += 1;
                    if !close(*a, *b, sc) {
                        mismatches += 1;
                        println!("SCHED-MISMATCH key={key} k={k} got={a} first-evaluation={b}");
                    }
                }
            }
        }
        // a clone taken while others still read
        let c = (*shared).clone();
        if !close(c.verif_derivative(0, -2, -2, false), canon[0], scale) {
            mismatches += 1;
            println!("SCHED-MISMATCH clone");
        }
        compared += 1;
    }
    let events = feos_core::verif::cache_trace_take().len();
    let mut par_points = 0;
    if with_par {
        let p = PengRobinsonParameters::new_simple(&[369.8], &[4.25e6], &[0.153], &[44.1]).unwrap();
        let eos = Arc::new(PengRobinson::new(Arc::new(p)));
        let tmin = Temperature::from_reduced(250.0);
        let np = 6 + rng.below(6);
        let seq = PhaseDiagram::pure(&eos, tmin, np, None, SolverOptions::default()).unwrap();
        let pool = rayon::ThreadPoolBuilder::new().num_threads(threads.min(4)).build().unwrap();
        let par = PhaseDiagram::par_pure(&eos, tmin, np, 1 + rng.below(4), pool, None, SolverOptions::default()).unwrap();
        if seq.states.len() != par.states.len() {
            mismatches += 1;
            println!("SCHED-MISMATCH par_pure length {} vs {}", par.states.len(), seq.states.len());
        } else {
            for (a, b) in seq.states.iter().zip(&par.states) {
                par_points += 1;
                compared += 3;
                let ok = close(a.vapor().temperature.to_reduced(), b.vapor().temperature.to_reduced(), 0.0)
                    && (a.vapor().density.to_reduced() / b.vapor().density.to_reduced() - 1.0).abs() < 1e-6
                    && (a.liquid().density.to_reduced() / b.liquid().density.to_reduced() - 1.0).abs() < 1e-6;
                if !ok {
                    mismatches += 1;
                    println!("SCHED-MISMATCH par_pure state at T={}", a.vapor().temperature.to_reduced());
                }
            }
        }
    }
    println!("SCHED-DONE seed={seed} threads={threads} compared={compared} cache_events={events} par_points={par_points} mismatches={mismatches}");
    std::process::exit(if mismatches == 0 { 0 } else { 3 });
}
