#!/bin/bash
# usage: lane.sh <k> <seeded dir>...   parallel lane: own worktree of /repo + own copy of the harness
k=$1; shift
L=/tmp/lane/$k
if [ ! -d $L/repo ]; then
  mkdir -p $L/verif
  git -C /repo worktree add --detach $L/repo HEAD >/dev/null 2>&1
fi
rsync -a --delete --exclude target /verif/harness/ $L/verif/harness/
rsync -a --delete --exclude target /verif/harness-sched/ $L/verif/harness-sched/
sed -i "s#\"/repo#\"$L/repo#g" $L/verif/harness/Cargo.toml $L/verif/harness-sched/Cargo.toml
cp /verif/known_findings.json $L/verif/
export CARGO_NET_OFFLINE=true FV_REPO=$L/repo FV_VERIF=$L/verif
for d in "$@"; do
  id=${CHECK:-$(basename $d | cut -d- -f1)}
  name=$(basename $d)
  git -C $L/repo checkout -q -- . 
  git -C $L/repo apply $d/patch.diff || { echo "RESULT patch=$name APPLY-FAILED"; continue; }
  (cd $L/verif/harness && cargo build --release --offline > $L/build.log 2>&1) || { echo "RESULT patch=$name BUILD-FAILED"; tail -5 $L/build.log; git -C $L/repo checkout -q -- .; continue; }
  for tier in ${TIERS:-quick thorough}; do
    rm -rf $L/verif/replays
    s=$(date +%s)
    timeout 5400 $L/verif/harness/target/release/fv $id --tier $tier --seed ${SEED:-1} > $L/out_${name}_$tier.txt 2>&1
    rc=$?
    n=$(grep -c '^VIOLATION' $L/out_${name}_$tier.txt)
    echo "RESULT patch=$name/patch.diff check=$id tier=$tier rc=$rc violations=$n secs=$(( $(date +%s)-s ))"
    grep '^VIOLATION' $L/out_${name}_$tier.txt | sed 's/replay=[^ ]* //' | cut -c1-220 | head -3
    [ $rc -ne 0 ] && break
  done
  git -C $L/repo checkout -q -- .
done
echo "LANE $k DONE"
