import sys,re,collections
nv=0
# summarise a fv output file: verdict line, clause table (violated>0 or skipped), violation list compact
f=sys.argv[1]
for l in open(f):
    l=l.rstrip()
    if l.startswith('['): print(l[:200])
    elif l.startswith('  clause'):
        m=re.search(r'violated=(\d+)',l)
        if m and int(m.group(1))>0: print(l[:230])
    elif l.startswith('VIOLATION'):
        nv+=1
        if nv>10: continue
        parts=l.split()
        d={p.split('=')[0]:p.split('=',1)[1] for p in parts if '=' in p}
        sig=l.split('sig=')[1].split(' occurrences')[0] if 'sig=' in l else ''
        print(' V dev=%.2e tol=%.1e occ=%s sig=%s'%(float(d.get('dev','nan')),float(d.get('tol','nan')),d.get('occurrences',''),sig[:90]))
    elif l.startswith(('HELD','INCONCL','KNOWN')): print(l[:110])
