import json,collections,sys
ev=json.load(open('/verif/evidence/%s.json'%sys.argv[1]))
g=collections.defaultdict(list)
for v in ev['coverage']['violation_groups']:
    tag,cl=v['signature'].split('|',1)
    fd=v['first_deviation']
    g[tag].append("%s(%d,%.0e)"%(cl,v['occurrences'],float(fd) if not isinstance(fd,str) else 9))
for k in sorted(g): print(k,':',' '.join(g[k])[:300])
