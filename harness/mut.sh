#!/bin/bash
# usage: mut.sh <patch> <ID>... ; applies a seeded change to /repo, rebuilds the harness, runs the
# quick check(s) (and the thorough tier when quick stays silent and ESCALATE=1), reverts /repo.
# NOTE: the harness binary stays built from the changed tree afterwards - rebuild with ./cb.
p=$1; shift
git -C /repo apply "$p" || { echo "patch does not apply"; exit 9; }
trap 'git -C /repo checkout -- . ; echo reverted' EXIT
cd /verif/harness && ./cb 5 >/dev/null 2>&1 || { echo "BUILD FAILED"; ./cb 30; exit 8; }
mkdir -p /tmp/mutrun && cp /verif/known_findings.json /tmp/mutrun/ && ln -sfn /verif/harness-sched /tmp/mutrun/harness-sched
for id in "$@"; do
  for tier in quick thorough; do
    rm -rf /tmp/mutrun/replays
    s=$(date +%s)
    FV_VERIF=/tmp/mutrun timeout 3600 /verif/harness/target/release/fv $id --tier $tier --seed ${SEED:-1} > /tmp/mut_${id}_$tier.out 2>&1
    rc=$?
    n=$(grep -c '^VIOLATION' /tmp/mut_${id}_$tier.out)
    echo "RESULT patch=$(basename $(dirname $p))/$(basename $p) check=$id tier=$tier rc=$rc violations=$n secs=$(( $(date +%s)-s ))"
    grep '^VIOLATION' /tmp/mut_${id}_$tier.out | sed 's/replay=[^ ]* //' | cut -c1-200 | head -${LINES_MAX:-3}
    [ $rc -ne 0 ] && break
    [ "${ESCALATE:-1}" = 1 ] || break
  done
done
