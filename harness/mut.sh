#!/bin/bash
# usage: mut.sh <patch> <ID>... ; applies a seeded change to /repo, rebuilds, runs the quick checks, reverts
p=$1; shift
git -C /repo apply "$p" || { echo "patch does not apply"; exit 9; }
trap 'git -C /repo checkout -- . ; echo reverted' EXIT
cd /verif/harness && ./cb 5 >/dev/null 2>&1 || { echo "BUILD FAILED"; ./cb 30; exit 8; }
for id in "$@"; do
  tier=${TIER:-quick}
  FV_VERIF=/tmp/mutrun /verif/harness/target/release/fv $id --tier $tier --seed ${SEED:-1} > /tmp/mut_$id.out 2>&1
  echo "== $id rc=$? $(grep -c '^VIOLATION' /tmp/mut_$id.out) violation lines"
  grep '^VIOLATION\|^INCONCLUSIVE\|^HELD' /tmp/mut_$id.out | cut -c1-160 | head -${LINES_MAX:-4}
done
