#!/bin/bash
# usage: collect.sh <ID> ; copies sub-agent deliverables /tmp/mut/<ID>/out/m* into /verif/seeded/<ID>-m*
id=$1
for d in /tmp/mut/$id/out/*/; do
  k=$(basename $d)
  [ -f $d/patch.diff ] || continue
  dst=/verif/seeded/$id-$k
  mkdir -p $dst
  cp $d/patch.diff $d/meta.json $dst/ 2>/dev/null
  mkdir -p $dst/demo
  (cd $d/demo 2>/dev/null && find . -maxdepth 2 \( -name '*.rs' -o -name 'Cargo.toml' -o -name '*.txt' \) -not -path './target/*' | while read f; do mkdir -p $dst/demo/$(dirname $f); cp $f $dst/demo/$f; done)
  echo "$dst: $(git -C /repo apply --check $d/patch.diff 2>&1 | head -1 || true) $(wc -l < $d/patch.diff) lines"
done
