#!/bin/bash
# usage: mutbatch.sh <seeded dir>... ; owning check = directory name prefix (C03-m1 -> C03)
for d in "$@"; do
  id=$(basename $d | cut -d- -f1)
  /verif/harness/mut.sh $d/patch.diff $id 2>&1 | tee -a /verif/seeded/RESULTS.log | grep "RESULT\|VIOLATION\|BUILD\|apply" | cut -c1-220
done
