import json,glob,sys
pat=sys.argv[1] if len(sys.argv)>1 else ''
for f in sorted(glob.glob('/verif/replays/*.json')):
    d=json.load(open(f))
    if pat not in d['signature'] and pat not in d['clause']: continue
    det=d['detail']
    st=det.get('state')
    print(f"{d['signature']:60s} dev={d['deviation']:.3e} tol={d['tolerance']:.1e} ad={det.get('ad')} fd={det.get('fd')} state={st} names={[p.get('identifier',{}).get('name') if isinstance(p.get('identifier'),dict) else p.get('identifier') for p in det.get('model',{}).get('pure',[])]}")
