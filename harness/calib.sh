#!/bin/bash
# usage: calib.sh <ID> <tier> seed... ; prints summaries
id=$1; tier=$2; shift 2
for s in "$@"; do
  /verif/harness/target/release/fv $id --tier $tier --seed $s > /tmp/calib_${id}_${tier}_$s.out 2>&1
  python3 /verif/harness/summ.py /tmp/calib_${id}_${tier}_$s.out | head -25
done
