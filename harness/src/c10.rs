//! C10 — total = ideal gas + residual; ideal-gas limits; ideal-gas heat capacity models.
use crate::c01::Eos;
use crate::monitor::*;
use crate::prng::{hash_f64s, Rng};
use crate::stream::*;
use crate::zoo::*;
use feos::ideal_gas::{Dippr, DipprRecord, IdealGasModel, Joback, JobackRecord};
use feos_core::parameter::{IdentifierOption, Parameter, PureRecord};
use feos_core::{Components, Contributions, EquationOfState, IdealGas, ReferenceSystem, State};
use ndarray::{arr1, Array1};
use quantity::*;
use serde_json::{json, Value};
use std::sync::Arc;

const TOL_SUM: f64 = 1e-12;

/// random ideal-gas model description: (kind, per-component coefficient vectors)
#[derive(Clone, Debug)]
pub struct IgSpec {
    pub kind: u8, // 0 joback, 1 dippr100, 2 dippr107, 3 dippr127
    pub coefs: Vec<Vec<f64>>,
}

impl IgSpec {
    pub fn random(n: usize, rng: &mut Rng) -> Self {
        let kind = rng.below(4) as u8;
        let coefs = (0..n)
            .map(|_| match kind {
                0 => vec![
                    rng.range(10.0, 80.0),
                    rng.range(-0.05, 0.3),
                    rng.range(-2e-4, 2e-4),
                    rng.range(-5e-8, 5e-8),
                    rng.range(-1e-11, 1e-11),
                ],
                1 => {
                    // J/(kmol K), polynomial of random degree 0..4
                    let deg = rng.below(5);
                    let mut c = vec![rng.range(2e4, 2e5)];
                    let sc = [1.0, 300.0, 1.0, 1e-3, 1e-6];
                    for k in 1..=deg {
                        c.push(rng.range(-1.0, 1.0) * sc[k]);
                    }
                    c
                }
                2 => vec![
                    rng.range(3e4, 1e5),
                    rng.range(2e4, 3e5),
                    rng.range(300.0, 2500.0),
                    rng.range(1e4, 2e5),
                    rng.range(300.0, 2500.0),
                ],
                _ => vec![
                    rng.range(3e4, 6e4),
                    rng.range(1e4, 2e5),
                    rng.range(300.0, 3000.0),
                    rng.range(1e4, 2e5),
                    rng.range(300.0, 3000.0),
                    rng.range(1e4, 2e5),
                    rng.range(300.0, 3000.0),
                ],
            })
            .collect();
        IgSpec { kind, coefs }
    }

    pub fn build(&self) -> Arc<IdealGasModel> {
        match self.kind {
            0 => {
                let recs = self
                    .coefs
                    .iter()
                    .map(|c| {
                        PureRecord::new(
                            Default::default(),
                            1.0,
                            JobackRecord::new(c[0], c[1], c[2], c[3], c[4]),
                        )
                    })
                    .collect();
                Arc::new(IdealGasModel::Joback(Arc::new(
                    Joback::from_records(recs, None).unwrap(),
                )))
            }
            k => {
                let recs = self
                    .coefs
                    .iter()
                    .map(|c| {
                        let r = match k {
                            1 => DipprRecord::eq100(c),
                            2 => DipprRecord::eq107(c[0], c[1], c[2], c[3], c[4]),
                            _ => DipprRecord::eq127(c[0], c[1], c[2], c[3], c[4], c[5], c[6]),
                        };
                        PureRecord::new(Default::default(), 1.0, r)
                    })
                    .collect();
                Arc::new(IdealGasModel::Dippr(Arc::new(
                    Dippr::from_records(recs, None).unwrap(),
                )))
            }
        }
    }

    /// published closed forms, J/(mol K)
    pub fn cp_closed_form(&self, i: usize, t: f64) -> f64 {
        cp_closed(self.kind, &self.coefs[i], t)
    }

    pub fn json(&self) -> Value {
        let kind = ["joback", "dippr100", "dippr107", "dippr127"][self.kind as usize];
        json!({"kind": kind, "coefs": self.coefs})
    }
}

pub fn cp_closed(kind: u8, c: &[f64], t: f64) -> f64 {
    match kind {
        0 => c[0] + c[1] * t + c[2] * t * t + c[3] * t * t * t + c[4] * t * t * t * t,
        1 => c.iter().enumerate().map(|(k, c)| c * t.powi(k as i32)).sum::<f64>() / 1000.0,
        2 => {
            let (ct, et) = (c[2] / t, c[4] / t);
            (c[0] + c[1] * (ct / ct.sinh()).powi(2) + c[3] * (et / et.cosh()).powi(2)) / 1000.0
        }
        _ => {
            let f = |x: f64| x * x * x.exp() / (x.exp() - 1.0).powi(2);
            (c[0] + c[1] * f(c[2] / t) + c[3] * f(c[4] / t) + c[5] * f(c[6] / t)) / 1000.0
        }
    }
}

const R_SI: f64 = 8.31446261815324;

pub fn run(cfg: Config) -> i32 {
    let mut m = Monitor::new(cfg.clone());
    let (reps, nstates) = cfg.tier.pick((6, 12), (120, 80));
    let fams = [
        "pr",
        "pcsaft",
        "pcsaft-assoc",
        "pcsaft-polar",
        "gc-pcsaft",
        "pets",
        "uv-wca",
        "saftvrmie",
        "saftvrqmie",
        "epcsaft-noions",
    ];
    let stream = build_stream(cfg.seed, "c10", &fams, &[1, 2, 3], reps, nstates, true, 0.5, 3.0);
    par_cases(&mut m, &stream, |m, ci, sc| {
        let mut rng = Rng::derive(cfg.seed, "c10-ig", ci);
        let mut ig = IgSpec::random(sc.mc.n, &mut rng);
        // the DIPPR 107/127 forms overflow far below their range of validity; cryogenic
        // models get a polynomial ideal-gas model instead
        while ig.kind >= 2 && sc.states.iter().any(|s| s.t < 150.0) {
            ig = IgSpec::random(sc.mc.n, &mut rng);
        }
        for (si, ss) in sc.states.iter().enumerate() {
            let case = ci * 10_000 + si as u64;
            selector_sum(m, case, &sc.mc, &ig, ss);
            if si < 3 {
                zero_density(m, case, &sc.mc, ss);
            }
        }
    });
    heat_capacity_random(&mut m, &cfg);
    heat_capacity_shipped(&mut m, &cfg);
    m.gate(m.clause_checked("sum:pressure") >= 100, "fewer than 100 selector cases");
    m.gate(m.clause_checked("cp_ig:dippr shipped vs closed form") >= 300, "shipped DIPPR records not covered");
    m.gate(m.clause_checked("cp_ig:joback shipped vs closed form") >= 50, "shipped Joback groups not covered");
    m.finish(
        "selector identity on the C01-style state stream with random Joback/DIPPR(100/107/127) ideal-gas models attached; zero-density limit at 1e-12..1e-8 of rho_max; c_p^IG of all poling2000 records, of all gc substances assembled from joback1987 groups, and of random coefficient sets, T in [150,1500] K, pure and mixtures; distinct by hash of (model, state) / (record, T)",
        false,
        &[
            "harness closed forms of the Joback polynomial and DIPPR equations 100/107/127 are the reference model",
            "ideal-gas c_p is compared with the published correlation to 1e-6 (the Joback implementation rescales by the ratio of the 2014 and 2019 gas constants, 3.4e-7)",
        ],
    )
}

fn terms_dev(total: f64, ig: f64, res: f64) -> f64 {
    let s = total - ig - res;
    let a = total.abs() + ig.abs() + res.abs();
    if !s.is_finite() {
        f64::INFINITY
    } else if a == 0.0 {
        0.0
    } else {
        s.abs() / a
    }
}

fn selector_sum(m: &mut Monitor, case: u64, mc: &ModelCase, ig: &IgSpec, ss: &StateSpec) {
    let eos: Arc<Eos> = Arc::new(EquationOfState::new(ig.build(), mc.eos.clone()));
    let mk = || State::new_nvt(&eos, ss.temperature(), ss.volume(), &ss.moles()).ok();
    let Some(st) = mk() else {
        return;
    };
    let a = st.residual_helmholtz_energy().to_reduced();
    if !a.is_finite() {
        return;
    }
    m.case(&mc.family, ss.hash(&mc.label()), a.abs() > 1e-9 * ss.ntot * ss.t);
    let fam = mc.family.as_str();
    // round-off model at low packing fraction (see C01/C02)
    // (functionals: the ideal-chain and hard-chain terms ~N ln(rho) cancel, which costs
    // another factor ~100 at low density)
    let lowdens = (if fam.ends_with("functional") { 10.0 } else { 0.1 } / ss.eta_frac).max(1.0);
    use Contributions::*;
    let det = |name: &str, v: [f64; 3]| {
        let (model, ig, ss, name) = (mc.spec.clone(), ig.json(), ss.clone(), name.to_string());
        move || json!({"getter": name, "model": model, "ideal_gas": ig, "state": ss.json(), "total_ig_res": v})
    };
    if m.samples.len() < 2 {
        m.sample(json!({"model": mc.label(), "ideal_gas": ig.json(), "state": ss.json()}));
    }
    macro_rules! scalar {
        ($name:expr, $f:expr) => {{
            let f = $f;
            // each selector on a fresh state so that the three values are computed independently
            let (t, i, r) = (
                f(&mk().unwrap(), Total),
                f(&mk().unwrap(), IdealGas),
                f(&mk().unwrap(), Residual),
            );
            let name = format!("sum:{}", $name);
            // third-order quantities are assembled from several cancelling terms on each side
            let third = if ["dc_v_dt", "d2s_dt2"].contains(&$name) { 100.0 } else { 1.0 };
            m.check(&name, &format!("{fam}|{name}"), case, terms_dev(t, i, r), TOL_SUM * lowdens * third, det(&name, [t, i, r]));
        }};
    }
    macro_rules! vector {
        ($name:expr, $f:expr) => {{
            let f = $f;
            let (t, i, r): (Vec<f64>, Vec<f64>, Vec<f64>) = (
                f(&mk().unwrap(), Total),
                f(&mk().unwrap(), IdealGas),
                f(&mk().unwrap(), Residual),
            );
            let name = format!("sum:{}", $name);
            for k in 0..t.len() {
                m.check(&name, &format!("{fam}|{name}"), case, terms_dev(t[k], i[k], r[k]), TOL_SUM * lowdens, det(&name, [t[k], i[k], r[k]]));
            }
        }};
    }
    type S = State<Eos>;
    scalar!("pressure", |s: &S, c| s.pressure(c).to_reduced());
    scalar!("dp_dv", |s: &S, c| s.dp_dv(c).to_reduced());
    scalar!("dp_dt", |s: &S, c| s.dp_dt(c).to_reduced());
    scalar!("d2p_dv2", |s: &S, c| s.d2p_dv2(c).to_reduced());
    scalar!("dp_drho", |s: &S, c| s.dp_drho(c).to_reduced());
    scalar!("entropy", |s: &S, c| s.entropy(c).to_reduced());
    scalar!("ds_dt", |s: &S, c| s.ds_dt(c).to_reduced());
    scalar!("d2s_dt2", |s: &S, c| s.d2s_dt2(c).to_reduced());
    scalar!("helmholtz_energy", |s: &S, c| s.helmholtz_energy(c).to_reduced());
    scalar!("enthalpy", |s: &S, c| s.enthalpy(c).to_reduced());
    scalar!("internal_energy", |s: &S, c| s.internal_energy(c).to_reduced());
    scalar!("gibbs_energy", |s: &S, c| s.gibbs_energy(c).to_reduced());
    scalar!("molar_isochoric_heat_capacity", |s: &S, c| s
        .molar_isochoric_heat_capacity(c)
        .to_reduced());
    scalar!("dc_v_dt", |s: &S, c| s.dc_v_dt(c).to_reduced());
    scalar!("molar_entropy", |s: &S, c| s.molar_entropy(c).to_reduced());
    scalar!("molar_enthalpy", |s: &S, c| s.molar_enthalpy(c).to_reduced());
    vector!("dp_dni", |s: &S, c| s.dp_dni(c).to_reduced().to_vec());
    vector!("chemical_potential", |s: &S, c| s.chemical_potential(c).to_reduced().to_vec());
    vector!("dmu_dt", |s: &S, c| s.dmu_dt(c).to_reduced().to_vec());
    vector!("dmu_dni", |s: &S, c| s.dmu_dni(c).to_reduced().into_raw_vec_and_offset().0);
    // c_p: the residual selector is defined w.r.t. the total pressure derivatives
    let dpdv = st.dp_dv(Total).to_reduced();
    if dpdv < 0.0 {
        scalar!("molar_isobaric_heat_capacity", |s: &S, c| s
            .molar_isobaric_heat_capacity(c)
            .to_reduced());
    }
    // residual getters without selector equal the Residual selector of the total API
    let pairs = [
        ("residual_entropy", st.residual_entropy().to_reduced(), st.entropy(Residual).to_reduced()),
        ("residual_helmholtz_energy", a, st.helmholtz_energy(Residual).to_reduced()),
        ("residual_enthalpy", st.residual_enthalpy().to_reduced(), st.enthalpy(Residual).to_reduced()),
        ("residual_internal_energy", st.residual_internal_energy().to_reduced(), st.internal_energy(Residual).to_reduced()),
        ("ds_res_dt", st.ds_res_dt().to_reduced(), st.ds_dt(Residual).to_reduced()),
        ("d2s_res_dt2", st.d2s_res_dt2().to_reduced(), st.d2s_dt2(Residual).to_reduced()),
    ];
    // scales: the residual energy terms of the state (A itself passes through zero)
    let sa = {
        let v = ss.volume().to_reduced();
        let mu = st.residual_chemical_potential().to_reduced();
        let mun: f64 = mu.iter().zip(ss.x.iter()).map(|(m, x)| (m * x * ss.ntot).abs()).sum();
        a.abs()
            .max((st.pressure(Residual).to_reduced() * v).abs())
            .max((st.residual_entropy().to_reduced() * ss.t).abs())
            .max(mun)
    };
    for (nm, x, y) in pairs {
        let name = format!("residual_api:{nm}");
        let floor = match nm {
            "residual_entropy" => sa / ss.t,
            "ds_res_dt" => sa / (ss.t * ss.t),
            "d2s_res_dt2" => sa / (ss.t * ss.t * ss.t),
            _ => sa,
        };
        m.check(&name, &format!("{fam}|{name}"), case, crate::fd::serr(x, y, floor), 1e-11 * lowdens, det(&name, [x, y, 0.0]));
    }
    // ideal gas pressure in SI: rho R T
    let p_si = st.pressure(IdealGas).convert_to(PASCAL);
    let rho_si = st.density.convert_to(MOL / (METER * METER * METER));
    let t_si = st.temperature.convert_to(KELVIN);
    let expect = rho_si * R_SI * t_si;
    m.check("ideal_gas:p=rho R T (SI)", &format!("{fam}|pIG"), case, crate::fd::serr(p_si, expect, 0.0), 1e-13, det("pIG", [p_si, expect, 0.0]));
    // ideal mixing: mu_i^IG(mix) - mu_i^IG(pure, same T, same total density) = RT ln x_i
    if mc.n > 1 {
        let mu = st.chemical_potential(IdealGas).to_reduced();
        for i in 0..mc.n {
            let sub = Arc::new(eos.subset(&[i]));
            if let Ok(sp) = State::new_nvt(
                &sub,
                ss.temperature(),
                ss.volume(),
                &Moles::from_reduced(arr1(&[ss.ntot])),
            ) {
                let mup = sp.chemical_potential(IdealGas).to_reduced()[0];
                let expect = ss.t * ss.x[i].ln();
                let dev = ((mu[i] - mup) - expect).abs() / (mu[i].abs() + mup.abs() + expect.abs());
                m.check("ideal_gas:ideal mixing", &format!("{fam}|ideal mixing"), case, dev, 1e-11, det("ideal mixing", [mu[i], mup, expect]));
            }
        }
        // the same relation in extremely dilute gases (partial densities down to 1e-30 A^-3):
        // a component that is present, however dilute, keeps its ln rho_i term
        for f in [1e-10, 1e-16, 1e-22] {
            let v = ss.volume() / f;
            let (Ok(sm), subs) = (State::new_nvt(&eos, ss.temperature(), v, &ss.moles()), (0..mc.n).map(|i| Arc::new(eos.subset(&[i]))).collect::<Vec<_>>()) else {
                continue;
            };
            let mu = sm.chemical_potential(IdealGas).to_reduced();
            for i in 0..mc.n {
                if let Ok(sp) = State::new_nvt(&subs[i], ss.temperature(), v, &Moles::from_reduced(arr1(&[ss.ntot]))) {
                    let mup = sp.chemical_potential(IdealGas).to_reduced()[0];
                    let expect = ss.t * ss.x[i].ln();
                    let dev = ((mu[i] - mup) - expect).abs() / (mu[i].abs() + mup.abs() + expect.abs());
                    m.check("ideal_gas:ideal mixing in the dilute limit", &format!("{fam}|ideal mixing dilute"), case, dev, 1e-11, || json!({"state": ss.json(), "density factor": f, "component": i, "partial density": ss.rho * f * ss.x[i], "mu_mix": mu[i], "mu_pure": mup, "kT ln x": expect}));
                }
            }
        }
    }
}

fn zero_density(m: &mut Monitor, case: u64, mc: &ModelCase, ss: &StateSpec) {
    let fam = mc.family.as_str();
    let rmax = max_density(&mc.eos, &ss.x);
    for frac in [1e-8, 1e-6, 1e-4] {
        let mut s2 = ss.clone();
        s2.rho = frac * rmax;
        s2.eta_frac = frac;
        let Some(st) = make_state(&mc.eos, &s2) else {
            continue;
        };
        let z = st.pressure(Contributions::Residual).to_reduced() / (s2.rho * s2.t);
        let a = st.residual_helmholtz_energy().to_reduced() / (s2.ntot * s2.t);
        let s = st.residual_entropy().to_reduced() / s2.ntot;
        let mu = st.residual_chemical_potential().to_reduced();
        let mumax = mu.iter().fold(0.0f64, |acc, x| acc.max(x.abs())) / s2.t;
        let worst = z.abs().max(a.abs()).max(s.abs()).max(mumax);
        // B rho_max is O(1..1e3) for every non-associating, non-polar model in the zoo at
        // T >= 0.5 T_c; association multiplies B by ~exp(eps_AB/kT), dipoles/quadrupoles by powers
        // of 1/T: the bound is scaled accordingly (it is a sanity bound, not a value check)
        let eps_ab = mc.spec.pure.iter().filter_map(|r| r["model_record"].get("epsilon_k_ab").and_then(|v| v.as_f64())).fold(0.0, f64::max);
        let polar = mc.spec.pure.iter().any(|r| r["model_record"].get("mu").is_some() || r["model_record"].get("q").is_some());
        let bound = 1e5 * (eps_ab / s2.t).exp().max(1.0) * if polar { 1e3 } else { 1.0 };
        let (model, st_json) = (mc.spec.clone(), s2.json());
        m.check(
            "zero_density:residual vanishes like rho",
            &format!("{fam}|zero density"),
            case,
            worst / frac,
            bound,
            move || json!({"model": model, "state": st_json, "Z_res": fnum(z), "a_res/NkT": fnum(a), "s_res/Nk": fnum(s), "mu_res/kT max": fnum(mumax)}),
        );
    }
}

fn cp_ig_of(ig: &Arc<IdealGasModel>, t: f64, x: &[f64]) -> Option<f64> {
    let eos = Arc::new(EquationOfState::ideal_gas(ig.clone()));
    let n = Moles::from_reduced(Array1::from_vec(x.to_vec()));
    let st = State::new_nvt(
        &eos,
        Temperature::from_reduced(t),
        Volume::from_reduced(1000.0),
        &n,
    )
    .ok()?;
    Some(
        st.molar_isobaric_heat_capacity(Contributions::IdealGas)
            .convert_to(JOULE / (MOL * KELVIN)),
    )
}

fn heat_capacity_random(m: &mut Monitor, cfg: &Config) {
    let n = cfg.tier.pick(2000, 200_000);
    let cases: Vec<u64> = (0..n).collect();
    par_cases(m, &cases, |m, _, &i| {
        let mut rng = Rng::derive(cfg.seed, "c10-cp", i);
        let nc = 1 + rng.below(3);
        let ig = IgSpec::random(nc, &mut rng);
        let t = rng.range(150.0, 1500.0);
        let x = rng.simplex(nc, 0.1, 1e-6);
        let model = ig.build();
        let Some(cp) = cp_ig_of(&model, t, &x) else {
            return;
        };
        let expect: f64 = (0..nc).map(|k| x[k] * ig.cp_closed_form(k, t)).sum();
        let kind = ["joback", "dippr100", "dippr107", "dippr127"][ig.kind as usize];
        m.case(&format!("ig-{kind}"), hash_f64s(kind, &[t, x[0], ig.coefs[0][0]]), true);
        let name = format!("cp_ig:{kind} random vs closed form");
        let (igj, xx) = (ig.json(), x.clone());
        m.check(&name, &format!("{kind}|cp closed form"), 1_000_000 + i, crate::fd::serr(cp, expect, 0.0), 1e-6, move || {
            json!({"ideal_gas": igj, "T": t, "x": xx, "cp_from_helmholtz": cp, "cp_closed_form": expect})
        });
        // temperature derivatives of the ideal-gas part at third order of the Helmholtz energy:
        // dc_v/dT = dc_p/dT and d2S/dT2 = N (dc_v/dT / T - c_v / T^2), against central differences
        // (Richardson) of the closed form
        {
            // the Joback implementation evaluates the polynomial with the 2014 gas constant and
            // rescales to the current one (3.4e-7; inside the 1e-6 of the c_p clause, but amplified
            // in the temperature derivative, so it is mirrored here)
            let ratio = if ig.kind == 0 { R_SI / (6.022140857 * 1.38064852) } else { 1.0 };
            let cpc = |t: f64| -> f64 { ratio * (0..nc).map(|k| x[k] * ig.cp_closed_form(k, t)).sum::<f64>() };
            // five-point stencil at two step sizes; their difference is the error bar
            let d = |h: f64| (-cpc(t + 2.0 * h) + 8.0 * cpc(t + h) - 8.0 * cpc(t - h) + cpc(t - 2.0 * h)) / (12.0 * h);
            let h = 2e-3 * t;
            let dcp = d(h);
            let err = (d(h) - d(2.0 * h)).abs().max(1e-14 * cpc(t).abs() / h);
            let eos = Arc::new(EquationOfState::ideal_gas(model.clone()));
            let nn = Moles::from_reduced(Array1::from_vec(x.to_vec()));
            if let Ok(st) = State::new_nvt(&eos, Temperature::from_reduced(t), Volume::from_reduced(1000.0), &nn) {
                let r = RGAS.convert_to(JOULE / (MOL * KELVIN));
                let dcv = st.dc_v_dt(Contributions::IdealGas).convert_to(JOULE / (MOL * KELVIN * KELVIN));
                let scale = cpc(t).abs() / t;
                if err < 1e-8 * scale {
                    let name = format!("cp_ig:{kind} dc_v/dT vs closed form");
                    m.check(&name, &format!("{kind}|dcv_dt closed form"), 1_000_000 + i, (dcv - dcp).abs() / scale, 1e-6, || json!({"T": t, "dc_v_dt": dcv, "closed form": dcp, "error bar": err}));
                    let ntot = st.total_moles.convert_to(MOL);
                    let d2s = st.d2s_dt2(Contributions::IdealGas).convert_to(JOULE / (KELVIN * KELVIN * KELVIN));
                    let expect2 = ntot * (dcp / t - (cpc(t) - r) / (t * t));
                    let name = format!("cp_ig:{kind} d2S/dT2 vs closed form");
                    m.check(&name, &format!("{kind}|d2s_dt2 closed form"), 1_000_000 + i, (d2s - expect2).abs() / (ntot * scale / t), 1e-6, || json!({"T": t, "d2s_dt2": d2s, "closed form": expect2}));
                } else {
                    m.skip("cp_ig:dc_v/dT", "closed-form difference quotient unresolved");
                }
            }
        }
        // the model's own correlation function
        let own = match &*model {
            IdealGasModel::Joback(j) => j
                .molar_isobaric_heat_capacity(Temperature::from_reduced(t), &arr1(&x))
                .ok(),
            IdealGasModel::Dippr(d) => d
                .molar_isobaric_heat_capacity(Temperature::from_reduced(t), &arr1(&x))
                .ok(),
            _ => None,
        };
        if let Some(own) = own {
            let own = own.convert_to(JOULE / (MOL * KELVIN));
            let name = format!("cp_ig:{kind} helmholtz vs model correlation");
            m.check(&name, &format!("{kind}|cp own"), 1_000_000 + i, crate::fd::serr(cp, own, 0.0), 1e-10, || {
                json!({"T": t, "cp_from_helmholtz": cp, "cp_model_fn": own})
            });
        }
    });
}

fn heat_capacity_shipped(m: &mut Monitor, cfg: &Config) {
    let dir = params_dir().join("ideal_gas");
    // DIPPR: every record of poling2000
    let recs = load_json_array(&dir.join("poling2000.json"));
    let nt = cfg.tier.pick(10, 40);
    par_cases(m, &recs, |m, i, r| {
        let Ok(pr) = serde_json::from_value::<PureRecord<DipprRecord>>(r.clone()) else {
            m.check_bool("cp_ig:dippr shipped parses", "poling2000|parse", 2_000_000 + i, false, || r.clone());
            return;
        };
        let (kind, c): (u8, Vec<f64>) = match &pr.model_record {
            DipprRecord::DIPPR100(c) => (1, c.clone()),
            DipprRecord::DIPPR107(c) => (2, c.to_vec()),
            DipprRecord::DIPPR127(c) => (3, c.to_vec()),
        };
        let name = r["identifier"]["name"].as_str().unwrap_or("?").to_string();
        let model = Arc::new(IdealGasModel::Dippr(Arc::new(Dippr::new_pure(pr).unwrap())));
        let mut rng = Rng::derive(cfg.seed, "c10-poling", i);
        for _ in 0..nt {
            let t = rng.range(150.0, 1500.0);
            let Some(cp) = cp_ig_of(&model, t, &[1.0]) else {
                continue;
            };
            let expect = cp_closed(kind, &c, t);
            m.case("ig-dippr-shipped", hash_f64s(&name, &[t]), true);
            let nm = name.clone();
            m.check("cp_ig:dippr shipped vs closed form", &format!("poling2000|{name}"), 2_000_000 + i, crate::fd::serr(cp, expect, 0.0), 1e-6, move || {
                json!({"record": nm, "T": t, "cp_from_helmholtz": cp, "cp_closed_form": expect})
            });
        }
    });
    // Joback: every gc substance assembled from the joback1987 groups
    let subs = shipped("pcsaft", "gc_substances.json");
    let groups = load_json_array(&dir.join("joback1987.json"));
    let gmap: std::collections::HashMap<String, Vec<f64>> = groups
        .iter()
        .map(|g| {
            let r = &g["model_record"];
            (
                g["identifier"].as_str().unwrap_or("").to_string(),
                ["a", "b", "c", "d", "e"].iter().map(|k| r[*k].as_f64().unwrap_or(0.0)).collect(),
            )
        })
        .collect();
    par_cases(m, &subs, |m, i, s| {
        let segs: Vec<String> = s.record["segments"]
            .as_array()
            .map(|a| a.iter().map(|x| x.as_str().unwrap_or("").to_string()).collect())
            .unwrap_or_default();
        if !segs.iter().all(|g| gmap.contains_key(g)) {
            m.skip("cp_ig:joback shipped vs closed form", "group not in joback1987");
            return;
        }
        let Ok(j) = Joback::from_json_segments(
            &[s.name.as_str()],
            params_dir().join("pcsaft/gc_substances.json"),
            dir.join("joback1987.json"),
            None,
            IdentifierOption::Name,
        ) else {
            m.check_bool("cp_ig:joback shipped assembles", &format!("joback1987|{}", s.name), 3_000_000 + i, false, || json!({"substance": s.name}));
            return;
        };
        // documented group-contribution rule: constants + sum of group increments
        let mut c = vec![-37.93, 0.21, -3.91e-4, 2.06e-7, 0.0];
        for g in &segs {
            for k in 0..5 {
                c[k] += gmap[g][k];
            }
        }
        let model = Arc::new(IdealGasModel::Joback(Arc::new(j)));
        let mut rng = Rng::derive(cfg.seed, "c10-joback", i);
        for _ in 0..nt {
            let t = rng.range(150.0, 1500.0);
            let Some(cp) = cp_ig_of(&model, t, &[1.0]) else {
                continue;
            };
            let expect = cp_closed(0, &c, t);
            m.case("ig-joback-shipped", hash_f64s(&s.name, &[t]), true);
            let nm = s.name.clone();
            m.check("cp_ig:joback shipped vs closed form", &format!("joback1987|{}", s.name), 3_000_000 + i, crate::fd::serr(cp, expect, 1.0), 1e-6, move || {
                json!({"substance": nm, "T": t, "cp_from_helmholtz": cp, "cp_closed_form": expect})
            });
        }
    });
}
