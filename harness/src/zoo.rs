//! Model zoo: serialisable model specifications (so that witnesses can be replayed and
//! specs can be permuted / subset / perturbed generically), builders into
//! `ResidualModel`, shipped-record loaders and state samplers.
use crate::prng::Rng;
use feos::epcsaft::{
    ElectrolytePcSaft, ElectrolytePcSaftOptions, ElectrolytePcSaftParameters,
    ElectrolytePcSaftVariants,
};
use feos::gc_pcsaft::{
    GcPcSaft, GcPcSaftEosParameters, GcPcSaftFunctional, GcPcSaftFunctionalParameters,
    GcPcSaftOptions,
};
use feos::hard_sphere::{FMTFunctional, FMTVersion};
use feos::pcsaft::{DQVariants, PcSaft, PcSaftFunctional, PcSaftOptions, PcSaftParameters};
use feos::pets::{Pets, PetsFunctional, PetsOptions, PetsParameters};
use feos::saftvrmie::{SaftVRMie, SaftVRMieOptions, SaftVRMieParameters};
use feos::saftvrqmie::{
    SaftVRQMie, SaftVRQMieFunctional, SaftVRQMieOptions, SaftVRQMieParameters,
};
use feos::uvtheory::{Perturbation, UVTheory, UVTheoryOptions, UVTheoryParameters};
use feos::ResidualModel;
use feos_core::cubic::{PengRobinson, PengRobinsonParameters};
use feos_core::parameter::{
    BinaryRecord, ChemicalRecord, Parameter, ParameterHetero, PureRecord, SegmentRecord,
};
use feos_core::{Components, ReferenceSystem, Residual, SolverOptions, State};
use ndarray::{arr1, Array1, Array2};
use quantity::*;
use serde::de::DeserializeOwned;
use serde::{Deserialize, Serialize};
use serde_json::{json, Value};
use std::path::{Path, PathBuf};
use std::sync::Arc;

pub type Model = ResidualModel;
pub type St = State<Model>;

#[derive(Clone, Copy, Debug, PartialEq, Eq, Serialize, Deserialize, Hash, PartialOrd, Ord)]
pub enum Kind {
    Pr,
    PcSaft,
    PcSaftFunctional,
    EPcSaft,
    GcPcSaft,
    GcPcSaftFunctional,
    Pets,
    PetsFunctional,
    Uv,
    SaftVRMie,
    SaftVRQMie,
    SaftVRQMieFunctional,
    Fmt,
}

#[derive(Clone, Debug, Serialize, Deserialize)]
pub struct Opts {
    pub max_eta: f64,
    pub max_iter_cross_assoc: usize,
    pub tol_cross_assoc: f64,
    /// 0 WhiteBear, 1 KierlikRosinberg, 2 AntiSymWhiteBear
    pub fmt: u8,
    /// 0 WCA, 1 BH, 2 B3
    pub perturbation: u8,
    pub inc_nonadd: bool,
    /// 0 DQ35 1 DQ44
    pub dq: u8,
    /// 0 advanced 1 revised
    pub epcsaft_variant: u8,
}

impl Default for Opts {
    fn default() -> Self {
        Opts {
            max_eta: 0.5,
            max_iter_cross_assoc: 50,
            tol_cross_assoc: 1e-10,
            fmt: 0,
            perturbation: 0,
            inc_nonadd: true,
            dq: 0,
            epcsaft_variant: 0,
        }
    }
}

impl Opts {
    pub fn is_default(&self) -> bool {
        let d = Opts::default();
        self.max_eta == d.max_eta
            && self.max_iter_cross_assoc == d.max_iter_cross_assoc
            && self.tol_cross_assoc == d.tol_cross_assoc
            && self.inc_nonadd == d.inc_nonadd
            && self.dq == d.dq
            && self.epcsaft_variant == d.epcsaft_variant
    }
    pub fn fmt_version(&self) -> FMTVersion {
        match self.fmt {
            0 => FMTVersion::WhiteBear,
            1 => FMTVersion::KierlikRosinberg,
            _ => FMTVersion::AntiSymWhiteBear,
        }
    }
}

/// Serializable model description.
#[derive(Clone, Debug, Serialize, Deserialize)]
pub struct Spec {
    pub kind: Kind,
    /// pure records (PureRecord<M> JSON) or chemical records (gc)
    pub pure: Vec<Value>,
    /// full n x n matrix of binary model records (JSON), if any
    pub binary: Option<Vec<Vec<Value>>>,
    /// gc: segment file and binary segment file (relative to repo/parameters)
    pub segment_file: Option<String>,
    pub binary_segment_file: Option<String>,
    pub opts: Opts,
}

#[derive(Debug)]
pub struct BuildError(pub String);

fn recs<M: DeserializeOwned>(pure: &[Value]) -> Result<Vec<PureRecord<M>>, BuildError> {
    pure.iter()
        .map(|v| serde_json::from_value(v.clone()).map_err(|e| BuildError(format!("{e}"))))
        .collect()
}

fn binmat<B: DeserializeOwned + Clone>(
    binary: &Option<Vec<Vec<Value>>>,
) -> Result<Option<Array2<B>>, BuildError> {
    match binary {
        None => Ok(None),
        Some(m) => {
            let n = m.len();
            let mut flat = Vec::with_capacity(n * n);
            for row in m {
                for v in row {
                    flat.push(
                        serde_json::from_value::<B>(v.clone())
                            .map_err(|e| BuildError(format!("{e}")))?,
                    );
                }
            }
            Ok(Some(Array2::from_shape_vec([n, n], flat).unwrap()))
        }
    }
}

fn perr<T>(r: Result<T, feos_core::parameter::ParameterError>) -> Result<T, BuildError> {
    r.map_err(|e| BuildError(format!("{e}")))
}

pub fn params_dir() -> PathBuf {
    PathBuf::from(std::env::var("FV_REPO").unwrap_or_else(|_| "/repo".into())).join("parameters")
}

impl Spec {
    pub fn new(kind: Kind, pure: Vec<Value>) -> Self {
        Spec {
            kind,
            pure,
            binary: None,
            segment_file: None,
            binary_segment_file: None,
            opts: Opts::default(),
        }
    }

    pub fn n(&self) -> usize {
        self.pure.len()
    }

    pub fn with_opts(mut self, o: Opts) -> Self {
        self.opts = o;
        self
    }

    pub fn with_kind(&self, kind: Kind) -> Self {
        let mut s = self.clone();
        s.kind = kind;
        s
    }

    /// Set a symmetric scalar k_ij-like binary record for a binary/ternary.
    pub fn with_binary(mut self, m: Vec<Vec<Value>>) -> Self {
        self.binary = Some(m);
        self
    }

    pub fn names(&self) -> Vec<String> {
        self.pure
            .iter()
            .map(|p| {
                p.get("identifier")
                    .and_then(|i| i.get("name"))
                    .and_then(|n| n.as_str())
                    .unwrap_or("?")
                    .to_string()
            })
            .collect()
    }

    pub fn label(&self) -> String {
        format!("{:?}[{}]", self.kind, self.names().join(","))
    }

    /// Reorder / select components: new component k is old component idx[k].
    pub fn select(&self, idx: &[usize]) -> Spec {
        let mut s = self.clone();
        s.pure = idx.iter().map(|&i| self.pure[i].clone()).collect();
        s.binary = self.binary.as_ref().map(|b| {
            idx.iter()
                .map(|&i| idx.iter().map(|&j| b[i][j].clone()).collect())
                .collect()
        });
        s
    }

    pub fn gc_files(&self) -> (PathBuf, Option<PathBuf>) {
        let d = params_dir().join("pcsaft");
        (
            d.join(self.segment_file.as_deref().unwrap_or("sauer2014_hetero.json")),
            self.binary_segment_file.as_ref().map(|f| d.join(f)),
        )
    }

    pub fn pcsaft_options(&self) -> PcSaftOptions {
        PcSaftOptions {
            max_eta: self.opts.max_eta,
            max_iter_cross_assoc: self.opts.max_iter_cross_assoc,
            tol_cross_assoc: self.opts.tol_cross_assoc,
            dq_variant: if self.opts.dq == 0 {
                DQVariants::DQ35
            } else {
                DQVariants::DQ44
            },
        }
    }

    pub fn pcsaft_parameters(&self) -> Result<PcSaftParameters, BuildError> {
        perr(PcSaftParameters::from_records(
            recs(&self.pure)?,
            binmat(&self.binary)?,
        ))
    }

    pub fn gc_inputs<P: DeserializeOwned, B: DeserializeOwned>(
        &self,
    ) -> Result<
        (
            Vec<ChemicalRecord>,
            Vec<SegmentRecord<P>>,
            Option<Vec<BinaryRecord<String, B>>>,
        ),
        BuildError,
    > {
        let chem: Vec<ChemicalRecord> = self
            .pure
            .iter()
            .map(|v| serde_json::from_value(v.clone()).map_err(|e| BuildError(format!("{e}"))))
            .collect::<Result<_, _>>()?;
        let (segf, binf) = self.gc_files();
        let seg: Vec<SegmentRecord<P>> = perr(SegmentRecord::from_json(&segf))?;
        let bin = match binf {
            Some(f) => {
                let s = std::fs::read_to_string(&f).map_err(|e| BuildError(format!("{e}")))?;
                Some(serde_json::from_str(&s).map_err(|e| BuildError(format!("{e}")))?)
            }
            None => None,
        };
        Ok((chem, seg, bin))
    }

    pub fn build(&self) -> Result<Arc<Model>, BuildError> {
        let o = &self.opts;
        let m = match self.kind {
            Kind::Pr => {
                let p = perr(PengRobinsonParameters::from_records(
                    recs(&self.pure)?,
                    binmat(&self.binary)?,
                ))?;
                Model::PengRobinson(PengRobinson::new(Arc::new(p)))
            }
            Kind::PcSaft => Model::PcSaft(PcSaft::with_options(
                Arc::new(self.pcsaft_parameters()?),
                self.pcsaft_options(),
            )),
            Kind::PcSaftFunctional => Model::PcSaftFunctional(PcSaftFunctional::with_options(
                Arc::new(self.pcsaft_parameters()?),
                o.fmt_version(),
                self.pcsaft_options(),
            )),
            Kind::EPcSaft => {
                let p = perr(ElectrolytePcSaftParameters::from_records(
                    recs(&self.pure)?,
                    binmat(&self.binary)?,
                ))?;
                Model::ElectrolytePcSaft(ElectrolytePcSaft::with_options(
                    Arc::new(p),
                    ElectrolytePcSaftOptions {
                        max_eta: o.max_eta,
                        max_iter_cross_assoc: o.max_iter_cross_assoc,
                        tol_cross_assoc: o.tol_cross_assoc,
                        epcsaft_variant: if o.epcsaft_variant == 0 {
                            ElectrolytePcSaftVariants::Advanced
                        } else {
                            ElectrolytePcSaftVariants::Revised
                        },
                    },
                ))
            }
            Kind::GcPcSaft => {
                let (c, s, b) = self.gc_inputs()?;
                let p = perr(GcPcSaftEosParameters::from_segments(c, s, b))?;
                Model::GcPcSaft(GcPcSaft::with_options(
                    Arc::new(p),
                    GcPcSaftOptions {
                        max_eta: o.max_eta,
                        max_iter_cross_assoc: o.max_iter_cross_assoc,
                        tol_cross_assoc: o.tol_cross_assoc,
                    },
                ))
            }
            Kind::GcPcSaftFunctional => {
                let (c, s, b) = self.gc_inputs()?;
                let p = perr(GcPcSaftFunctionalParameters::from_segments(c, s, b))?;
                Model::GcPcSaftFunctional(GcPcSaftFunctional::with_options(
                    Arc::new(p),
                    o.fmt_version(),
                    GcPcSaftOptions {
                        max_eta: o.max_eta,
                        max_iter_cross_assoc: o.max_iter_cross_assoc,
                        tol_cross_assoc: o.tol_cross_assoc,
                    },
                ))
            }
            Kind::Pets => {
                let p = perr(PetsParameters::from_records(
                    recs(&self.pure)?,
                    binmat(&self.binary)?,
                ))?;
                Model::Pets(Pets::with_options(
                    Arc::new(p),
                    PetsOptions { max_eta: o.max_eta },
                ))
            }
            Kind::PetsFunctional => {
                let p = perr(PetsParameters::from_records(
                    recs(&self.pure)?,
                    binmat(&self.binary)?,
                ))?;
                Model::PetsFunctional(PetsFunctional::with_options(
                    Arc::new(p),
                    o.fmt_version(),
                    PetsOptions { max_eta: o.max_eta },
                ))
            }
            Kind::Uv => {
                let p = perr(UVTheoryParameters::from_records(
                    recs(&self.pure)?,
                    binmat(&self.binary)?,
                ))?;
                Model::UVTheory(UVTheory::with_options(
                    Arc::new(p),
                    UVTheoryOptions {
                        max_eta: o.max_eta,
                        perturbation: match o.perturbation {
                            0 => Perturbation::WeeksChandlerAndersen,
                            1 => Perturbation::BarkerHenderson,
                            _ => Perturbation::WeeksChandlerAndersenB3,
                        },
                    },
                ))
            }
            Kind::SaftVRMie => {
                let p = perr(SaftVRMieParameters::from_records(
                    recs(&self.pure)?,
                    binmat(&self.binary)?,
                ))?;
                Model::SaftVRMie(SaftVRMie::with_options(
                    Arc::new(p),
                    SaftVRMieOptions {
                        max_eta: o.max_eta,
                        max_iter_cross_assoc: o.max_iter_cross_assoc,
                        tol_cross_assoc: o.tol_cross_assoc,
                    },
                ))
            }
            Kind::SaftVRQMie => {
                let p = perr(SaftVRQMieParameters::from_records(
                    recs(&self.pure)?,
                    binmat(&self.binary)?,
                ))?;
                Model::SaftVRQMie(SaftVRQMie::with_options(
                    Arc::new(p),
                    SaftVRQMieOptions {
                        max_eta: o.max_eta,
                        inc_nonadd_term: o.inc_nonadd,
                    },
                ))
            }
            Kind::SaftVRQMieFunctional => {
                let p = perr(SaftVRQMieParameters::from_records(
                    recs(&self.pure)?,
                    binmat(&self.binary)?,
                ))?;
                Model::SaftVRQMieFunctional(SaftVRQMieFunctional::with_options(
                    Arc::new(p),
                    o.fmt_version(),
                    SaftVRQMieOptions {
                        max_eta: o.max_eta,
                        inc_nonadd_term: o.inc_nonadd,
                    },
                ))
            }
            Kind::Fmt => {
                let sigma: Array1<f64> = self
                    .pure
                    .iter()
                    .map(|p| p["model_record"]["sigma"].as_f64().unwrap_or(3.0))
                    .collect();
                Model::FmtFunctional(FMTFunctional::new(&sigma, o.fmt_version()))
            }
        };
        Ok(Arc::new(m))
    }
}

// ---------------------------------------------------------------------------------------
// shipped records
// ---------------------------------------------------------------------------------------

pub fn load_json_array(path: &Path) -> Vec<Value> {
    let s = std::fs::read_to_string(path).unwrap_or_default();
    if s.trim().is_empty() {
        return vec![];
    }
    serde_json::from_str::<Vec<Value>>(&s).unwrap_or_default()
}

pub const PCSAFT_PURE_FILES: &[&str] = &[
    "gross2001.json",
    "gross2002.json",
    "gross2005_fit.json",
    "gross2005_literature.json",
    "gross2006.json",
    "eller2022.json",
    "loetgeringlin2018.json",
    "rehner2020.json",
    "esper2023.json",
];

pub const GROSS_FILES: &[&str] = &[
    "gross2001.json",
    "gross2002.json",
    "gross2005_fit.json",
    "gross2005_literature.json",
    "gross2006.json",
];

#[derive(Clone, Debug)]
pub struct Shipped {
    pub file: String,
    pub name: String,
    pub record: Value,
}

pub fn shipped(model_dir: &str, file: &str) -> Vec<Shipped> {
    load_json_array(&params_dir().join(model_dir).join(file))
        .into_iter()
        .map(|r| Shipped {
            file: file.to_string(),
            name: r
                .get("identifier")
                .and_then(|i| i.get("name"))
                .and_then(|n| n.as_str())
                .unwrap_or("?")
                .to_string(),
            record: r,
        })
        .collect()
}

pub fn shipped_pcsaft(files: &[&str]) -> Vec<Shipped> {
    files.iter().flat_map(|f| shipped("pcsaft", f)).collect()
}

pub fn find<'a>(v: &'a [Shipped], name: &str) -> &'a Shipped {
    v.iter()
        .find(|s| s.name == name)
        .unwrap_or_else(|| panic!("record {name} not found"))
}

fn mr(r: &Value) -> &Value {
    &r["model_record"]
}

pub fn is_assoc(r: &Value) -> bool {
    let m = mr(r);
    m.get("kappa_ab").is_some()
        && (m.get("na").and_then(|x| x.as_f64()).unwrap_or(0.0) > 0.0
            || m.get("nb").and_then(|x| x.as_f64()).unwrap_or(0.0) > 0.0)
}
pub fn is_dipolar(r: &Value) -> bool {
    mr(r).get("mu").and_then(|x| x.as_f64()).unwrap_or(0.0) != 0.0
}
pub fn is_quadrupolar(r: &Value) -> bool {
    mr(r).get("q").and_then(|x| x.as_f64()).unwrap_or(0.0) != 0.0
}

pub fn scalar_matrix(n: usize, f: impl Fn(usize, usize) -> Value, diag: Value) -> Vec<Vec<Value>> {
    (0..n)
        .map(|i| {
            (0..n)
                .map(|j| {
                    if i == j {
                        diag.clone()
                    } else {
                        f(i.min(j), i.max(j))
                    }
                })
                .collect()
        })
        .collect()
}

/// Multiply selected numeric model parameters by random factors in [1-a, 1+a].
pub fn perturb_record(r: &Value, rng: &mut Rng, a: f64, keys: &[&str]) -> Value {
    let mut r = r.clone();
    if let Some(m) = r.get_mut("model_record").and_then(|m| m.as_object_mut()) {
        for k in keys {
            if let Some(v) = m.get(*k).and_then(|v| v.as_f64()) {
                m.insert(k.to_string(), json!(v * rng.range(1.0 - a, 1.0 + a)));
            }
        }
    }
    r
}

fn named(name: &str, mw: f64, model_record: Value) -> Value {
    json!({"identifier": {"cas": name, "name": name}, "molarweight": mw, "model_record": model_record})
}

pub fn pr_record(name: &str, tc: f64, pc: f64, omega: f64, mw: f64) -> Value {
    named(name, mw, json!({"tc": tc, "pc": pc, "acentric_factor": omega}))
}

pub fn random_pr(rng: &mut Rng, n: usize) -> Spec {
    let pure: Vec<Value> = (0..n)
        .map(|i| {
            pr_record(
                &format!("pr{i}"),
                rng.range(150.0, 650.0),
                rng.log_range(1.5e6, 8e6),
                rng.range(-0.05, 0.6),
                rng.range(16.0, 150.0),
            )
        })
        .collect();
    let mut s = Spec::new(Kind::Pr, pure);
    if n > 1 && rng.bool(0.7) {
        let ks: Vec<f64> = (0..n * n).map(|_| rng.range(-0.08, 0.12)).collect();
        s.binary = Some(scalar_matrix(n, |i, j| json!(ks[i * n + j]), json!(0.0)));
    }
    s
}

pub fn pets_record(name: &str, sigma: f64, eps: f64, mw: f64) -> Value {
    named(
        name,
        mw,
        json!({"sigma": sigma, "epsilon_k": eps,
               "viscosity": [-0.5, -1.2, 0.1, 0.02],
               "diffusion": [0.1, -0.9, 0.05, 0.0, 0.0],
               "thermal_conductivity": [0.2, -0.6, 0.03, 0.01]}),
    )
}

pub fn random_pets(rng: &mut Rng, n: usize) -> Spec {
    let pure: Vec<Value> = (0..n)
        .map(|i| {
            pets_record(
                &format!("pets{i}"),
                rng.range(3.0, 4.2),
                rng.range(90.0, 260.0),
                rng.range(16.0, 90.0),
            )
        })
        .collect();
    let mut s = Spec::new(Kind::Pets, pure);
    if n > 1 && rng.bool(0.7) {
        let ks: Vec<f64> = (0..n * n).map(|_| rng.range(-0.05, 0.1)).collect();
        s.binary = Some(scalar_matrix(
            n,
            |i, j| json!({"k_ij": ks[i * n + j]}),
            json!({"k_ij": 0.0}),
        ));
    }
    s
}

pub fn uv_record(name: &str, rep: f64, att: f64, sigma: f64, eps: f64) -> Value {
    named(
        name,
        rng_mw(sigma),
        json!({"rep": rep, "att": att, "sigma": sigma, "epsilon_k": eps}),
    )
}
fn rng_mw(sigma: f64) -> f64 {
    10.0 * sigma
}

/// perturbation: 0 WCA, 1 BH, 2 B3 (B3 and BH mixtures are restricted as in the library)
pub fn random_uv(rng: &mut Rng, n: usize, perturbation: u8) -> Spec {
    let pure: Vec<Value> = (0..n)
        .map(|i| {
            uv_record(
                &format!("uv{i}"),
                rng.range(10.0, 24.0),
                6.0,
                rng.range(3.0, 4.2),
                rng.range(90.0, 260.0),
            )
        })
        .collect();
    let mut s = Spec::new(Kind::Uv, pure);
    s.opts.perturbation = perturbation;
    s
}

pub fn saftvrmie_record(name: &str, m: f64, sigma: f64, eps: f64, lr: f64, la: f64, mw: f64) -> Value {
    named(
        name,
        mw,
        json!({"m": m, "sigma": sigma, "epsilon_k": eps, "lr": lr, "la": la}),
    )
}

// ---------------------------------------------------------------------------------------
// model cases and states
// ---------------------------------------------------------------------------------------

pub struct ModelCase {
    pub family: String,
    pub spec: Spec,
    pub eos: Arc<Model>,
    pub n: usize,
    /// per-component temperature scale (pure critical temperature where available)
    pub tscale: Vec<f64>,
}

pub fn pure_tc(eos: &Arc<Model>) -> Option<f64> {
    // SAFT-type models can have additional, unphysical critical points at low
    // temperature and high density (e.g. SAFT-VR Mie decane: 226 K vs the vapour-liquid
    // critical point at 618 K), and the default trial ladder may land on one of them.
    // The vapour-liquid critical point is the one at the highest temperature.
    let mut best: Option<f64> = None;
    let mut consider = |s: feos_core::EosResult<St>| {
        if let Ok(s) = s {
            let t = s.temperature.to_reduced();
            if t.is_finite() && t > 0.0 && t < 5000.0 && best.map_or(true, |b| t > b) {
                best = Some(t);
            }
        }
    };
    consider(State::critical_point(eos, None, None, SolverOptions::default()));
    for t0 in [1000.0, 700.0, 500.0, 300.0, 150.0, 60.0, 20.0, 8.0] {
        consider(State::critical_point(
            eos,
            None,
            Some(Temperature::from_reduced(t0)),
            SolverOptions::default(),
        ));
    }
    best
}

impl ModelCase {
    pub fn new(family: &str, spec: Spec) -> Result<ModelCase, BuildError> {
        let eos = spec.build()?;
        let n = eos.components();
        let mut tscale = Vec::with_capacity(n);
        for i in 0..n {
            let sub = Arc::new(eos.subset(&[i]));
            let t = if matches!(spec.kind, Kind::Fmt) {
                None
            } else if matches!(spec.kind, Kind::Pr) {
                // the record carries the critical temperature; the critical-point solver
                // occasionally converges to a spurious root at 1e5..1e7 K for cubic models
                spec.pure[i]["model_record"]["tc"].as_f64()
            } else {
                pure_tc(&sub)
            };
            tscale.push(t.unwrap_or_else(|| {
                let e = spec.pure[i]["model_record"]["epsilon_k"]
                    .as_f64()
                    .unwrap_or(250.0);
                1.3 * e
            }));
        }
        Ok(ModelCase {
            family: family.to_string(),
            spec,
            eos,
            n,
            tscale,
        })
    }

    pub fn with_tscale(family: &str, spec: Spec, tscale: Vec<f64>) -> Result<ModelCase, BuildError> {
        let eos = spec.build()?;
        let n = eos.components();
        Ok(ModelCase {
            family: family.to_string(),
            spec,
            eos,
            n,
            tscale,
        })
    }

    pub fn label(&self) -> String {
        format!("{}:{}", self.family, self.spec.label())
    }
}

#[derive(Clone, Debug, Serialize, Deserialize)]
pub struct StateSpec {
    /// K
    pub t: f64,
    /// total number density in 1/A^3
    pub rho: f64,
    pub x: Vec<f64>,
    /// total number of particles (reduced moles)
    pub ntot: f64,
    /// fraction of max density
    pub eta_frac: f64,
}

impl StateSpec {
    pub fn moles(&self) -> Moles<Array1<f64>> {
        Moles::from_reduced(Array1::from_vec(self.x.clone()) * self.ntot)
    }
    pub fn volume(&self) -> Volume {
        Volume::from_reduced(self.ntot / self.rho)
    }
    pub fn temperature(&self) -> Temperature {
        Temperature::from_reduced(self.t)
    }
    pub fn json(&self) -> Value {
        json!({"T_K": self.t, "rho_per_A3": self.rho, "x": self.x, "N": self.ntot, "rho_over_rhomax": self.eta_frac})
    }
    pub fn hash(&self, tag: &str) -> u64 {
        let mut v = vec![self.t, self.rho, self.ntot];
        v.extend(&self.x);
        crate::prng::hash_f64s(tag, &v)
    }
}

pub fn max_density(eos: &Arc<Model>, x: &[f64]) -> f64 {
    eos.compute_max_density(&arr1(x))
}

/// Sample a state as in the C01 quantifier: T in [tlo,thi] x T-scale, density
/// log-uniform in (1e-6, 0.9) x max density, composition in the open simplex.
pub fn sample_state(mc: &ModelCase, rng: &mut Rng, tlo: f64, thi: f64) -> StateSpec {
    if mc.family == "epcsaft" {
        // electrolyte solutions: electroneutral, dilute to moderately concentrated salt,
        // liquid-like density, temperature inside the range of the shipped permittivity
        // data and away from its interpolation knots (280.15, 298.15, 360.15 K)
        let x = if mc.n == 3 {
            let xs = rng.log_range(1e-4, 0.08);
            vec![1.0 - 2.0 * xs, xs, xs]
        } else {
            vec![1.0]
        };
        let t = if rng.bool(0.3) {
            rng.range(282.0, 296.0)
        } else {
            rng.range(300.5, 358.0)
        };
        let frac = rng.range(0.55, 0.9);
        let rho = frac * max_density(&mc.eos, &x);
        return StateSpec {
            t,
            rho,
            x,
            ntot: rng.log_range(1e-3, 1e3),
            eta_frac: frac,
        };
    }
    let x = rng.simplex(mc.n, 0.15, 1e-6);
    let ts: f64 = x.iter().zip(&mc.tscale).map(|(x, t)| x * t).sum();
    let t = ts * rng.range(tlo, thi);
    let frac = if rng.bool(0.5) {
        rng.log_range(1e-6, 0.9)
    } else {
        rng.range(0.05, 0.9)
    };
    let rho = frac * max_density(&mc.eos, &x);
    let ntot = rng.log_range(1e-3, 1e3);
    StateSpec {
        t,
        rho,
        x,
        ntot,
        eta_frac: frac,
    }
}

pub fn make_state(eos: &Arc<Model>, s: &StateSpec) -> Option<St> {
    State::new_nvt(eos, s.temperature(), s.volume(), &s.moles()).ok()
}

pub fn state_tvn(eos: &Arc<Model>, t: f64, v: f64, n: &Array1<f64>) -> Option<St> {
    State::new_nvt(
        eos,
        Temperature::from_reduced(t),
        Volume::from_reduced(v),
        &Moles::from_reduced(n.clone()),
    )
    .ok()
}

// ---------------------------------------------------------------------------------------
// the standard zoo
// ---------------------------------------------------------------------------------------

pub struct Collections {
    pub gross: Vec<Shipped>,
    pub vrmie: Vec<Shipped>,
    pub vrq: Vec<Shipped>,
    pub vrq_fh2: Vec<Shipped>,
    pub vrq_hammer: Vec<Shipped>,
    pub epcsaft: Vec<Shipped>,
    pub gc: Vec<Shipped>,
}

impl Collections {
    pub fn load() -> Self {
        Collections {
            gross: shipped_pcsaft(GROSS_FILES),
            vrmie: shipped("saftvrmie", "lafitte2013.json"),
            vrq: shipped("saftvrqmie", "aasen2019.json"),
            vrq_fh2: shipped("saftvrqmie", "aasen2019_fh2.json"),
            vrq_hammer: shipped("saftvrqmie", "hammer2023.json"),
            epcsaft: shipped("epcsaft", "held2014_w_permittivity_added.json"),
            gc: shipped("pcsaft", "gc_substances.json"),
        }
    }
}

fn pick_n(rng: &mut Rng, pool: &[&Shipped], n: usize) -> Vec<Value> {
    let mut idx: Vec<usize> = (0..pool.len()).collect();
    rng.shuffle(&mut idx);
    idx.iter().take(n).map(|&i| pool[i].record.clone()).collect()
}

fn kij_matrix(rng: &mut Rng, n: usize, wrap: impl Fn(f64) -> Value, lo: f64, hi: f64) -> Vec<Vec<Value>> {
    let ks: Vec<f64> = (0..n * n).map(|_| rng.range(lo, hi)).collect();
    scalar_matrix(n, |i, j| wrap(ks[i * n + j]), wrap(0.0))
}

/// One random model of the named family with `n` components. Returns None if the
/// family does not support that component count.
pub fn random_spec(col: &Collections, family: &str, n: usize, rng: &mut Rng) -> Option<Spec> {
    let g = &col.gross;
    let nonassoc: Vec<&Shipped> = g
        .iter()
        .filter(|s| !is_assoc(&s.record) && !is_dipolar(&s.record) && !is_quadrupolar(&s.record))
        .collect();
    let assoc: Vec<&Shipped> = g.iter().filter(|s| is_assoc(&s.record)).collect();
    let dip: Vec<&Shipped> = g.iter().filter(|s| is_dipolar(&s.record)).collect();
    let quad: Vec<&Shipped> = g.iter().filter(|s| is_quadrupolar(&s.record)).collect();
    let keys = ["m", "sigma", "epsilon_k", "kappa_ab", "epsilon_k_ab", "mu", "q"];
    let perturb = |rng: &mut Rng, v: Vec<Value>| -> Vec<Value> {
        if rng.bool(0.4) {
            v.iter().map(|r| perturb_record(r, rng, 0.2, &keys)).collect()
        } else {
            v
        }
    };
    let pcsaft_bin = |rng: &mut Rng, n: usize| -> Option<Vec<Vec<Value>>> {
        if n > 1 && rng.bool(0.7) {
            Some(kij_matrix(rng, n, |k| json!({"k_ij": k}), -0.06, 0.1))
        } else {
            None
        }
    };
    let spec = match family {
        "pr" => random_pr(rng, n),
        "pcsaft" => {
            let pure = pick_n(rng, &nonassoc, n);
            let pure = perturb(rng, pure);
            let mut s = Spec::new(Kind::PcSaft, pure);
            s.binary = pcsaft_bin(rng, n);
            s
        }
        "pcsaft-assoc" => {
            // at least one associating component; others anything
            let mut pure = pick_n(rng, &assoc, 1);
            let all: Vec<&Shipped> = g.iter().collect();
            pure.extend(pick_n(rng, &all, n - 1));
            rng.shuffle(&mut pure);
            let pure = perturb(rng, pure);
            let mut s = Spec::new(Kind::PcSaft, pure);
            s.binary = pcsaft_bin(rng, n);
            s
        }
        "pcsaft-crossassoc" => {
            if n < 2 {
                return None;
            }
            let mut pure = pick_n(rng, &assoc, 2.min(n));
            let all: Vec<&Shipped> = g.iter().collect();
            pure.extend(pick_n(rng, &all, n - pure.len()));
            rng.shuffle(&mut pure);
            let mut s = Spec::new(Kind::PcSaft, pure);
            s.binary = pcsaft_bin(rng, n);
            s
        }
        "pcsaft-solvating" => {
            // one donor-only and one acceptor-only component: exactly one A and one B site in
            // the mixture, on different components (closed-form association branch)
            if n < 2 {
                return None;
            }
            let mut pure = pick_n(rng, &assoc, 2);
            pure[0]["model_record"]["na"] = json!(1.0);
            pure[0]["model_record"]["nb"] = json!(0.0);
            pure[1]["model_record"]["na"] = json!(0.0);
            pure[1]["model_record"]["nb"] = json!(1.0);
            pure.extend(pick_n(rng, &nonassoc, n - 2));
            rng.shuffle(&mut pure);
            let mut s = Spec::new(Kind::PcSaft, pure);
            s.binary = pcsaft_bin(rng, n);
            s
        }
        "pcsaft-polar" => {
            let mut pure = Vec::new();
            if rng.bool(0.5) {
                pure.extend(pick_n(rng, &dip, 1));
            } else {
                pure.extend(pick_n(rng, &quad, 1));
            }
            if n >= 2 {
                // make sure dipole + quadrupole both appear in some mixtures
                if is_dipolar(&pure[0]) {
                    pure.extend(pick_n(rng, &quad, 1));
                } else {
                    pure.extend(pick_n(rng, &dip, 1));
                }
            }
            let all: Vec<&Shipped> = g.iter().collect();
            while pure.len() < n {
                pure.extend(pick_n(rng, &all, 1));
            }
            rng.shuffle(&mut pure);
            let pure = perturb(rng, pure);
            let mut s = Spec::new(Kind::PcSaft, pure);
            s.binary = pcsaft_bin(rng, n);
            if rng.bool(0.3) {
                s.opts.dq = 1;
            }
            s
        }
        "epcsaft" => {
            // water (n=1) or water + one 1:1 salt (n=3); other counts are not electroneutral
            let water = find(&col.epcsaft, "water").record.clone();
            let z = |s: &&Shipped| s.record["model_record"]["z"].as_f64().unwrap_or(0.0);
            let cations: Vec<&Shipped> = col.epcsaft.iter().filter(|s| z(s) == 1.0).collect();
            let anions: Vec<&Shipped> = col.epcsaft.iter().filter(|s| z(s) == -1.0).collect();
            let mut pure = vec![water];
            match n {
                1 => {}
                3 => {
                    pure.extend(pick_n(rng, &cations, 1));
                    pure.extend(pick_n(rng, &anions, 1));
                }
                _ => return None,
            }
            Spec::new(Kind::EPcSaft, pure)
        }
        "epcsaft-noions" => {
            let pure = pick_n(rng, &nonassoc, n);
            let mut s = Spec::new(Kind::EPcSaft, pure);
            if n > 1 && rng.bool(0.7) {
                s.binary = Some(kij_matrix(rng, n, |k| json!({"k_ij": [k, 0.0, 0.0, 0.0]}), -0.06, 0.1));
            }
            s
        }
        "gc-pcsaft" => {
            let pool: Vec<&Shipped> = col.gc.iter().filter(|s| gc_ok_sauer(&s.record)).collect();
            let pure = pick_n(rng, &pool, n);
            let mut s = Spec::new(Kind::GcPcSaft, pure);
            s.segment_file = Some("sauer2014_hetero.json".into());
            s
        }
        "pets" => random_pets(rng, n),
        "uv-wca" => random_uv(rng, n, 0),
        "uv-bh" => random_uv(rng, n, 1),
        "uv-b3" => {
            if n > 1 {
                return None;
            }
            random_uv(rng, n, 2)
        }
        "saftvrmie" => {
            let pool: Vec<&Shipped> = col.vrmie.iter().collect();
            let pure = pick_n(rng, &pool, n);
            let mut s = Spec::new(Kind::SaftVRMie, pure);
            if n > 1 && rng.bool(0.6) {
                s.binary = Some(kij_matrix(
                    rng,
                    n,
                    |k| json!({"k_ij": k, "gamma_ij": k * 0.5}),
                    -0.05,
                    0.08,
                ));
            }
            s
        }
        "saftvrmie-crossassoc" => {
            // >= 2 associating components: the iterative cross-association solver of SAFT-VR Mie
            if n < 2 {
                return None;
            }
            let assoc_vr: Vec<&Shipped> = col.vrmie.iter().filter(|s| s.record["model_record"].get("epsilon_k_ab").is_some()).collect();
            let pool: Vec<&Shipped> = col.vrmie.iter().collect();
            let mut pure = pick_n(rng, &assoc_vr, 2);
            pure.extend(pick_n(rng, &pool, n - 2));
            rng.shuffle(&mut pure);
            let mut s = Spec::new(Kind::SaftVRMie, pure);
            if rng.bool(0.5) {
                s.binary = Some(kij_matrix(rng, n, |k| json!({"k_ij": k, "gamma_ij": k * 0.5}), -0.05, 0.08));
            }
            s
        }
        "saftvrqmie" => {
            let pool: Vec<&Shipped> = col
                .vrq
                .iter()
                .chain(col.vrq_fh2.iter())
                .chain(col.vrq_hammer.iter())
                .collect();
            let pure = pick_n(rng, &pool, n);
            let mut s = Spec::new(Kind::SaftVRQMie, pure);
            if n > 1 && rng.bool(0.6) {
                s.binary = Some(kij_matrix(
                    rng,
                    n,
                    |k| json!({"k_ij": k, "l_ij": k * 0.3}),
                    -0.05,
                    0.1,
                ));
            }
            s
        }
        _ => return None,
    };
    Some(spec)
}

/// gc substances that can be assembled from sauer2014_hetero segments
pub fn gc_ok_sauer(r: &Value) -> bool {
    const OK: &[&str] = &[
        "CH3", "CH2", ">CH", ">C<", "=CH2", "=CH", "=C<", "C≡CH", "CH2_hex", "CH_hex", "CH2_pent",
        "CH_pent", "CH_arom", "C_arom", "CH=O", ">C=O", "OCH3", "OCH2", "HCOO", "COO", "OH", "NH2",
    ];
    r["segments"]
        .as_array()
        .map_or(false, |a| a.iter().all(|s| OK.contains(&s.as_str().unwrap_or(""))))
}

pub const EOS_FAMILIES: &[&str] = &[
    "pr",
    "pcsaft",
    "pcsaft-assoc",
    "pcsaft-crossassoc",
    "pcsaft-solvating",
    "pcsaft-polar",
    "epcsaft",
    "epcsaft-noions",
    "gc-pcsaft",
    "pets",
    "uv-wca",
    "uv-bh",
    "uv-b3",
    "saftvrmie",
    "saftvrmie-crossassoc",
    "saftvrqmie",
];

/// Functional counterpart of an EoS spec, if one exists.
pub fn functional_of(spec: &Spec, fmt: u8) -> Option<Spec> {
    let kind = match spec.kind {
        Kind::PcSaft => Kind::PcSaftFunctional,
        Kind::GcPcSaft => Kind::GcPcSaftFunctional,
        Kind::Pets => Kind::PetsFunctional,
        Kind::SaftVRQMie => Kind::SaftVRQMieFunctional,
        _ => return None,
    };
    let mut s = spec.with_kind(kind);
    s.opts.fmt = fmt;
    Some(s)
}

/// False where the model itself is not differentiable near the state, so that finite
/// differences across the state say nothing about the analytic derivative:
/// Peng-Robinson's alpha function (1 + kappa (1 - sqrt(T/Tc)))^2 enters the mixing
/// rule through sqrt(a_i a_j) = |..|, which has a kink where the bracket vanishes.
pub fn model_smooth_at(spec: &Spec, t: f64) -> bool {
    if spec.kind != Kind::Pr {
        return true;
    }
    spec.pure.iter().all(|p| {
        let r = &p["model_record"];
        let w = r["acentric_factor"].as_f64().unwrap_or(0.0);
        let tc = r["tc"].as_f64().unwrap_or(1.0);
        let kappa = 0.37464 + (1.54226 - 0.26992 * w) * w;
        (1.0 + kappa * (1.0 - (t / tc).sqrt())).abs() > 0.05
    })
}
