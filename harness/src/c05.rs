//! C05 — mixture equilibrium results satisfy isofugacity, balances and the specification.
use crate::monitor::*;
use crate::prng::{hash_f64s, Rng};
use crate::zoo::*;
use feos_core::verif::{self, Site};
use feos_core::{
    Contributions, PhaseDiagram, PhaseEquilibrium, ReferenceSystem, SolverOptions, State,
};
use ndarray::{arr1, Array1};
use quantity::*;
use serde_json::{json, Value};
use std::sync::Arc;

pub const TOL_FUG: f64 = 1e-5;

#[derive(Clone)]
pub struct Pair {
    pub spec: Spec,
    pub eos: Arc<Model>,
    pub tc: [f64; 2],
    pub names: [String; 2],
}

fn is_hydrocarbon(s: &Shipped) -> bool {
    let f = s.record["identifier"]["formula"].as_str().unwrap_or("");
    !f.is_empty()
        && f.chars().all(|c| c == 'C' || c == 'H' || c.is_ascii_digit())
        && f.contains('C')
        && f.contains('H')
}

/// all unordered pairs of shipped PC-SAFT hydrocarbon records (gross2001) whose pure
/// critical temperatures differ by less than `max_ratio`
pub fn hydrocarbon_pairs(max_ratio: f64) -> Vec<Pair> {
    use rayon::prelude::*;
    let recs: Vec<Shipped> = shipped("pcsaft", "gross2001.json")
        .into_iter()
        .filter(is_hydrocarbon)
        .collect();
    let tcs: Vec<Option<f64>> = recs
        .par_iter()
        .map(|s| {
            Spec::new(Kind::PcSaft, vec![s.record.clone()])
                .build()
                .ok()
                .and_then(|e| pure_tc(&e))
        })
        .collect();
    let mut pairs = Vec::new();
    for i in 0..recs.len() {
        for j in i + 1..recs.len() {
            let (Some(a), Some(b)) = (tcs[i], tcs[j]) else {
                continue;
            };
            if a.max(b) / a.min(b) < max_ratio {
                let spec = Spec::new(Kind::PcSaft, vec![recs[i].record.clone(), recs[j].record.clone()]);
                if let Ok(eos) = spec.build() {
                    pairs.push(Pair {
                        spec,
                        eos,
                        tc: [a, b],
                        names: [recs[i].name.clone(), recs[j].name.clone()],
                    });
                }
            }
        }
    }
    pairs
}

/// pressure equality in the solver's terms (each phase is a density iteration with an
/// absolute tolerance of 1e-12 in reduced units)
fn p_dev(a: f64, b: f64) -> f64 {
    ((a - b).abs() - 1e-11).max(0.0) / a.abs().max(b.abs())
}

/// per-state conditions of a two-phase equilibrium; `tol` scales with the requested
/// solver tolerance
pub fn check_two_phase(m: &mut Monitor, fam: &str, case: u64, pe: &PhaseEquilibrium<Model, 2>, tol: f64, info: &Value) {
    let (v, l) = (pe.vapor(), pe.liquid());
    // phases within 10 % of each other in every partial density: close to a critical point, where
    // the solvers' convergence tests (on K-factors / on the step) bound the conditions only loosely
    let near_critical = crate::c12::phase_distance(pe) < 0.1;
    let fam_tag = if near_critical { format!("near-critical|{fam}") } else { fam.to_string() };
    let fam = fam_tag.as_str();
    let sig = |c: &str| format!("{fam}|{c}");
    // failure mode seen on the unchanged tree: the iteration drifts to a vanishing pressure
    // where both "phases" are ideal gases of identical composition (K = 1 satisfies the
    // convergence test); report it once, under its own signature
    {
        let (pv, pl) = (v.pressure(Contributions::Total).to_reduced(), l.pressure(Contributions::Total).to_reduced());
        let same_x = v.molefracs.iter().zip(l.molefracs.iter()).all(|(a, b)| (a - b).abs() < 1e-9);
        let collapsed = pv.abs().max(pl.abs()) < 1e-9 && same_x && v.compressibility(Contributions::Total) > 0.999 && l.compressibility(Contributions::Total) > 0.999;
        m.check_bool("phases:not a collapsed ideal-gas pair", &format!("collapsed ideal-gas pseudo equilibrium|{fam}"), case, !collapsed, || json!({"info": info, "p_v": pv, "p_l": pl, "x": v.molefracs.to_vec()}));
        if collapsed {
            return;
        }
    }
    m.check_bool("phases:same temperature (exact)", &sig("T"), case, v.temperature == l.temperature, || info.clone());
    let (pv, pl) = (v.pressure(Contributions::Total).to_reduced(), l.pressure(Contributions::Total).to_reduced());
    m.check("phases:same pressure", &sig("p"), case, p_dev(pv, pl), 1e-6, || json!({"info": info, "p_v": pv, "p_l": pl}));
    // equal fugacities <=> equal chemical potentials mu_res/kT + ln(rho_i); this form does
    // not involve the pressure, whose relative error is unbounded at vanishing pressure
    let t = v.temperature.to_reduced();
    let (mv, ml) = (v.residual_chemical_potential().to_reduced(), l.residual_chemical_potential().to_reduced());
    let (rv, rl) = (v.partial_density.to_reduced(), l.partial_density.to_reduced());
    let mut worst = 0.0f64;
    for i in 0..mv.len() {
        if rv[i] > 0.0 && rl[i] > 0.0 {
            worst = worst.max(((mv[i] / t + rv[i].ln()) - (ml[i] / t + rl[i].ln())).abs());
        }
    }
    m.check("phases:isofugacity", &sig("fugacity"), case, worst, tol, || json!({"info": info, "x_v": v.molefracs.to_vec(), "x_l": l.molefracs.to_vec()}));
    // not copies of each other
    let same = v
        .partial_density
        .to_reduced()
        .iter()
        .zip(l.partial_density.to_reduced().iter())
        .all(|(a, b)| (a / b - 1.0).abs() < 0.99e-5);
    m.check_bool("phases:not copies of each other", &sig("trivial"), case, !same, || json!({"info": info, "rho_v": v.density.to_reduced(), "rho_l": l.density.to_reduced(), "x_v": v.molefracs.to_vec(), "x_l": l.molefracs.to_vec()}));
    // (no ordering of the molar densities is demanded for mixtures: the statement does not,
    // and a liquid of large molecules can have a lower molar density than a dense vapour)
}

pub fn run(cfg: Config) -> i32 {
    let mut m = Monitor::new(cfg.clone());
    success_grid(&mut m, &cfg);
    zoo_mixtures(&mut m, &cfg);
    diagrams(&mut m, &cfg);
    crate::c05_hetero::run(&mut m, &cfg);
    m.gate(m.clause_checked("hetero:isofugacity in all three phases") >= 30, "fewer than 30 heteroazeotropes observed");
    m.gate(m.clause_checked("success:bubble point") >= 500, "success grid too small");
    m.gate(m.clause_checked("flash:component balance") >= 300, "fewer than 300 converged flashes");
    m.gate(m.clause_checked("phases:isofugacity") >= 2000, "fewer than 2000 equilibria observed");
    m.gate(m.clause_checked("trace:flash Ok after converged event") >= 300, "flash trace not observed");
    m.finish(
        "success clause on a deterministic grid: pairs of shipped PC-SAFT hydrocarbon records (gross2001, C/H formula) with T_c ratio < 1.5 (all pairs at thorough, every 12th at quick) x T in {0.65,0.75,0.85,0.9} T_c,low x x in {0.05,0.3,0.5,0.7,0.95}: bubble point, dew point and a flash at (p_bub+p_dew)/2; conditions on every returned equilibrium, also for random zoo mixtures (PC-SAFT incl. associating/polar, gc-PC-SAFT, SAFT-VR Mie, PR; binaries and ternaries; random k_ij) with random initial guesses, starved / loose solver options and the first flash initialisation disabled by a failpoint; binary phase diagrams, bubble/dew lines and LLE diagrams state by state; distinct by (system, T, x / p)",
        false,
        &[
            "isofugacity (equal chemical potentials mu_res/kT + ln rho_i) is judged at 1e-5 (flash tolerance 1e-8 on the K-factor residual norm, bubble/dew 1e-10), scaled up when a looser tolerance is requested",
            "pressures of two phases are compared with the density-iteration tolerance (abs 1e-12 reduced units)",
        ],
    )
}

fn success_grid(m: &mut Monitor, cfg: &Config) {
    let pairs = hydrocarbon_pairs(1.5);
    m.note("hydrocarbon_pairs", json!(pairs.len()));
    let stride = cfg.tier.pick(4, 1);
    let sel: Vec<Pair> = pairs.into_iter().enumerate().filter(|(i, _)| i % stride == 0).map(|(_, p)| p).collect();
    par_cases(m, &sel, |m, ci, pr| {
        let tlow = pr.tc[0].min(pr.tc[1]);
        for (it, tr) in [0.65, 0.75, 0.85, 0.9].iter().enumerate() {
            let t = tr * tlow;
            let temp = Temperature::from_reduced(t);
            for (ix, x1) in [0.05, 0.3, 0.5, 0.7, 0.95].iter().enumerate() {
                let case = ci * 1000 + (it * 10 + ix) as u64;
                let x = arr1(&[*x1, 1.0 - x1]);
                let sys = format!("{}+{}", pr.names[0], pr.names[1]);
                let info = json!({"system": sys, "T/Tc_low": tr, "x1": x1});
                let sig = |c: &str| format!("success {c}|{sys}");
                verif::trace_begin();
                let bub = PhaseEquilibrium::bubble_point(&pr.eos, temp, &x, None, None, Default::default());
                let tr_b = verif::trace_end();
                let dew = PhaseEquilibrium::dew_point(&pr.eos, temp, &x, None, None, Default::default());
                m.check_bool("success:bubble point", &sig("bubble"), case, bub.is_ok(), || info.clone());
                m.check_bool("success:dew point", &sig("dew"), case, dew.is_ok(), || info.clone());
                m.case("grid", hash_f64s(&sys, &[*tr, *x1]), true);
                if let Ok(b) = &bub {
                    check_two_phase(m, "pcsaft-hc", case, b, TOL_FUG, &info);
                    m.check_bool("trace:bubble/dew Ok after converged event", "pcsaft-hc|trace bubble", case, tr_b.last() == Some(&Site::BubbleDewConverged) || tr_b.iter().rposition(|s| *s == Site::BubbleDewConverged) > tr_b.iter().rposition(|s| *s == Site::BubbleDewExhausted), || info.clone());
                    let dx = (&b.liquid().molefracs - &x).mapv(f64::abs).sum();
                    m.check("bubble:specified liquid composition kept", "pcsaft-hc|bubble x", case, dx, 1e-13, || info.clone());
                    m.check_bool("bubble:specified T exact", "pcsaft-hc|bubble T", case, b.liquid().temperature.to_reduced() == t && b.vapor().temperature.to_reduced() == t, || info.clone());
                }
                if let Ok(d) = &dew {
                    check_two_phase(m, "pcsaft-hc", case, d, TOL_FUG, &info);
                    let dx = (&d.vapor().molefracs - &x).mapv(f64::abs).sum();
                    m.check("dew:specified vapor composition kept", "pcsaft-hc|dew x", case, dx, 1e-13, || info.clone());
                }
                if let (Ok(b), Ok(d)) = (&bub, &dew) {
                    let (pb, pd) = (b.vapor().pressure(Contributions::Total), d.vapor().pressure(Contributions::Total));
                    m.check_bool("bubble pressure not below dew pressure", "pcsaft-hc|pbub>=pdew", case, pb >= pd * (1.0 - 1e-9), || json!({"info": info, "p_bub": pb.to_reduced(), "p_dew": pd.to_reduced()}));
                    // flash strictly inside the envelope
                    if (pb / pd).into_value() > 1.001 {
                        let p = 0.5 * (pb + pd);
                        let feed = Moles::from_reduced(&x * 2.5);
                        verif::trace_begin();
                        let fl = PhaseEquilibrium::tp_flash(&pr.eos, temp, p, &feed, None, SolverOptions::default(), None);
                        let tr_f = verif::trace_end();
                        m.check_bool("success:flash inside envelope", &sig("flash"), case, fl.is_ok(), || json!({"info": info, "p": p.to_reduced()}));
                        if let Ok(f) = &fl {
                            check_flash(m, "pcsaft-hc", case, f, &feed, t, p.to_reduced(), TOL_FUG, &info);
                            m.check_bool("trace:flash Ok after converged event", "pcsaft-hc|trace flash", case, tr_f.iter().rposition(|s| *s == Site::TpFlashConverged) > tr_f.iter().rposition(|s| *s == Site::TpFlashExhausted), || info.clone());
                        }
                    }
                }
            }
        }
    });
}

#[allow(clippy::too_many_arguments)]
fn check_flash(m: &mut Monitor, fam: &str, case: u64, f: &PhaseEquilibrium<Model, 2>, feed: &Moles<Array1<f64>>, t: f64, p: f64, tol: f64, info: &Value) {
    check_two_phase(m, fam, case, f, tol, info);
    let nv = f.vapor().moles.to_reduced();
    let nl = f.liquid().moles.to_reduced();
    let nf = feed.to_reduced();
    let ntot: f64 = nf.sum();
    let bal = (0..nf.len()).map(|i| (nv[i] + nl[i] - nf[i]).abs()).fold(0.0, f64::max) / ntot;
    m.check("flash:component balance", &format!("{fam}|balance"), case, bal, 1e-12, || json!({"info": info, "vapor": nv.to_vec(), "liquid": nl.to_vec(), "feed": nf.to_vec()}));
    m.check_bool("flash:specified T exact", &format!("{fam}|flash T"), case, f.vapor().temperature.to_reduced() == t && f.liquid().temperature.to_reduced() == t, || info.clone());
    let pdev = p_dev(f.vapor().pressure(Contributions::Total).to_reduced(), p).max(p_dev(f.liquid().pressure(Contributions::Total).to_reduced(), p));
    m.check("flash:specified p reproduced", &format!("{fam}|flash p"), case, pdev, 1e-7, || info.clone());
}

fn zoo_mixtures(m: &mut Monitor, cfg: &Config) {
    let col = Collections::load();
    let n = cfg.tier.pick(2500, 100_000);
    let idx: Vec<u64> = (0..n).collect();
    par_cases(m, &idx, |m, _, &i| {
        let mut rng = Rng::derive(cfg.seed, "c05-zoo", i);
        let fam = *rng.choose(&["pcsaft", "pcsaft", "pcsaft-assoc", "pcsaft-polar", "gc-pcsaft", "saftvrmie", "pr"]);
        let nc = 2 + rng.below(2);
        let Some(spec) = random_spec(&col, fam, nc, &mut rng) else {
            return;
        };
        let Ok(eos) = spec.build() else {
            return;
        };
        let tcs: Vec<f64> = (0..nc).filter_map(|k| spec.select(&[k]).build().ok().and_then(|e| pure_tc(&e))).collect();
        if tcs.len() != nc {
            return;
        }
        let (lo, hi) = (tcs.iter().cloned().fold(f64::INFINITY, f64::min), tcs.iter().cloned().fold(0.0, f64::max));
        if hi / lo > 1.8 {
            m.skip("zoo", "critical temperatures differ by more than 1.8");
            return;
        }
        let t = lo * rng.range(0.6, 0.95);
        let temp = Temperature::from_reduced(t);
        let x = Array1::from_vec(rng.simplex(nc, 0.0, 0.5).iter().map(|v| v.max(0.02)).collect());
        let x = &x / x.sum();
        let case = 50_000_000 + i * 10;
        let info = json!({"model": spec, "T": t, "x": x.to_vec()});
        // solver options: default, loose, or starved
        let mode = rng.below(3);
        let (tol_req, opts): (f64, SolverOptions) = match mode {
            0 => (1e-8, SolverOptions::default()),
            1 => {
                let tol = rng.log_range(1e-10, 1e-4);
                (tol, SolverOptions::default().tol(tol))
            }
            _ => (1e-8, SolverOptions::default().max_iter(1 + rng.below(5))),
        };
        let bd_opts = match mode {
            1 => (SolverOptions::default(), SolverOptions::default().tol(tol_req)),
            2 => (SolverOptions::default().max_iter(1 + rng.below(5)), SolverOptions::default().max_iter(1 + rng.below(8))),
            _ => Default::default(),
        };
        let tol = TOL_FUG * (tol_req / 1e-8).max(1.0) * 10.0;
        // bubble / dew with and without guesses
        let b0 = PhaseEquilibrium::bubble_point(&eos, temp, &x, None, None, Default::default());
        if let Ok(b0) = &b0 {
            m.case(&format!("zoo:{fam}"), hash_f64s(&spec.label(), &[t, x[0]]), true);
            if m.samples.len() < 4 {
                m.sample(json!({"model": spec.label(), "T": t, "x": x.to_vec(), "p_bubble_reduced": b0.vapor().pressure(Contributions::Total).to_reduced(), "y": b0.vapor().molefracs.to_vec()}));
            }
            check_two_phase(m, fam, case, b0, TOL_FUG, &info);
            let pb = b0.vapor().pressure(Contributions::Total);
            // guided
            let pguess = pb * rng.log_range(0.5, 2.0);
            let yguess = if rng.bool(0.5) { Some(b0.vapor().molefracs.clone()) } else { None };
            if let Ok(b1) = PhaseEquilibrium::bubble_point(&eos, temp, &x, Some(pguess), yguess.as_ref(), bd_opts) {
                check_two_phase(m, fam, case + 1, &b1, tol, &info);
                let dx = (&b1.liquid().molefracs - &x).mapv(f64::abs).sum();
                m.check("bubble:specified liquid composition kept", &format!("{fam}|bubble x"), case + 1, dx, 1e-13, || info.clone());
            } else {
                m.skip("zoo", "guided/starved bubble point failed (allowed)");
            }
            // at given pressure
            if let Ok(b2) = PhaseEquilibrium::bubble_point(&eos, pb, &x, Some(temp * rng.range(0.97, 1.03)), None, Default::default()) {
                check_two_phase(m, fam, case + 2, &b2, TOL_FUG, &info);
                m.check("bubble(p):specified p reproduced", &format!("{fam}|bubble p"), case + 2, p_dev(b2.liquid().pressure(Contributions::Total).to_reduced(), pb.to_reduced()), 1e-7, || info.clone());
                // (the bubble temperature at given p need not be unique; counted, not judged)
                if (b2.liquid().temperature.to_reduced() / t - 1.0).abs() > 1e-6 {
                    m.count("bubble_at_given_p_found_another_temperature", 1);
                }
            }
            if let Ok(d0) = PhaseEquilibrium::dew_point(&eos, temp, &x, None, None, Default::default()) {
                check_two_phase(m, fam, case + 3, &d0, TOL_FUG, &info);
                let pd = d0.vapor().pressure(Contributions::Total);
                // only for stable saturated phases: inside a liquid-liquid miscibility gap the
                // bubble and dew curves continue as metastable branches that may cross
                let stable = b0.liquid().is_stable(Default::default()).unwrap_or(false)
                    && d0.vapor().is_stable(Default::default()).unwrap_or(false)
                    && d0.liquid().is_stable(Default::default()).unwrap_or(false)
                    && b0.vapor().is_stable(Default::default()).unwrap_or(false);
                // the statement compares the bubble pressure with the dew pressure of the vapour-liquid
                // envelope; a "dew point" whose two phases are both liquid-like (the high-pressure
                // liquid-liquid or upper-dew branch) is a different saturation point
                // a feed between a bubble pressure and a HIGHER dew pressure would have to be a stable
                // liquid and a stable vapour at once; if the library's stability analysis calls it
                // unstable the composition lies in a three-phase / liquid-liquid region of this model
                // and the two solves belong to different envelopes (outside the quantifier)
                let demixing = pb < pd
                    && State::new_npt(&eos, temp, pb + (pd - pb) * 0.5, &Moles::from_reduced(arr1(&x.to_vec())), feos_core::DensityInitialization::None)
                        .ok()
                        .and_then(|f| f.is_stable(Default::default()).ok())
                        .map_or(true, |st| !st);
                if fam == "pr" {
                    // random Peng-Robinson parameter sets are not in the quantifier (shipped records with a
                    // critical-temperature ratio below 1.8); their phase behaviour can be of any type
                    m.skip("bubble pressure not below dew pressure", "random Peng-Robinson pair: outside the quantifier of this clause");
                } else if crate::c12::lle_like(&d0) || crate::c12::lle_like(&b0) {
                    m.skip("bubble pressure not below dew pressure", "one of the solves returned a dense-dense (liquid-liquid / upper branch) equilibrium");
                } else if demixing {
                    m.skip("bubble pressure not below dew pressure", "feed between the two pressures is unstable: several envelopes (liquid-liquid demixing)");
                } else if stable {
                    m.check_bool("bubble pressure not below dew pressure", &format!("{fam}|pbub>=pdew"), case + 3, pb >= pd * (1.0 - 1e-9), || json!({"info": info, "p_bub": pb.to_reduced(), "p_dew": pd.to_reduced()}));
                } else {
                    m.skip("bubble pressure not below dew pressure", "a saturated phase is itself unstable (liquid-liquid demixing)");
                }
                if (pb / pd).into_value() > 1.01 {
                    let frac = rng.range(0.1, 0.9);
                    let p = pd + (pb - pd) * frac;
                    let feed = Moles::from_reduced(&x * rng.log_range(0.01, 100.0));
                    let init = if rng.bool(0.3) { Some(b0.clone()) } else { None };
                    if rng.bool(0.3) {
                        verif::arm(Site::FailTpFlashInit1);
                    }
                    verif::trace_begin();
                    let fl = PhaseEquilibrium::tp_flash(&eos, temp, p, &feed, init.as_ref(), opts, None);
                    let tr_f = verif::trace_end();
                    verif::disarm_all();
                    match fl {
                        Ok(f) => {
                            let fam2 = if init.is_some() { format!("{fam}+initial state given") } else { fam.to_string() };
                            check_flash(m, &fam2, case + 4, &f, &feed, t, p.to_reduced(), tol, &info);
                            m.check_bool("trace:flash Ok after converged event", &format!("{fam}|trace flash"), case + 4, tr_f.iter().rposition(|s| *s == Site::TpFlashConverged) > tr_f.iter().rposition(|s| *s == Site::TpFlashExhausted), || info.clone());
                            if tr_f.contains(&Site::TpFlashInit2) {
                                m.count("flash_second_initialisation_used", 1);
                            }
                        }
                        Err(_) => m.skip("zoo", "flash failed (allowed outside the success clause)"),
                    }
                }
            }
        } else {
            m.skip("zoo", "bubble point not found (allowed)");
        }
    });
}

fn diagrams(m: &mut Monitor, cfg: &Config) {
    let pairs = hydrocarbon_pairs(1.8);
    let n = cfg.tier.pick(100, 3000);
    let idx: Vec<u64> = (0..n).collect();
    par_cases(m, &idx, |m, _, &i| {
        let mut rng = Rng::derive(cfg.seed, "c05-diag", i);
        let pr = &pairs[rng.below(pairs.len())];
        let tlow = pr.tc[0].min(pr.tc[1]);
        let t = tlow * rng.range(0.6, 0.95);
        let temp = Temperature::from_reduced(t);
        let np = 5 + rng.below(40);
        let sys = format!("{}+{}", pr.names[0], pr.names[1]);
        let info = json!({"system": sys, "T": t, "npoints": np});
        let case = 60_000_000 + i * 1000;
        if let Ok(d) = PhaseDiagram::binary_vle(&pr.eos, temp, Some(np), None, Default::default()) {
            m.case("binary_vle", hash_f64s(&sys, &[t, np as f64]), true);
            for (k, s) in d.states.iter().enumerate() {
                // end points are pure-component equilibria (one mole fraction is exactly zero)
                check_two_phase(m, "binary_vle", case + k as u64, s, TOL_FUG, &info);
                m.check_bool("diagram:temperature of every state", "binary_vle|T", case + k as u64, s.vapor().temperature.to_reduced() == t, || info.clone());
            }
        } else {
            m.skip("diagram", "binary_vle failed (allowed)");
        }
        // bubble / dew lines of a fixed composition
        let x1 = rng.range(0.1, 0.9);
        let moles = Moles::from_reduced(arr1(&[x1, 1.0 - x1]));
        let tmin = Temperature::from_reduced(tlow * rng.range(0.6, 0.8));
        for (which, line) in [
            ("bubble line", no_panic(|| PhaseDiagram::bubble_point_line(&pr.eos, &moles, tmin, np, None, Default::default()))),
            ("dew line", no_panic(|| PhaseDiagram::dew_point_line(&pr.eos, &moles, tmin, np, None, Default::default()))),
        ] {
            let line = match line {
                Ok(l) => {
                    m.check_bool("line:no panic", &format!("{which}|panic"), case + 99, true, || info.clone());
                    l
                }
                Err(msg) => {
                    m.check_bool("line:no panic", &format!("{which}|panic"), case + 99, false, || json!({"info": info, "x1": x1, "panic": msg}));
                    continue;
                }
            };
            if let Ok(d) = line {
                m.case(which, hash_f64s(&sys, &[x1, np as f64]), true);
                let nst = d.states.len();
                for (k, s) in d.states.iter().enumerate() {
                    if k + 1 == nst {
                        continue; // last state is the critical point (both phases identical)
                    }
                    check_two_phase(m, which, case + 100 + k as u64, s, TOL_FUG, &info);
                    let spec_phase = if which == "bubble line" { s.liquid() } else { s.vapor() };
                    let dx = (spec_phase.molefracs[0] - x1).abs();
                    m.check("line:specified composition kept", &format!("{which}|x"), case + 100 + k as u64, dx, 1e-12, || info.clone());
                }
            }
        }
    });
    let _ = State::<Model>::new_pure;
}
