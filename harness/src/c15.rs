//! C15 — every shipped parameter record loads and yields a physically usable model.
//!
//! Exhaustive enumeration of `parameters/{pcsaft,epcsaft,saftvrmie,saftvrqmie,ideal_gas}/*.json`.
//! File level: typed parse (the serde record definitions are the schema), round trip
//! (no field of the file is silently dropped), unique lookup identifiers, positivity,
//! referential integrity of binary / SMARTS files, group-contribution assembly.
//! Record level: every pure PC-SAFT / SAFT-VR Mie / SAFT-VRQ Mie record (and every
//! assembled gc substance) must have a critical point, a saturation curve on a fixed
//! grid of reduced temperatures and finite p, h, s, mu, c_p in both phases.
//! Only the Joback ideal-gas coefficients, the system size and one extra single-phase
//! probe state per record depend on the seed.
use crate::c01::{joback_for, Eos};
use crate::monitor::*;
use crate::prng::{hash_str, Rng};
use crate::zoo::*;
use feos::epcsaft::{
    ElectrolytePcSaftBinaryRecord, ElectrolytePcSaftParameters, ElectrolytePcSaftRecord,
};
use feos::gc_pcsaft::{GcPcSaft, GcPcSaftEosParameters, GcPcSaftOptions, GcPcSaftRecord};
use feos::ideal_gas::{Dippr, DipprRecord, Joback, JobackRecord};
use feos::pcsaft::{PcSaft, PcSaftBinaryRecord, PcSaftParameters, PcSaftRecord};
use feos::saftvrmie::SaftVRMieRecord;
use feos::saftvrqmie::{SaftVRQMieBinaryRecord, SaftVRQMieParameters, SaftVRQMieRecord};
use feos_core::parameter::{
    BinaryRecord, ChemicalRecord, Identifier, IdentifierOption, Parameter, ParameterHetero,
    PureRecord, SegmentRecord,
};
use feos_core::{
    Contributions, EquationOfState, PhaseEquilibrium, ReferenceSystem, Residual, SolverOptions,
    State,
};
use ndarray::arr1;
use quantity::*;
use serde::de::DeserializeOwned;
use serde::{Deserialize, Serialize};
use serde_json::{json, Value};
use std::collections::{BTreeMap, BTreeSet};
use std::panic::{catch_unwind, AssertUnwindSafe};
use std::path::PathBuf;
use std::sync::Arc;

const DIRS: &[&str] = &["pcsaft", "epcsaft", "saftvrmie", "saftvrqmie", "ideal_gas"];
/// emptied by the task harness; excluded by name as the property says
const EXCLUDED: &str = "pcsaft/rehner2023_binary.json";
const GC_SUBSTANCES: &str = "pcsaft/gc_substances.json";
const JOBACK: &str = "ideal_gas/joback1987.json";
/// k_B / A^3 in Pa/K: reduced pressure -> Pa
const KB_PER_A3: f64 = 1.380649e7;
const TC_RANGE: (f64, f64) = (1.0, 5000.0);
const PC_RANGE: (f64, f64) = (1e3, 1e9);

#[derive(Clone, Copy, PartialEq, Eq, Debug)]
enum Ft {
    PurePcSaft,
    PureEPcSaft,
    PureVRMie,
    PureVRQMie,
    PureDippr,
    SegPcSaft,
    SegGcPcSaft,
    SegJoback,
    Chemical,
    BinPcSaft,
    BinEPcSaft,
    BinVRQMie,
    BinSegment,
    Smarts,
}

struct FileSpec {
    path: &'static str,
    ft: Ft,
    /// binary / SMARTS files: the collections (each a union of files) this file accompanies;
    /// every identifier it mentions must exist in each of them
    collections: &'static [&'static [&'static str]],
}

const GROSS: &[&str] = &[
    "pcsaft/gross2001.json",
    "pcsaft/gross2002.json",
    "pcsaft/gross2005_fit.json",
    "pcsaft/gross2005_literature.json",
    "pcsaft/gross2006.json",
];
const HOMO_TABLES: &[(&str, Option<&str>)] = &[
    ("pcsaft/sauer2014_homo.json", None),
    ("pcsaft/loetgeringlin2015_homo.json", None),
    ("pcsaft/rehner2023_homo.json", Some("pcsaft/rehner2023_homo_binary.json")),
];
const HETERO_TABLES: &[(&str, Option<&str>)] = &[
    ("pcsaft/sauer2014_hetero.json", None),
    ("pcsaft/rehner2023_hetero.json", Some("pcsaft/rehner2023_hetero_binary.json")),
];

const fn fl(path: &'static str, ft: Ft) -> FileSpec {
    FileSpec { path, ft, collections: &[] }
}
const fn flc(path: &'static str, ft: Ft, collections: &'static [&'static [&'static str]]) -> FileSpec {
    FileSpec { path, ft, collections }
}

/// Record type of every shipped file (from parameters/*/README.md and the `Parameter`
/// implementations of the models).
const FILES: &[FileSpec] = &[
    fl("epcsaft/held2014_w_permittivity_added.json", Ft::PureEPcSaft),
    flc("epcsaft/held2014_binary.json", Ft::BinEPcSaft, &[&["epcsaft/held2014_w_permittivity_added.json"]]),
    fl("ideal_gas/joback1987.json", Ft::SegJoback),
    fl("ideal_gas/poling2000.json", Ft::PureDippr),
    fl("pcsaft/eller2022.json", Ft::PurePcSaft),
    fl("pcsaft/esper2023.json", Ft::PurePcSaft),
    fl("pcsaft/gc_substances.json", Ft::Chemical),
    fl("pcsaft/gross2001.json", Ft::PurePcSaft),
    fl("pcsaft/gross2002.json", Ft::PurePcSaft),
    flc("pcsaft/gross2002_binary.json", Ft::BinPcSaft, &[GROSS]),
    fl("pcsaft/gross2005_fit.json", Ft::PurePcSaft),
    fl("pcsaft/gross2005_literature.json", Ft::PurePcSaft),
    fl("pcsaft/gross2006.json", Ft::PurePcSaft),
    fl("pcsaft/loetgeringlin2015_homo.json", Ft::SegPcSaft),
    fl("pcsaft/loetgeringlin2018.json", Ft::PurePcSaft),
    fl("pcsaft/rehner2020.json", Ft::PurePcSaft),
    fl("pcsaft/rehner2023_hetero.json", Ft::SegGcPcSaft),
    flc("pcsaft/rehner2023_hetero_binary.json", Ft::BinSegment, &[&["pcsaft/rehner2023_hetero.json"]]),
    fl("pcsaft/rehner2023_homo.json", Ft::SegPcSaft),
    flc("pcsaft/rehner2023_homo_binary.json", Ft::BinSegment, &[&["pcsaft/rehner2023_homo.json"]]),
    fl("pcsaft/sauer2014_hetero.json", Ft::SegGcPcSaft),
    fl("pcsaft/sauer2014_homo.json", Ft::SegPcSaft),
    flc(
        "pcsaft/sauer2014_smarts.json",
        Ft::Smarts,
        &[
            &["pcsaft/sauer2014_homo.json"],
            &["pcsaft/sauer2014_hetero.json"],
            &["pcsaft/loetgeringlin2015_homo.json"],
            &["pcsaft/rehner2023_homo.json"],
            &["pcsaft/rehner2023_hetero.json"],
            &["ideal_gas/joback1987.json"],
        ],
    ),
    fl("saftvrmie/lafitte2013.json", Ft::PureVRMie),
    fl("saftvrqmie/aasen2019.json", Ft::PureVRQMie),
    fl("saftvrqmie/aasen2019_fh2.json", Ft::PureVRQMie),
    flc(
        "saftvrqmie/aasen2020_binary.json",
        Ft::BinVRQMie,
        &[&["saftvrqmie/aasen2019.json"], &["saftvrqmie/hammer2023.json"]],
    ),
    flc("saftvrqmie/aasen2020_binary_fh2.json", Ft::BinVRQMie, &[&["saftvrqmie/aasen2019_fh2.json"]]),
    fl("saftvrqmie/hammer2023.json", Ft::PureVRQMie),
];

/// Records that deliberately share a CAS number (different parametrisations / spin isomers of
/// one substance, distinguished by `name`; saftvrqmie/README.md says so explicitly, the
/// rehner2020 water models are named water_2B, water_3B, ...). (file prefix, cas)
const CAS_VARIANTS: &[(&str, &str)] = &[("pcsaft/rehner2020.json", "7732-18-5"), ("saftvrqmie/", "1333-74-0")];

/// mirror of feos-core's python-only `SmartsRecord`
#[derive(Serialize, Deserialize)]
#[serde(deny_unknown_fields)]
struct SmartsRecord {
    group: String,
    smarts: String,
    #[serde(skip_serializing_if = "Option::is_none")]
    max: Option<usize>,
}

fn pdir() -> PathBuf {
    params_dir()
}

fn id_str(idv: &Value, key: &str) -> Option<String> {
    match idv {
        Value::String(s) => (key == "name").then(|| s.clone()),
        Value::Object(o) => o.get(key).and_then(|v| v.as_str()).map(String::from),
        _ => None,
    }
}

fn rec_label(r: &Value, i: usize) -> String {
    if let Some(idv) = r.get("identifier") {
        if let Some(n) = id_str(idv, "name") {
            return n;
        }
    }
    if let Some(g) = r.get("group").and_then(|g| g.as_str()) {
        return g.to_string();
    }
    if let (Some(a), Some(b)) = (r.get("id1"), r.get("id2")) {
        if let (Some(a), Some(b)) = (id_str(a, "name"), id_str(b, "name")) {
            return pair_key(&a, &b);
        }
    }
    format!("#{i}")
}

fn pair_key(a: &str, b: &str) -> String {
    if a <= b {
        format!("{a}~{b}")
    } else {
        format!("{b}~{a}")
    }
}

fn defaultish(v: &Value) -> bool {
    match v {
        Value::Null => true,
        Value::Number(n) => n.as_f64() == Some(0.0),
        Value::Array(a) => a.is_empty(),
        Value::Object(o) => o.is_empty(),
        _ => false,
    }
}

/// Everything present in `orig` must be present and equal in `back` (= serialize(parse(orig)));
/// zero / null / empty values may be dropped (serde `skip_serializing_if`).
fn lost(orig: &Value, back: &Value, path: &str, out: &mut Vec<String>) {
    match (orig, back) {
        (Value::Object(a), Value::Object(b)) => {
            for (k, v) in a {
                let p = if path.is_empty() { k.clone() } else { format!("{path}.{k}") };
                match b.get(k) {
                    Some(w) => lost(v, w, &p, out),
                    None if defaultish(v) => {}
                    None => out.push(format!("{p}: ignored by the record type")),
                }
            }
        }
        (Value::Array(a), Value::Array(b)) => {
            if a.len() != b.len() {
                out.push(format!("{path}: length {} -> {}", a.len(), b.len()));
            } else {
                for (i, (v, w)) in a.iter().zip(b).enumerate() {
                    lost(v, w, &format!("{path}[{i}]"), out);
                }
            }
        }
        (Value::Number(a), Value::Number(b)) => {
            if a.as_f64() != b.as_f64() {
                out.push(format!("{path}: {a} -> {b}"));
            }
        }
        (a, b) => {
            if a != b {
                out.push(format!("{path}: {a} -> {b}"));
            }
        }
    }
}

/// typed parse of the whole file + round trip of every record
fn typed<T: DeserializeOwned + Serialize>(m: &mut Monitor, case: u64, path: &str, text: &str, raw: &[Value]) -> bool {
    match serde_json::from_str::<Vec<T>>(text) {
        Err(e) => {
            let bad: Vec<String> = raw
                .iter()
                .enumerate()
                .filter_map(|(i, r)| {
                    serde_json::from_value::<T>(r.clone())
                        .err()
                        .map(|e| format!("{}: {e}", rec_label(r, i)))
                })
                .take(10)
                .collect();
            m.check_bool("parse", &format!("{path}|parse"), case, false, || {
                json!({"file": path, "record_type": std::any::type_name::<T>(), "error": e.to_string(), "failing_records": bad})
            });
            false
        }
        Ok(v) => {
            m.check_bool("parse", &format!("{path}|parse"), case, true, || json!({}));
            m.count("records_parsed", v.len() as u64);
            for (i, (rec, orig)) in v.iter().zip(raw).enumerate() {
                let back = serde_json::to_value(rec).unwrap_or(Value::Null);
                let mut l = Vec::new();
                lost(orig, &back, "", &mut l);
                m.check_bool(
                    "fields: nothing in the file is ignored or altered by the record type",
                    &format!("fields|{path}|{}", rec_label(orig, i)),
                    case,
                    l.is_empty(),
                    || json!({"file": path, "record": orig, "problems": l}),
                );
            }
            true
        }
    }
}

type Bin<B> = BinaryRecord<Identifier, B>;

fn parse_file(m: &mut Monitor, case: u64, fs: &FileSpec, text: &str, raw: &[Value]) -> bool {
    let p = fs.path;
    match fs.ft {
        Ft::PurePcSaft => typed::<PureRecord<PcSaftRecord>>(m, case, p, text, raw),
        Ft::PureEPcSaft => typed::<PureRecord<ElectrolytePcSaftRecord>>(m, case, p, text, raw),
        Ft::PureVRMie => typed::<PureRecord<SaftVRMieRecord>>(m, case, p, text, raw),
        Ft::PureVRQMie => typed::<PureRecord<SaftVRQMieRecord>>(m, case, p, text, raw),
        Ft::PureDippr => typed::<PureRecord<DipprRecord>>(m, case, p, text, raw),
        Ft::SegPcSaft => typed::<SegmentRecord<PcSaftRecord>>(m, case, p, text, raw),
        Ft::SegGcPcSaft => typed::<SegmentRecord<GcPcSaftRecord>>(m, case, p, text, raw),
        Ft::SegJoback => typed::<SegmentRecord<JobackRecord>>(m, case, p, text, raw),
        Ft::Chemical => typed::<ChemicalRecord>(m, case, p, text, raw),
        Ft::BinPcSaft => typed::<Bin<PcSaftBinaryRecord>>(m, case, p, text, raw),
        Ft::BinEPcSaft => typed::<Bin<ElectrolytePcSaftBinaryRecord>>(m, case, p, text, raw),
        Ft::BinVRQMie => typed::<Bin<SaftVRQMieBinaryRecord>>(m, case, p, text, raw),
        Ft::BinSegment => typed::<BinaryRecord<String, f64>>(m, case, p, text, raw),
        Ft::Smarts => typed::<SmartsRecord>(m, case, p, text, raw),
    }
}

fn is_binary(ft: Ft) -> bool {
    matches!(ft, Ft::BinPcSaft | Ft::BinEPcSaft | Ft::BinVRQMie | Ft::BinSegment)
}
fn is_pure_saft(ft: Ft) -> bool {
    matches!(ft, Ft::PurePcSaft | Ft::PureEPcSaft | Ft::PureVRMie | Ft::PureVRQMie)
}

/// clause: no duplicate lookup identifiers within a file
fn uniqueness(m: &mut Monitor, case: u64, fs: &FileSpec, raw: &[Value]) {
    let p = fs.path;
    if is_binary(fs.ft) {
        for key in ["name", "cas"] {
            let mut seen: BTreeMap<String, usize> = BTreeMap::new();
            for r in raw {
                if let (Some(a), Some(b)) = (id_str(&r["id1"], key), id_str(&r["id2"], key)) {
                    *seen.entry(pair_key(&a, &b)).or_default() += 1;
                }
            }
            for (k, n) in &seen {
                if key == "cas" && *n > 1 && CAS_VARIANTS.iter().any(|(fp, c)| p.starts_with(fp) && k.split('~').any(|x| x == *c)) {
                    m.skip("unique: no pair appears twice in a binary file", "cas pair involves documented variants sharing a CAS; the name pair is checked");
                    continue;
                }
                m.check_bool(
                    "unique: no pair appears twice in a binary file",
                    &format!("dup-pair|{p}|{key}|{k}"),
                    case,
                    *n == 1,
                    || {
                        let recs: Vec<&Value> = raw
                            .iter()
                            .filter(|r| {
                                id_str(&r["id1"], key).zip(id_str(&r["id2"], key)).map(|(a, b)| pair_key(&a, &b)).as_deref() == Some(k.as_str())
                            })
                            .collect();
                        json!({"file": p, "identifier": key, "pair": k, "occurrences": n, "records": recs})
                    },
                );
            }
        }
        return;
    }
    let idv = |r: &Value, key: &str| -> Option<String> {
        if fs.ft == Ft::Smarts {
            (key == "name").then(|| r["group"].as_str().map(String::from)).flatten()
        } else {
            id_str(&r["identifier"], key)
        }
    };
    for key in ["name", "cas"] {
        let mut seen: BTreeMap<String, usize> = BTreeMap::new();
        let mut missing = 0usize;
        for r in raw {
            match idv(r, key) {
                Some(v) => *seen.entry(v).or_default() += 1,
                None => missing += 1,
            }
        }
        if key == "name" {
            // the default lookup key: every record needs one
            m.check_bool("unique: every record has a name", &format!("no-name|{p}"), case, missing == 0, || {
                json!({"file": p, "records_without_name": missing})
            });
        }
        for (k, n) in &seen {
            let variant = key == "cas" && CAS_VARIANTS.iter().any(|(fp, c)| p.starts_with(fp) && c == k);
            if variant && *n > 1 {
                m.skip(
                    "unique: no identifier (name, cas) appears twice in a file",
                    "documented variants of one substance sharing a CAS (water_* models, hydrogen spin isomers), distinguished by name",
                );
                m.count("cas_shared_by_documented_variants", *n as u64);
                continue;
            }
            m.check_bool(
                "unique: no identifier (name, cas) appears twice in a file",
                &format!("dup-{key}|{p}|{k}"),
                case,
                *n == 1,
                || {
                    let names: Vec<String> = raw.iter().enumerate().filter(|(_, r)| idv(r, key).as_deref() == Some(k.as_str())).map(|(i, r)| rec_label(r, i)).collect();
                    json!({"file": p, "identifier": key, "value": k, "occurrences": n, "records": names})
                },
            );
        }
    }
}

/// clause: m, sigma, epsilon_k, molarweight > 0 for pure records (Mie: lr > la > 0 as well)
fn positivity(m: &mut Monitor, case: u64, fs: &FileSpec, raw: &[Value]) {
    if !is_pure_saft(fs.ft) {
        return;
    }
    for (i, r) in raw.iter().enumerate() {
        let mr = &r["model_record"];
        let name = rec_label(r, i);
        let mut vals: Vec<(&str, f64)> = vec![
            ("m", mr["m"].as_f64().unwrap_or(f64::NAN)),
            ("sigma", mr["sigma"].as_f64().unwrap_or(f64::NAN)),
            ("epsilon_k", mr["epsilon_k"].as_f64().unwrap_or(f64::NAN)),
            ("molarweight", r["molarweight"].as_f64().unwrap_or(f64::NAN)),
        ];
        if matches!(fs.ft, Ft::PureVRMie | Ft::PureVRQMie) {
            let (lr, la) = (mr["lr"].as_f64().unwrap_or(f64::NAN), mr["la"].as_f64().unwrap_or(f64::NAN));
            vals.push(("la", la));
            vals.push(("lr-la", lr - la));
        }
        for (k, v) in vals {
            m.check_bool(
                "positive: m, sigma, epsilon_k, molarweight of pure records",
                &format!("positive|{}|{name}|{k}", fs.path),
                case,
                v.is_finite() && v > 0.0,
                || json!({"file": fs.path, "record": name, "parameter": k, "value": fnum(v)}),
            );
        }
    }
}

struct Loaded {
    raw: Vec<Value>,
    ok: bool,
}

fn ids_of(files: &[&str], loaded: &BTreeMap<&'static str, Loaded>, key: &str) -> Option<BTreeSet<String>> {
    let mut s = BTreeSet::new();
    for f in files {
        let l = loaded.get(*f)?;
        if !l.ok {
            return None;
        }
        for r in &l.raw {
            if let Some(v) = id_str(&r["identifier"], key) {
                s.insert(v);
            }
        }
    }
    Some(s)
}

/// clause: binary / SMARTS files mention only identifiers of the collections they accompany
fn references(m: &mut Monitor, case: u64, fs: &FileSpec, raw: &[Value], loaded: &BTreeMap<&'static str, Loaded>) {
    const CL: &str = "refs: binary and SMARTS files mention only identifiers present in the collection they accompany";
    for col in fs.collections {
        for key in ["name", "cas"] {
            let Some(have) = ids_of(col, loaded, key) else {
                m.skip(CL, "collection file missing or unparsable");
                continue;
            };
            if have.is_empty() {
                continue; // segment tables have no cas
            }
            let mut mentioned: BTreeSet<String> = BTreeSet::new();
            for r in raw {
                if fs.ft == Ft::Smarts {
                    if key == "name" {
                        if let Some(g) = r["group"].as_str() {
                            mentioned.insert(g.to_string());
                        }
                    }
                } else {
                    for side in ["id1", "id2"] {
                        if let Some(v) = id_str(&r[side], key) {
                            mentioned.insert(v);
                        }
                    }
                }
            }
            for v in mentioned {
                m.check_bool(CL, &format!("ref|{}|{}|{key}|{v}", fs.path, col[0]), case, have.contains(&v), || {
                    json!({"file": fs.path, "collection": col, "identifier": key, "value": v, "problem": "not present in the collection"})
                });
            }
        }
    }
}

/// which file of a collection has a record of this name
fn file_with(col: &[&'static str], loaded: &BTreeMap<&'static str, Loaded>, name: &str) -> Option<&'static str> {
    col.iter().copied().find(|f| {
        loaded.get(*f).map_or(false, |l| l.raw.iter().any(|r| id_str(&r["identifier"], "name").as_deref() == Some(name)))
    })
}

/// clause: building a binary mixture through the library's own JSON lookup finds the record
fn binary_lookup(m: &mut Monitor, case: u64, fs: &FileSpec, raw: &[Value], loaded: &BTreeMap<&'static str, Loaded>) {
    const CL: &str = "lookup: a binary mixture built with from_(multiple_)json gets the binary record of the file";
    if !matches!(fs.ft, Ft::BinPcSaft | Ft::BinEPcSaft | Ft::BinVRQMie) {
        return;
    }
    let binpath = pdir().join(fs.path);
    for col in fs.collections {
        for (i, r) in raw.iter().enumerate() {
            let (Some(a), Some(b)) = (id_str(&r["id1"], "name"), id_str(&r["id2"], "name")) else {
                continue;
            };
            let (Some(fa), Some(fb_)) = (file_with(col, loaded, &a), file_with(col, loaded, &b)) else {
                continue; // reported by `references`
            };
            let input: Vec<(Vec<&str>, PathBuf)> = if fa == fb_ {
                vec![(vec![a.as_str(), b.as_str()], pdir().join(fa))]
            } else {
                vec![(vec![a.as_str()], pdir().join(fa)), (vec![b.as_str()], pdir().join(fb_))]
            };
            let want = &r["model_record"];
            let sig = format!("lookup|{}|{}|{}", fs.path, col[0], rec_label(r, i));
            let opt = IdentifierOption::Name;
            // Ok(Some(json of what the parameter set holds)), Ok(None) = constructor refused
            let got: Result<Result<Value, String>, _> = catch_unwind(AssertUnwindSafe(|| match fs.ft {
                Ft::BinPcSaft => PcSaftParameters::from_multiple_json(&input, Some(binpath.clone()), opt)
                    .map(|p| p.binary_records.as_ref().map_or(Value::Null, |b| json!({"k_ij": b[(0, 1)].k_ij})))
                    .map_err(|e| e.to_string()),
                Ft::BinEPcSaft => ElectrolytePcSaftParameters::from_multiple_json(&input, Some(binpath.clone()), opt)
                    .map(|p| json!({"k_ij": p.k_ij[(0, 1)]}))
                    .map_err(|e| e.to_string()),
                _ => SaftVRQMieParameters::from_multiple_json(&input, Some(binpath.clone()), opt)
                    .map(|p| json!({"k_ij": p.k_ij[(0, 1)], "l_ij": p.l_ij[(0, 1)]}))
                    .map_err(|e| e.to_string()),
            }));
            match got {
                Err(_) => {
                    m.check_bool(CL, &format!("{sig}|panic"), case, false, || json!({"file": fs.path, "pair": [a, b], "problem": "panic in from_multiple_json"}));
                }
                Ok(Err(e)) => {
                    m.check_bool(CL, &format!("{sig}|error"), case, false, || json!({"file": fs.path, "pair": [a, b], "error": e}));
                }
                Ok(Ok(got)) => {
                    let mut l = Vec::new();
                    lost(want, &got, "", &mut l);
                    m.check_bool(CL, &sig, case, l.is_empty(), || json!({"file": fs.path, "pair": [a, b], "in_file": want, "in_parameters": got, "problems": l}));
                }
            }
        }
    }
}

/// clause: ideal-gas heat capacity of every DIPPR record is finite and >= 5/2 R
fn dippr_cp(m: &mut Monitor, case: u64, fs: &FileSpec, text: &str) {
    const CL: &str = "ideal gas: c_p of every record finite and >= 2.5 R at 200, 298.15, 500, 1000 K";
    let Ok(recs) = serde_json::from_str::<Vec<PureRecord<DipprRecord>>>(text) else {
        return;
    };
    for r in recs {
        let name = r.identifier.name.clone().unwrap_or_default();
        let Ok(d) = Dippr::from_records(vec![r], None) else {
            m.check_bool(CL, &format!("ideal-gas-cp|{}|{name}|build", fs.path), case, false, || json!({"record": name}));
            continue;
        };
        let mut worst = f64::INFINITY;
        for t in [200.0, 298.15, 500.0, 1000.0] {
            let cp = catch_unwind(AssertUnwindSafe(|| {
                d.molar_isobaric_heat_capacity(Temperature::from_reduced(t), &arr1(&[1.0])).map(|c| c.to_reduced()).unwrap_or(f64::NAN)
            }))
            .unwrap_or(f64::NAN);
            worst = if cp.is_finite() { worst.min(cp) } else { f64::NAN };
        }
        // deviation: shortfall below 2.5 (NaN = violated)
        m.check(CL, &format!("ideal-gas-cp|{}|{name}", fs.path), case, if worst.is_finite() { (2.5 - worst).max(0.0) } else { f64::NAN }, 1e-6, || {
            json!({"file": fs.path, "record": name, "min_cp_over_R": fnum(worst)})
        });
    }
}

// ---------------------------------------------------------------------------------------
// group contribution
// ---------------------------------------------------------------------------------------

fn group_valence(g: &str) -> Option<usize> {
    Some(match g {
        "CH3" | "=CH2" | "C≡CH" | "CH=O" | "OCH3" | "HCOO" | "OH" | "NH2" => 1,
        "CH2" | "=CH" | "CH2_hex" | "CH2_pent" | "CH_arom" | ">C=O" | "OCH2" | "COO" => 2,
        ">CH" | "=C<" | "CH_hex" | "CH_pent" | "C_arom" => 3,
        ">C<" => 4,
        _ => return None,
    })
}

/// molar mass of a Hill formula made of C, H, N, O (None otherwise)
fn formula_mass(fm: &str) -> Option<f64> {
    let b = fm.as_bytes();
    let mut i = 0;
    let mut tot = 0.0;
    while i < b.len() {
        if !b[i].is_ascii_uppercase() {
            return None;
        }
        let mut j = i + 1;
        while j < b.len() && b[j].is_ascii_lowercase() {
            j += 1;
        }
        let el = &fm[i..j];
        let mut k = j;
        while k < b.len() && b[k].is_ascii_digit() {
            k += 1;
        }
        let n: f64 = if k > j { fm[j..k].parse().ok()? } else { 1.0 };
        let w = match el {
            "C" => 12.0107,
            "H" => 1.00794,
            "N" => 14.0067,
            "O" => 15.9994,
            _ => return None,
        };
        tot += w * n;
        i = k;
    }
    (tot > 0.0).then_some(tot)
}

fn gc_checks(m: &mut Monitor, case: u64, loaded: &BTreeMap<&'static str, Loaded>) {
    let Some(gc) = loaded.get(GC_SUBSTANCES).filter(|l| l.ok) else {
        m.skip("gc", "gc_substances.json missing or unparsable");
        return;
    };
    let gcp = pdir().join(GC_SUBSTANCES);
    let opt = IdentifierOption::Name;
    let seg_ids = |f: &str| -> Option<BTreeSet<String>> { ids_of(&[f], loaded, "name") };
    let mw_table: Option<BTreeMap<String, f64>> = loaded.get(HOMO_TABLES[0].0).filter(|l| l.ok).map(|l| {
        l.raw.iter().filter_map(|r| Some((r["identifier"].as_str()?.to_string(), r["molarweight"].as_f64()?))).collect()
    });
    let all_names: Vec<String> = gc.raw.iter().filter_map(|r| id_str(&r["identifier"], "name")).collect();

    for (i, r) in gc.raw.iter().enumerate() {
        let name = rec_label(r, i);
        let segs: Vec<String> = r["segments"].as_array().map_or(vec![], |a| a.iter().filter_map(|s| s.as_str().map(String::from)).collect());
        // bond graph: no group has more neighbours than its valence (a double bond or a ring
        // closure can only lower the number of neighbours)
        let bonds: Vec<[usize; 2]> = match r.get("bonds").and_then(|b| b.as_array()) {
            Some(b) => b.iter().filter_map(|p| Some([p[0].as_u64()? as usize, p[1].as_u64()? as usize])).collect(),
            None => (1..segs.len()).map(|k| [k - 1, k]).collect(),
        };
        let mut deg = vec![0usize; segs.len()];
        let mut in_range = true;
        for b in &bonds {
            for &k in b {
                if k < segs.len() {
                    deg[k] += 1;
                } else {
                    in_range = false;
                }
            }
        }
        let over: Vec<String> = segs
            .iter()
            .zip(&deg)
            .enumerate()
            .filter(|(_, (s, d))| group_valence(s).map_or(false, |v| **d > v))
            .map(|(k, (s, d))| format!("segment {k} '{s}' has {d} bonds, valence {}", group_valence(s).unwrap()))
            .collect();
        m.check_bool(
            "gc: bond graph consistent with the groups (indices in range, degree <= valence, connected)",
            &format!("gc-valence|{name}"),
            case,
            in_range && over.is_empty() && connected(segs.len(), &bonds),
            || json!({"substance": name, "segments": segs, "bonds": bonds, "problems": over, "bond_indices_in_range": in_range}),
        );
        // molar weight of the assembled substance = molar weight of its formula
        if let (Some(tab), Some(fm)) = (&mw_table, id_str(&r["identifier"], "formula")) {
            let mw: Option<f64> = segs.iter().map(|s| tab.get(s).copied()).sum();
            match (mw, formula_mass(&fm)) {
                (Some(mw), Some(want)) => {
                    m.check(
                        "gc: molar weight of the assembled groups equals that of the substance's formula",
                        &format!("gc-molarweight|{name}"),
                        case,
                        (mw - want).abs() / want,
                        1e-3,
                        || json!({"substance": name, "segments": segs, "formula": fm, "molarweight_from_groups": mw, "molarweight_from_formula": want}),
                    );
                }
                _ => m.skip("gc: molar weight of the assembled groups equals that of the substance's formula", "formula with other elements / unknown group"),
            }
        }

        // homosegmented tables
        for (tab, bin) in HOMO_TABLES {
            let cl = "gc: substance assembles from every segment table that has its groups";
            let Some(have) = seg_ids(tab) else {
                m.skip(cl, "segment table missing or unparsable");
                continue;
            };
            if !segs.iter().all(|s| have.contains(s)) {
                m.skip(cl, "table lacks a group of this substance");
                continue;
            }
            let res = catch_unwind(AssertUnwindSafe(|| {
                PcSaftParameters::from_json_segments(&[name.as_str()], gcp.clone(), pdir().join(tab), bin.map(|b| pdir().join(b)), opt).map_err(|e| e.to_string())
            }));
            let sig = format!("gc-assemble|{tab}|{name}");
            match res {
                Ok(Ok(p)) => {
                    m.check_bool(cl, &sig, case, true, || json!({}));
                    for (k, v) in [("m", p.m[0]), ("sigma", p.sigma[0]), ("epsilon_k", p.epsilon_k[0]), ("molarweight", p.molarweight[0])] {
                        m.check_bool(
                            "gc positive: m, sigma, epsilon_k, molarweight of the assembled substance",
                            &format!("gc-positive|{tab}|{name}|{k}"),
                            case,
                            v.is_finite() && v > 0.0,
                            || json!({"table": tab, "substance": name, "parameter": k, "value": fnum(v)}),
                        );
                    }
                }
                Ok(Err(e)) => {
                    m.check_bool(cl, &sig, case, false, || json!({"table": tab, "substance": name, "error": e}));
                }
                Err(_) => {
                    m.check_bool(cl, &format!("{sig}|panic"), case, false, || json!({"table": tab, "substance": name, "problem": "panic"}));
                }
            }
        }
        // heterosegmented tables
        for (tab, bin) in HETERO_TABLES {
            let cl = "gc: substance assembles from every segment table that has its groups";
            let Some(have) = seg_ids(tab) else {
                m.skip(cl, "segment table missing or unparsable");
                continue;
            };
            if !segs.iter().all(|s| have.contains(s)) {
                m.skip(cl, "table lacks a group of this substance");
                continue;
            }
            let res = catch_unwind(AssertUnwindSafe(|| {
                GcPcSaftEosParameters::from_json_segments(&[name.as_str()], gcp.clone(), pdir().join(tab), bin.map(|b| pdir().join(b)), opt).map_err(|e| e.to_string())
            }));
            let sig = format!("gc-assemble|{tab}|{name}");
            match res {
                Ok(Ok(p)) => {
                    m.check_bool(cl, &sig, case, true, || json!({}));
                    let msum: f64 = p.m.sum();
                    let smin = p.sigma.iter().cloned().fold(f64::INFINITY, f64::min);
                    let emin = p.epsilon_k.iter().cloned().fold(f64::INFINITY, f64::min);
                    // heterosegmented: chain length of the molecule > 0, every segment diameter > 0,
                    // segment energies >= 0 (the published >C< group has epsilon_k = 0)
                    for (k, v, strict) in [("sum m", msum, true), ("min sigma", smin, true), ("min epsilon_k", emin, false), ("molarweight", p.molarweight[0], true)] {
                        m.check_bool(
                            "gc positive: m, sigma, epsilon_k, molarweight of the assembled substance",
                            &format!("gc-positive|{tab}|{name}|{k}"),
                            case,
                            v.is_finite() && (v > 0.0 || (!strict && v == 0.0)),
                            || json!({"table": tab, "substance": name, "parameter": k, "value": fnum(v)}),
                        );
                    }
                }
                Ok(Err(e)) => {
                    m.check_bool(cl, &sig, case, false, || json!({"table": tab, "substance": name, "error": e}));
                }
                Err(_) => {
                    m.check_bool(cl, &format!("{sig}|panic"), case, false, || json!({"table": tab, "substance": name, "problem": "panic"}));
                }
            }
        }
        // Joback ideal gas
        {
            let cl = "gc: ideal-gas model assembles from joback1987 groups, c_p finite and >= 2.5 R at 298.15 and 500 K";
            match seg_ids(JOBACK) {
                Some(have) if segs.iter().all(|s| have.contains(s)) => {
                    let res = catch_unwind(AssertUnwindSafe(|| {
                        Joback::from_json_segments(&[name.as_str()], gcp.clone(), pdir().join(JOBACK), None, opt)
                            .map_err(|e| e.to_string())
                            .map(|j| {
                                [298.15, 500.0]
                                    .iter()
                                    .map(|&t| j.molar_isobaric_heat_capacity(Temperature::from_reduced(t), &arr1(&[1.0])).map(|c| c.to_reduced()).unwrap_or(f64::NAN))
                                    .fold(f64::INFINITY, |a, c| if c.is_finite() { a.min(c) } else { f64::NAN })
                            })
                    }));
                    let sig = format!("gc-assemble|{JOBACK}|{name}");
                    match res {
                        Ok(Ok(cp)) => {
                            m.check(cl, &sig, case, if cp.is_finite() { (2.5 - cp).max(0.0) } else { f64::NAN }, 1e-6, || json!({"substance": name, "min_cp_over_R": fnum(cp)}));
                        }
                        Ok(Err(e)) => {
                            m.check_bool(cl, &sig, case, false, || json!({"substance": name, "error": e}));
                        }
                        Err(_) => {
                            m.check_bool(cl, &format!("{sig}|panic"), case, false, || json!({"substance": name, "problem": "panic"}));
                        }
                    }
                }
                Some(_) => m.skip(cl, "table lacks a group of this substance"),
                None => m.skip(cl, "segment table missing or unparsable"),
            }
        }
    }

    // all substances at once, with the binary segment files (exercises the k_ij assembly)
    let names: Vec<&str> = all_names.iter().map(|s| s.as_str()).collect();
    let cl = "gc: all substances assemble as one mixture with the binary segment file, k_ij finite and not all zero";
    for (tab, bin) in HOMO_TABLES.iter().filter(|t| t.1.is_some()) {
        let res = catch_unwind(AssertUnwindSafe(|| {
            PcSaftParameters::from_json_segments(&names, gcp.clone(), pdir().join(tab), bin.map(|b| pdir().join(b)), opt).map_err(|e| e.to_string())
        }));
        let (ok, info) = match res {
            Ok(Ok(p)) => match &p.binary_records {
                Some(b) => {
                    let fin = b.iter().all(|r| r.k_ij.is_finite());
                    let nz = b.iter().filter(|r| r.k_ij != 0.0).count();
                    (fin && nz > 0, json!({"pairs_with_nonzero_k_ij": nz / 2, "components": names.len()}))
                }
                None => (false, json!("no binary records")),
            },
            Ok(Err(e)) => (false, json!(e)),
            Err(_) => (false, json!("panic")),
        };
        m.note(&format!("gc_mixture_{tab}"), info.clone());
        m.check_bool(cl, &format!("gc-mixture|{tab}"), case, ok, || json!({"table": tab, "result": info}));
    }
    for (tab, bin) in HETERO_TABLES.iter().filter(|t| t.1.is_some()) {
        let res = catch_unwind(AssertUnwindSafe(|| {
            GcPcSaftEosParameters::from_json_segments(&names, gcp.clone(), pdir().join(tab), bin.map(|b| pdir().join(b)), opt).map_err(|e| e.to_string())
        }));
        let (ok, info) = match res {
            Ok(Ok(p)) => {
                let fin = p.k_ij.iter().all(|k| k.is_finite());
                let nz = p.k_ij.iter().filter(|k| **k != 0.0).count();
                (fin && nz > 0, json!({"segment_pairs_with_nonzero_k_ij": nz / 2, "segments": p.m.len()}))
            }
            Ok(Err(e)) => (false, json!(e)),
            Err(_) => (false, json!("panic")),
        };
        m.note(&format!("gc_mixture_{tab}"), info.clone());
        m.check_bool(cl, &format!("gc-mixture|{tab}"), case, ok, || json!({"table": tab, "result": info}));
    }
}

fn connected(n: usize, bonds: &[[usize; 2]]) -> bool {
    if n == 0 {
        return false;
    }
    let mut comp: Vec<usize> = (0..n).collect();
    fn find(c: &mut Vec<usize>, i: usize) -> usize {
        let mut r = i;
        while c[r] != r {
            r = c[r];
        }
        c[i] = r;
        r
    }
    for b in bonds {
        if b[0] >= n || b[1] >= n {
            return false;
        }
        let (x, y) = (find(&mut comp, b[0]), find(&mut comp, b[1]));
        comp[x] = y;
    }
    let r0 = find(&mut comp, 0);
    (0..n).all(|i| find(&mut comp, i) == r0)
}

// ---------------------------------------------------------------------------------------
// usability of every pure model
// ---------------------------------------------------------------------------------------

enum Build {
    Pure(Kind, Value),
    GcHomo(&'static str, Option<&'static str>),
    GcHetero(&'static str, Option<&'static str>),
}

struct Job {
    family: &'static str,
    /// file tag used in signatures
    file: String,
    name: String,
    build: Build,
    /// lower end of the reduced-temperature range (C04)
    lo: f64,
    /// C04's stated exception: no success claim for the saturation curve
    excepted: bool,
}

fn grid(tier: Tier, lo: f64) -> Vec<f64> {
    let vrq = lo > 0.5;
    match (tier, vrq) {
        (Tier::Quick, false) => vec![0.45, 0.53, 0.61, 0.69, 0.77, 0.85, 0.93, 0.99],
        (Tier::Quick, true) => vec![0.60, 0.65, 0.71, 0.77, 0.83, 0.89, 0.95, 0.99],
        (Tier::Thorough, false) => (0..28).map(|k| (45 + 2 * k) as f64 / 100.0).collect(),
        (Tier::Thorough, true) => std::iter::once(0.60).chain((0..20).map(|k| (61 + 2 * k) as f64 / 100.0)).collect(),
    }
}

fn build_model(j: &Job) -> Result<Arc<Model>, String> {
    let opt = IdentifierOption::Name;
    let gcp = pdir().join(GC_SUBSTANCES);
    match &j.build {
        Build::Pure(kind, rec) => Spec::new(*kind, vec![rec.clone()]).build().map_err(|e| e.0),
        Build::GcHomo(tab, bin) => PcSaftParameters::from_json_segments(&[j.name.as_str()], gcp, pdir().join(tab), bin.map(|b| pdir().join(b)), opt)
            .map(|p| Arc::new(Model::PcSaft(PcSaft::new(Arc::new(p)))))
            .map_err(|e| e.to_string()),
        Build::GcHetero(tab, bin) => GcPcSaftEosParameters::from_json_segments(&[j.name.as_str()], gcp, pdir().join(tab), bin.map(|b| pdir().join(b)), opt)
            .map(|p| Arc::new(Model::GcPcSaft(GcPcSaft::with_options(Arc::new(p), GcPcSaftOptions::default()))))
            .map_err(|e| e.to_string()),
    }
}

/// critical point: the library's default start ladder, then explicit initial temperatures.
/// A solution of the criticality conditions at non-positive pressure (SAFT equations have
/// such stationary points in the metastable liquid) is not the vapour-liquid critical point;
/// the next start is tried. Returns the state, the start that gave it and whether the
/// default start returned such an unphysical point.
fn critical(eos: &Arc<Eos>) -> (Option<(State<Eos>, &'static str)>, bool) {
    let ok = |s: &State<Eos>| {
        let t = s.temperature.to_reduced();
        let p = s.pressure(Contributions::Total).to_reduced();
        t.is_finite() && t > 0.0 && p.is_finite() && p > 0.0
    };
    let mut default_unphysical = false;
    match State::critical_point(eos, None, None, SolverOptions::default()) {
        Ok(s) if ok(&s) => return (Some((s, "default")), false),
        Ok(_) => default_unphysical = true,
        Err(_) => {}
    }
    for (t0, tag) in [
        (700.0, "T0=700K"),
        (500.0, "T0=500K"),
        (1000.0, "T0=1000K"),
        (200.0, "T0=200K"),
        (100.0, "T0=100K"),
        (50.0, "T0=50K"),
        (20.0, "T0=20K"),
        (10.0, "T0=10K"),
        (5.0, "T0=5K"),
    ] {
        if let Ok(s) = State::critical_point(eos, None, Some(Temperature::from_reduced(t0)), SolverOptions::default()) {
            if ok(&s) {
                return (Some((s, tag)), default_unphysical);
            }
        }
    }
    (None, default_unphysical)
}

fn props(s: &State<Eos>) -> Vec<(&'static str, f64)> {
    let c = Contributions::Total;
    let mu = s.chemical_potential(c).to_reduced();
    let mu = if mu.iter().all(|x| x.is_finite()) { mu[0] } else { f64::NAN };
    vec![
        ("p", s.pressure(c).to_reduced()),
        ("h", s.molar_enthalpy(c).to_reduced()),
        ("s", s.molar_entropy(c).to_reduced()),
        ("mu", mu),
        ("c_p", s.molar_isobaric_heat_capacity(c).to_reduced()),
    ]
}

fn usable(m: &mut Monitor, case: u64, j: &Job, cfg: &Config) {
    let tag = format!("{}|{}", j.file, j.name);
    m.case(j.family, hash_str(&tag), true);
    let what = || json!({"file": j.file, "record": j.name});
    let model = match catch_unwind(AssertUnwindSafe(|| build_model(j))) {
        Ok(Ok(mo)) => {
            m.check_bool("build: record yields a model", &format!("build|{tag}"), case, true, || json!({}));
            mo
        }
        Ok(Err(e)) => {
            m.check_bool("build: record yields a model", &format!("build|{tag}"), case, false, || json!({"case": what(), "error": e}));
            return;
        }
        Err(_) => {
            m.check_bool("build: record yields a model", &format!("build|{tag}|panic"), case, false, || json!({"case": what(), "problem": "panic"}));
            return;
        }
    };
    // the only seed-dependent inputs: ideal-gas coefficients, system size, one probe state
    let mut rng = Rng::derive(cfg.seed, "c15", hash_str(&tag));
    let ig = joback_for(1, &mut rng);
    let ntot = rng.log_range(1e-2, 1e2);
    let t_probe = rng.range(j.lo.max(0.5), 2.0);
    let frac_probe = rng.log_range(1e-5, 0.8);
    let rho_max = model.compute_max_density(&arr1(&[1.0]));
    let eos: Arc<Eos> = Arc::new(EquationOfState::new(ig, model));

    // critical point
    let cp = catch_unwind(AssertUnwindSafe(|| critical(&eos)));
    let Ok(cp) = cp else {
        m.check_bool("critical point exists", &format!("critical-point|{tag}|panic"), case, false, || json!({"case": what(), "problem": "panic"}));
        return;
    };
    let (cp, default_unphysical) = cp;
    if default_unphysical {
        // not a C15 violation (other starts are tried) but worth knowing
        m.count("critical_point_default_start_returns_p<=0", 1);
        m.count(&format!("critical_point_default_start_returns_p<=0: {tag}"), 1);
    }
    let Some((cps, how)) = cp else {
        m.check_bool("critical point exists", &format!("critical-point|{tag}"), case, false, || {
            json!({"case": what(), "problem": "State::critical_point failed (or returned p <= 0) with the default start and with T0 = 700, 500, 1000, 200, 100, 50, 20, 10, 5 K"})
        });
        return;
    };
    m.count(&format!("critical_point_found_with_{how}"), 1);
    let tc = cps.temperature.to_reduced();
    let pc = cps.pressure(Contributions::Total).to_reduced();
    let rhoc = cps.density.to_reduced();
    m.check_bool(
        "critical point exists",
        &format!("critical-point|{tag}"),
        case,
        tc.is_finite() && tc > 0.0 && pc.is_finite() && pc > 0.0 && rhoc.is_finite() && rhoc > 0.0 && rhoc < rho_max,
        || json!({"case": what(), "T_c": fnum(tc), "p_c": fnum(pc), "rho_c": fnum(rhoc), "rho_max": rho_max}),
    );
    // order-of-magnitude plausibility (shipped records span 5 K .. ~1300 K and 0.1 .. 25 MPa)
    let pc_pa = pc * KB_PER_A3;
    let dev = (TC_RANGE.0 / tc).max(tc / TC_RANGE.1).max(PC_RANGE.0 / pc_pa).max(pc_pa / PC_RANGE.1);
    m.check(
        "critical point plausible: 1 K < T_c < 5000 K, 1e3 Pa < p_c < 1e9 Pa",
        &format!("critical-range|{tag}"),
        case,
        dev,
        1.0,
        || json!({"case": what(), "T_c_K": fnum(tc), "p_c_Pa": fnum(pc_pa)}),
    );
    if m.samples.len() < 5 {
        m.sample(json!({"file": j.file, "record": j.name, "family": j.family, "T_c_K": tc, "p_c_Pa": pc_pa, "critical_point_start": how}));
    }
    if !(tc.is_finite() && tc > 0.0) {
        return;
    }

    // saturation curve on the fixed grid
    if j.excepted {
        m.skip("saturation curve: PhaseEquilibrium::pure succeeds at every grid temperature", "C04 exception (helium with FH2 correction)");
    } else {
        let mut last_p = 0.0;
        for tr in grid(cfg.tier, j.lo) {
            let t = tr * tc;
            let trs = format!("{tr:.2}");
            let r = catch_unwind(AssertUnwindSafe(|| {
                PhaseEquilibrium::pure(&eos, Temperature::from_reduced(t), None, SolverOptions::default()).map_err(|e| e.to_string())
            }));
            let vle = match r {
                Ok(Ok(v)) => {
                    m.check_bool("saturation curve: PhaseEquilibrium::pure succeeds at every grid temperature", &format!("vle|{tag}|T/Tc={trs}"), case, true, || json!({}));
                    v
                }
                Ok(Err(e)) => {
                    m.check_bool("saturation curve: PhaseEquilibrium::pure succeeds at every grid temperature", &format!("vle|{tag}|T/Tc={trs}"), case, false, || {
                        json!({"case": what(), "T_over_Tc": tr, "T_K": t, "T_c_K": tc, "error": e})
                    });
                    continue;
                }
                Err(_) => {
                    m.check_bool("saturation curve: PhaseEquilibrium::pure succeeds at every grid temperature", &format!("vle|{tag}|T/Tc={trs}|panic"), case, false, || {
                        json!({"case": what(), "T_over_Tc": tr, "T_K": t, "problem": "panic"})
                    });
                    continue;
                }
            };
            let (rv, rl) = (vle.vapor().density.to_reduced(), vle.liquid().density.to_reduced());
            let p = vle.vapor().pressure(Contributions::Total).to_reduced();
            // below the critical point: two distinct phases, 0 < p_sat < p_c, rising with T
            let ordered = rv > 0.0 && rv < rhoc && rhoc < rl && p > 0.0 && p < pc && p > last_p;
            m.check_bool("saturation curve lies below the critical point (rho_v < rho_c < rho_l, 0 < p_sat < p_c, p_sat rising)", &format!("vle-order|{tag}"), case, ordered, || {
                json!({"case": what(), "T_over_Tc": tr, "rho_v": fnum(rv), "rho_l": fnum(rl), "p_sat": fnum(p), "p_sat_previous_grid_point": last_p, "p_c": pc, "rho_c": rhoc})
            });
            if p.is_finite() {
                last_p = p;
            }
            for (ph, st) in [("vapor", vle.vapor()), ("liquid", vle.liquid())] {
                // same state with the seed-dependent system size
                let vals = catch_unwind(AssertUnwindSafe(|| {
                    let s2 = State::new_nvt(&eos, st.temperature, Volume::from_reduced(ntot / st.density.to_reduced()), &Moles::from_reduced(arr1(&[ntot])));
                    s2.map(|s| props(&s)).unwrap_or_else(|_| props(st))
                }));
                match vals {
                    Ok(vals) => {
                        for (k, v) in vals {
                            m.check_bool(&format!("finite along the saturation curve: {k}"), &format!("finite|{tag}|{k}|{ph}"), case, v.is_finite(), || {
                                json!({"case": what(), "T_over_Tc": tr, "phase": ph, "property": k, "value": fnum(v)})
                            });
                        }
                    }
                    Err(_) => {
                        m.check_bool("finite along the saturation curve: p", &format!("finite|{tag}|panic|{ph}"), case, false, || json!({"case": what(), "T_over_Tc": tr, "problem": "panic"}));
                    }
                }
            }
        }
    }

    // one seed-dependent single-phase probe state
    let r = catch_unwind(AssertUnwindSafe(|| {
        State::new_nvt(&eos, Temperature::from_reduced(t_probe * tc), Volume::from_reduced(ntot / (frac_probe * rho_max)), &Moles::from_reduced(arr1(&[ntot])))
            .ok()
            .map(|s| props(&s))
    }));
    match r {
        Ok(Some(vals)) => {
            for (k, v) in vals {
                m.check_bool(&format!("finite at a random state: {k}"), &format!("finite-state|{tag}|{k}"), case, v.is_finite(), || {
                    json!({"case": what(), "T_over_Tc": t_probe, "rho_over_rho_max": frac_probe, "N": ntot, "property": k, "value": fnum(v)})
                });
            }
        }
        Ok(None) => m.skip("finite at a random state: p", "state constructor returned Err"),
        Err(_) => {
            m.check_bool("finite at a random state: p", &format!("finite-state|{tag}|panic"), case, false, || json!({"case": what(), "T_over_Tc": t_probe, "rho_over_rho_max": frac_probe}));
        }
    }
}

pub fn run(cfg: Config) -> i32 {
    let mut m = Monitor::new(cfg.clone());
    // library panics are caught and reported as violations; keep stderr quiet
    std::panic::set_hook(Box::new(|_| {}));

    // ---- enumerate -------------------------------------------------------------------
    let mut on_disk: Vec<String> = Vec::new();
    for d in DIRS {
        if let Ok(rd) = std::fs::read_dir(pdir().join(d)) {
            for e in rd.flatten() {
                let n = e.file_name().to_string_lossy().to_string();
                if n.ends_with(".json") {
                    on_disk.push(format!("{d}/{n}"));
                }
            }
        }
    }
    on_disk.sort();
    m.note("files_on_disk", json!(on_disk.len()));
    for p in &on_disk {
        if p != EXCLUDED && !FILES.iter().any(|fsp| fsp.path == p) {
            m.gate(false, &format!("{p}: no record type assigned in the harness (c15.rs FILES)"));
        }
    }
    for fsp in FILES {
        if !on_disk.iter().any(|p| p == fsp.path) {
            m.gate(false, &format!("{}: expected shipped file is absent", fsp.path));
        }
    }

    // ---- file level ------------------------------------------------------------------
    let mut loaded: BTreeMap<&'static str, Loaded> = BTreeMap::new();
    let mut texts: BTreeMap<&'static str, String> = BTreeMap::new();
    let mut per_file: BTreeMap<String, Value> = BTreeMap::new();
    for (fi, fsp) in FILES.iter().enumerate() {
        let case = 1_000_000 + fi as u64;
        let Ok(text) = std::fs::read_to_string(pdir().join(fsp.path)) else {
            continue;
        };
        let raw: Vec<Value> = serde_json::from_str(&text).unwrap_or_default();
        let run_here = m.want(case);
        let ok = if run_here {
            let ok = parse_file(&mut m, case, fsp, &text, &raw);
            for (i, r) in raw.iter().enumerate() {
                m.case(&format!("file:{}", fsp.path), hash_str(&format!("{}#{}#{i}", fsp.path, rec_label(r, i))), true);
            }
            ok
        } else {
            !raw.is_empty()
        };
        if run_here && m.samples.len() < 2 {
            m.sample(json!({"file": fsp.path, "record_type": format!("{:?}", fsp.ft), "records": raw.len(), "parsed": ok, "first_record": raw.first()}));
        }
        per_file.insert(fsp.path.to_string(), json!({"type": format!("{:?}", fsp.ft), "records": raw.len(), "parsed": ok}));
        loaded.insert(fsp.path, Loaded { raw, ok });
        texts.insert(fsp.path, text);
    }
    m.skip("parse", "pcsaft/rehner2023_binary.json excluded by name (emptied by the task harness)");
    m.note("files", json!(per_file));
    for (fi, fsp) in FILES.iter().enumerate() {
        let case = 1_000_000 + fi as u64;
        let Some(l) = loaded.get(fsp.path) else { continue };
        if !l.ok || !m.want(case) {
            continue;
        }
        uniqueness(&mut m, case, fsp, &l.raw);
        positivity(&mut m, case, fsp, &l.raw);
        references(&mut m, case, fsp, &l.raw, &loaded);
        binary_lookup(&mut m, case, fsp, &l.raw, &loaded);
        if fsp.ft == Ft::PureDippr {
            dippr_cp(&mut m, case, fsp, &texts[fsp.path]);
        }
    }
    if m.want(2_000_000) {
        gc_checks(&mut m, 2_000_000, &loaded);
    }

    // ---- record level: usability -----------------------------------------------------
    let mut jobs: Vec<Job> = Vec::new();
    for fsp in FILES {
        let (kind, family) = match fsp.ft {
            Ft::PurePcSaft => (Kind::PcSaft, "pcsaft"),
            Ft::PureVRMie => (Kind::SaftVRMie, "saftvrmie"),
            Ft::PureVRQMie => (Kind::SaftVRQMie, "saftvrqmie"),
            _ => continue,
        };
        let Some(l) = loaded.get(fsp.path).filter(|l| l.ok) else { continue };
        for (i, r) in l.raw.iter().enumerate() {
            let name = rec_label(r, i);
            let vrq = fsp.ft == Ft::PureVRQMie;
            let excepted = vrq && name == "helium" && r["model_record"]["fh"].as_u64() == Some(2);
            jobs.push(Job { family, file: fsp.path.to_string(), name, build: Build::Pure(kind, r.clone()), lo: if vrq { 0.6 } else { 0.45 }, excepted });
        }
    }
    if let Some(gc) = loaded.get(GC_SUBSTANCES).filter(|l| l.ok) {
        for (i, r) in gc.raw.iter().enumerate() {
            let name = rec_label(r, i);
            let has_all = |tab: &str| -> bool {
                ids_of(&[tab], &loaded, "name").map_or(false, |have| {
                    r["segments"].as_array().map_or(false, |a| a.iter().all(|s| s.as_str().map_or(false, |s| have.contains(s))))
                })
            };
            for (tab, bin) in HOMO_TABLES {
                if has_all(tab) {
                    jobs.push(Job { family: "gc-homo", file: format!("{GC_SUBSTANCES}@{tab}"), name: name.clone(), build: Build::GcHomo(*tab, *bin), lo: 0.45, excepted: false });
                }
            }
            for (tab, bin) in HETERO_TABLES {
                if has_all(tab) {
                    jobs.push(Job { family: "gc-hetero", file: format!("{GC_SUBSTANCES}@{tab}"), name: name.clone(), build: Build::GcHetero(*tab, *bin), lo: 0.45, excepted: false });
                }
            }
        }
    }
    m.note("models_probed", json!(jobs.len()));
    par_cases(&mut m, &jobs, |m, idx, j| usable(m, idx, j, &cfg));
    let _ = std::panic::take_hook();

    // ---- gates -----------------------------------------------------------------------
    if cfg.only_case.is_none() {
        m.gate(m.clause_checked("parse") >= 25, "fewer than 25 files parsed");
        m.gate(m.clause_checked("critical point exists") >= 2000, "fewer than 2000 pure models probed");
        for fam in ["pcsaft", "saftvrmie", "saftvrqmie", "gc-homo", "gc-hetero"] {
            m.gate(m.families.contains_key(fam), &format!("no model of family {fam} probed"));
        }
    }
    m.finish(
        "every *.json under parameters/{pcsaft,epcsaft,saftvrmie,saftvrqmie,ideal_gas} (pcsaft/rehner2023_binary.json excluded by name) is parsed with the record type of its model (table FILES: PureRecord<PcSaftRecord|ElectrolytePcSaftRecord|SaftVRMieRecord|SaftVRQMieRecord|DipprRecord>, SegmentRecord<PcSaftRecord|GcPcSaftRecord|JobackRecord>, ChemicalRecord, BinaryRecord<Identifier, ..>, BinaryRecord<String,f64>, SMARTS) and serialised back (no key of the file may be dropped or altered); name unique per file, cas unique except the documented variants (rehner2020 water_*, saftvrqmie hydrogen spin isomers), unordered pairs unique in binary files; m, sigma, epsilon_k, molarweight > 0 for PURE records (Mie: lr > la > 0) - group/segment records are increments (the published >C< group has negative m), so for segment tables positivity is checked on each ASSEMBLED gc substance (homo: m, sigma, epsilon_k, molarweight of the substance; hetero: sum of m, every sigma > 0, epsilon_k >= 0, molarweight); binary files and the SMARTS file mention only identifiers of every collection they accompany (by name and by cas) and a 2-component parameter set built by from_multiple_json receives the file's binary record; all 88 gc substances are assembled from each of the 3 homo and 2 hetero segment tables and from joback1987 (plus all at once with the binary segment files), their bond graph and formula mass are checked; every pure PC-SAFT / SAFT-VR Mie / SAFT-VRQ Mie record and every assembled gc substance is built, State::critical_point is tried with the default start then T0 = 700, 500, 1000, 200, 100, 50, 20, 10, 5 K (a stationary point at p <= 0 is not accepted; T_c and p_c must be of a plausible order of magnitude), PhaseEquilibrium::pure(T, no initial state, default options) must succeed on the fixed grid T/Tc = 0.45, 0.53, .., 0.93, 0.99 (8 points; thorough: 0.45, 0.47, .., 0.99 = 28 points; SAFT-VRQ Mie: from 0.60; helium FH2 excepted as in C04), both phases must have finite p, h, s, mu, c_p (Joback ideal gas attached); one evaluation = one record of a file or one model; distinct by (file, record); the seed only changes the Joback coefficients, the system size and one extra single-phase probe state per model",
        true,
        &[
            "the record type of each file is the one assigned in c15.rs FILES (from the READMEs and the Parameter implementations); a new file makes the run inconclusive until it is assigned",
            "the temperature grid is relative to the critical temperature found by State::critical_point of the same model",
            "finite = f64::is_finite of the value in reduced units",
        ],
    )
}
