//! C20 — transport properties (entropy scaling) and the parameter estimator are consistent
//! with the model.
//!
//! Transport: X = X_reference * exp(ln_X_reduced); positive and finite; the correlation
//! equals the closed form of the entropy-scaling papers written here from the coefficients
//! of the JSON record; a binary with a vanishing component gives the pure value; two states
//! with the same residual entropy per segment have the same reduced property.
//! Estimator: every data set predicts what the wrapped library call returns, converted with
//! constants written here from the SI definition (k_B, N_A) — not with the unit machinery of
//! the library; model-generated targets give zero relative difference and zero cost; the cost
//! is loss(relative difference)/N, the estimator multiplies with w_i/sum(w); every robust loss
//! equals sqrt(f^2 rho(r^2/f^2)); failed points follow the documented NaN/extrapolation policy.
use crate::fd::serr;
use crate::monitor::*;
use crate::prng::{hash_f64s, Rng};
use crate::zoo::*;
use feos::estimator::{
    BinaryPhaseDiagram, BinaryVleChemicalPotential, BinaryVlePressure, DataSet, Diffusion,
    EquilibriumLiquidDensity, Estimator, LiquidDensity, Loss, Phase, ThermalConductivity,
    VaporPressure, Viscosity,
};
use feos_core::{
    Contributions, DensityInitialization, PhaseDiagram, PhaseEquilibrium, ReferenceSystem,
    SolverOptions, State,
};
use ndarray::{arr1, Array1};
use quantity::*;
use serde_json::{json, Value};
use std::panic::{catch_unwind, AssertUnwindSafe};
use std::sync::Arc;
use typenum::{P2, P3};

// ---------------------------------------------------------------------------------------
// tolerances (constants; measured worst deviations are in the evidence file)
// ---------------------------------------------------------------------------------------
const TOL_ID: f64 = 1e-13; // X = ref * exp(ln red); predict = library call
const TOL_CORR: f64 = 1e-12; // correlation vs closed form, scaled by sum |terms|
const TOL_SAME_S: f64 = 1e-10; // same s_res => same reduced property
const TOL_ZERO: f64 = 1e-12; // self-generated targets
const TOL_SOLVER: f64 = 1e-5; // self-generated targets that pass through an iterative VLE solver (worst seen 3e-8)
const TOL_LOSS: f64 = 1e-12; // loss closed forms (beyond the cancellation error bar)
const TOL_PROJ: f64 = 1e-9; // distance to the phase-diagram polyline

// SI definition of the reduced units used by feos (K, Angstrom, ps, k_B, 1/N_A)
const KB: f64 = 1.380649e-23;
const NAV: f64 = 6.02214076e23;
const PA: f64 = KB * 1e30; // reduced pressure k_B K / A^3 in Pa
const MPAS: f64 = KB * 1e30 * 1e-12 * 1e3; // reduced viscosity in mPa s
const CM2S: f64 = 1e-20 / 1e-12 * 1e4; // A^2/ps in cm^2/s
const WMK: f64 = KB / 1e-12 / 1e-10; // k_B/(ps A) in W/m/K
fn kgm3(rho_reduced: f64, mw_g_mol: f64) -> f64 {
    rho_reduced * 1e30 / NAV * mw_g_mol * 1e-3
}

// ---------------------------------------------------------------------------------------
// transport
// ---------------------------------------------------------------------------------------
#[derive(Clone, Copy, PartialEq)]
enum Prop {
    Visc,
    Diff,
    Tcond,
}
const PROPS: [Prop; 3] = [Prop::Visc, Prop::Diff, Prop::Tcond];

impl Prop {
    fn name(self) -> &'static str {
        match self {
            Prop::Visc => "viscosity",
            Prop::Diff => "diffusion",
            Prop::Tcond => "thermal_conductivity",
        }
    }
    /// (X, X_reference, ln X_reduced) in reduced units
    fn get(self, s: &St) -> Result<(f64, f64, f64), String> {
        let e = |e: feos_core::EosError| format!("{e}");
        Ok(match self {
            Prop::Visc => (
                s.viscosity().map_err(e)?.to_reduced(),
                s.viscosity_reference().map_err(e)?.to_reduced(),
                s.ln_viscosity_reduced().map_err(e)?,
            ),
            Prop::Diff => (
                s.diffusion().map_err(e)?.to_reduced(),
                s.diffusion_reference().map_err(e)?.to_reduced(),
                s.ln_diffusion_reduced().map_err(e)?,
            ),
            Prop::Tcond => (
                s.thermal_conductivity().map_err(e)?.to_reduced(),
                s.thermal_conductivity_reference().map_err(e)?.to_reduced(),
                s.ln_thermal_conductivity_reduced().map_err(e)?,
            ),
        })
    }
}

/// Reference model of the entropy-scaling correlations (Loetgering-Lin & Gross 2015/2018
/// viscosity, Hopp & Gross 2018/2019 diffusion / thermal conductivity):
/// s = s_res/(k_B m_mix), m_mix = sum x_i m_i, A = sum x_i A_i, B..E = sum x_i m_i/m_mix B_i,
///   ln eta*    = A + B s + C s^2 + D s^3
///   ln D*      = A + B s - C (1 - e^s) s^2 - D s^4 - E s^8
///   ln lambda* = A + B s + C (1 - e^s) + D s^2
/// returns (value, sum of |terms|)
fn corr_closed(prop: Prop, recs: &[Value], x: &[f64], s_res: f64) -> Option<(f64, f64)> {
    let ms: Vec<f64> = recs
        .iter()
        .map(|r| r["model_record"]["m"].as_f64().unwrap_or(1.0))
        .collect();
    let mbar: f64 = x.iter().zip(&ms).map(|(x, m)| x * m).sum();
    let s = s_res / mbar;
    let nco = if prop == Prop::Diff { 5 } else { 4 };
    let mut c = vec![0.0; nco];
    for (i, r) in recs.iter().enumerate() {
        let a = r["model_record"][prop.name()].as_array()?;
        if a.len() != nco {
            return None;
        }
        for k in 0..nco {
            let w = if k == 0 { x[i] } else { x[i] * ms[i] / mbar };
            c[k] += w * a[k].as_f64()?;
        }
    }
    let terms: Vec<f64> = match prop {
        Prop::Visc => vec![c[0], c[1] * s, c[2] * s * s, c[3] * s * s * s],
        Prop::Diff => vec![
            c[0],
            c[1] * s,
            -c[2] * (1.0 - s.exp()) * s * s,
            -c[3] * s.powi(4),
            -c[4] * s.powi(8),
        ],
        Prop::Tcond => vec![c[0], c[1] * s, c[2] * (1.0 - s.exp()), c[3] * s * s],
    };
    Some((terms.iter().sum(), terms.iter().map(|t| t.abs()).sum::<f64>().max(1.0)))
}

/// add synthetic correlation coefficients where the record has none
fn with_coefficients(r: &Value, rng: &mut Rng) -> Value {
    let mut r = r.clone();
    let m = r["model_record"].as_object_mut().unwrap();
    if !m.contains_key("viscosity") {
        m.insert(
            "viscosity".into(),
            json!([rng.range(-1.5, 0.0), rng.range(-3.0, -0.8), rng.range(-0.6, 0.2), rng.range(-0.12, 0.05)]),
        );
    }
    if !m.contains_key("diffusion") {
        m.insert(
            "diffusion".into(),
            json!([rng.range(-0.5, 0.5), rng.range(-1.0, -0.2), rng.range(-0.1, 0.1), rng.range(-1e-3, 1e-3), rng.range(-1e-5, 1e-5)]),
        );
    }
    if !m.contains_key("thermal_conductivity") {
        m.insert(
            "thermal_conductivity".into(),
            json!([rng.range(-0.5, 0.5), rng.range(-0.8, -0.1), rng.range(-0.3, 0.3), rng.range(-0.05, 0.05)]),
        );
    }
    r
}

fn fluid_state(mc: &ModelCase, rng: &mut Rng, x: Vec<f64>) -> StateSpec {
    let ts: f64 = x.iter().zip(&mc.tscale).map(|(x, t)| x * t).sum();
    let t = ts * rng.range(0.5, 2.5);
    let frac = if rng.bool(0.4) {
        rng.log_range(1e-6, 0.9)
    } else {
        rng.range(0.02, 0.9)
    };
    let rho = frac * max_density(&mc.eos, &x);
    StateSpec { t, rho, x, ntot: rng.log_range(1e-3, 1e3), eta_frac: frac }
}

struct TransportCase {
    tag: String,
    mc: ModelCase,
    /// pure model of each component (built from the record alone)
    pures: Vec<Arc<Model>>,
    states: Vec<StateSpec>,
    /// (T1, density fraction 1, T2, x)
    pairs: Vec<(f64, f64, f64, Vec<f64>)>,
    /// (T, density fraction, vanishing component)
    limits: Vec<(f64, f64, usize)>,
    /// temperatures for the check of the thermal-conductivity reference (pure only)
    tref: Vec<f64>,
}

/// domain of entropy scaling: residual entropy per segment of a fluid, s_res/(m k_B) in [-6, 0.2]
/// (solid-like densities of the quantum-corrected models at T -> 0 give s_res >> 0)
fn in_domain(recs: &[Value], x: &[f64], s_res: f64) -> bool {
    let mbar: f64 = recs.iter().zip(x).map(|(r, x)| x * r["model_record"]["m"].as_f64().unwrap_or(1.0)).sum();
    let s = s_res / mbar;
    (-6.0..=0.2).contains(&s)
}

fn s_res_of(eos: &Arc<Model>, t: f64, rho: f64, x: &[f64]) -> Option<(St, f64)> {
    let s = state_tvn(eos, t, 1.0 / rho, &Array1::from_vec(x.to_vec()))?;
    let sr = s.residual_molar_entropy().to_reduced();
    sr.is_finite().then_some((s, sr))
}

fn check_transport(m: &mut Monitor, case: u64, c: &TransportCase) {
    let eos = &c.mc.eos;
    let tag = c.tag.as_str();
    let recs = &c.mc.spec.pure;
    let props: &[Prop] = if c.mc.n == 1 { &PROPS } else { &PROPS[..1] };
    // ---- pointwise clauses
    for (k, ss) in c.states.iter().enumerate() {
        let Some(st) = make_state(eos, ss) else {
            m.skip("transport", "state not constructible");
            continue;
        };
        let s_res = st.residual_molar_entropy().to_reduced();
        if !in_domain(recs, &ss.x, s_res) {
            m.skip("transport", "not a fluid state of the model (s_res/m outside [-6, 0.2] k_B)");
            continue;
        }
        m.case(tag, ss.hash(&c.mc.label()), s_res.abs() > 1e-3);
        if k == 0 {
            m.sample(json!({"kind": "transport", "model": c.mc.label(), "state": ss.json(), "s_res/R": fnum(s_res),
                "viscosity_mPas": fnum(st.viscosity().map(|v| v.to_reduced() * MPAS).unwrap_or(f64::NAN))}));
        }
        for &p in props {
            let nm = p.name();
            let (xv, rv, lv) = match p.get(&st) {
                Ok(v) => v,
                Err(e) => {
                    m.check_bool("transport:getter Ok", &format!("{tag}|{nm}|getter Err"), case, false, || {
                        json!({"model": c.mc.spec, "state": ss.json(), "error": e})
                    });
                    continue;
                }
            };
            let det = || json!({"model": c.mc.spec, "state": ss.json(), "property": nm, "X": fnum(xv), "X_reference": fnum(rv), "ln_X_reduced": fnum(lv), "s_res/R": fnum(s_res)});
            m.check("transport:X=ref*exp(ln_red)", &format!("{tag}|{nm}|X=ref*exp"), case, serr(xv, rv * lv.exp(), 0.0), TOL_ID, det);
            let finite = xv.is_finite() && rv.is_finite() && lv.is_finite();
            let what = if finite && rv <= 0.0 { "reference<=0" } else { "positive,finite" };
            m.check_bool("transport:positive,finite", &format!("{tag}|{nm}|{what}"), case, finite && xv > 0.0 && rv > 0.0, det);
            match corr_closed(p, recs, &ss.x, s_res) {
                Some((cl, scale)) => {
                    m.check("transport:correlation=closed form", &format!("{tag}|{nm}|correlation"), case, (lv - cl).abs() / scale, TOL_CORR, || {
                        json!({"model": c.mc.spec, "state": ss.json(), "property": nm, "ln_X_reduced": fnum(lv), "closed_form": fnum(cl), "s_res/R": fnum(s_res)})
                    });
                }
                None => m.skip("transport:correlation=closed form", "no coefficients in record"),
            }
        }
        // transport properties are intensive: the same (T, rho, x) with a different amount of
        // substance gives the same property, reference and reduced property
        {
            let lambda = [1e-3, 7.5, 6.02214076e23 / ss.ntot][k % 3];
            let mut big = ss.clone();
            big.ntot = ss.ntot * lambda;
            if let Some(st2) = make_state(eos, &big) {
                for &p in props {
                    if let (Ok(a), Ok(b)) = (p.get(&st), p.get(&st2)) {
                        let d = serr(a.0, b.0, 0.0).max(serr(a.1, b.1, 0.0)).max((a.2 - b.2).abs() / a.2.abs().max(1.0));
                        m.check("transport:independent of the amount of substance", &format!("{tag}|{}|intensive", p.name()), case, d, 1e-9, || {
                            json!({"model": c.mc.spec, "state": ss.json(), "scaled by": lambda, "property": p.name(), "X, X_ref, ln X_red": [a.0, a.1, a.2], "scaled state": [b.0, b.1, b.2]})
                        });
                    }
                }
            }
        }
        if c.mc.n > 1 {
            // documented restriction: diffusion / thermal conductivity are pure-component only
            let e1 = st.diffusion().is_err();
            let e2 = st.thermal_conductivity().is_err();
            m.count("mixture_diffusion_or_conductivity_is_Err", (e1 && e2) as u64);
        }
    }
    // ---- same residual entropy per segment => same reduced property
    for (k, (t1, f1, t2, x)) in c.pairs.iter().enumerate() {
        let clause = "transport:same s_res => same reduced";
        let rmax = max_density(eos, x);
        let Some((st1, s1)) = s_res_of(eos, *t1, f1 * rmax, x) else {
            m.skip(clause, "state not constructible");
            continue;
        };
        let f = |rho: f64| s_res_of(eos, *t2, rho, x).map(|(_, s)| s - s1);
        let (mut lo, mut hi) = (1e-9 * rmax, 0.95 * rmax);
        let (Some(flo), Some(fhi)) = (f(lo), f(hi)) else {
            m.skip(clause, "state not constructible");
            continue;
        };
        if !(flo > 0.0 && fhi < 0.0) {
            m.skip(clause, "no bracket on second isotherm");
            continue;
        }
        for _ in 0..200 {
            let mid = 0.5 * (lo + hi);
            if mid <= lo || mid >= hi {
                break;
            }
            match f(mid) {
                Some(v) if v > 0.0 => lo = mid,
                Some(_) => hi = mid,
                None => break,
            }
        }
        let cand = [lo, hi];
        let best = cand
            .iter()
            .filter_map(|&r| s_res_of(eos, *t2, r, x).map(|(st, s)| (st, (s - s1).abs(), r)))
            .min_by(|a, b| a.1.partial_cmp(&b.1).unwrap());
        let Some((st2, ds, rho2)) = best else {
            m.skip(clause, "state not constructible");
            continue;
        };
        if ds > 1e-12 * s1.abs().max(1.0) {
            m.skip(clause, "bisection unresolved");
            continue;
        }
        m.case(&format!("{tag}:isentrope-pair"), hash_f64s(&c.mc.label(), &[*t1, *f1, *t2]), (rho2 / (f1 * rmax) - 1.0).abs() > 1e-3);
        for &p in props {
            let (Ok(a), Ok(b)) = (p.get(&st1), p.get(&st2)) else {
                m.skip(clause, "getter Err");
                continue;
            };
            m.check(clause, &format!("{tag}|{}|same s_res", p.name()), case * 100 + k as u64, (a.2 - b.2).abs() / a.2.abs().max(1.0), TOL_SAME_S, || {
                json!({"model": c.mc.spec, "x": x, "T1": t1, "rho1": f1 * rmax, "T2": t2, "rho2": rho2, "s_res/R": s1, "ln_red_1": fnum(a.2), "ln_red_2": fnum(b.2), "mismatch_s": ds})
            });
            // the dimensional property must differ (otherwise the pair is not informative)
            m.count("isentrope_pairs_with_different_X", ((a.0 / b.0 - 1.0).abs() > 1e-3) as u64);
        }
    }
    // ---- the thermal-conductivity reference (Hopp & Gross 2019, eq. 4) is a(T) + b(T) exp(-s*/s_c) with the
    // residual entropy per segment s* of the state: along an isotherm it is an affine function of
    // exp(2 s*) of the model under test (two densities fix a, b; a third one is predicted)
    if c.mc.n == 1 {
        let clause = "transport:thermal-conductivity reference affine in exp(2 s_res/m) of the model";
        let mseg = recs[0]["model_record"]["m"].as_f64().unwrap_or(1.0);
        let rmax = max_density(eos, &[1.0]);
        for (k, &t) in c.tref.iter().enumerate() {
            let pts: Option<Vec<(f64, f64)>> = [0.03, 0.45, 0.85]
                .iter()
                .map(|f| {
                    let (st, s) = s_res_of(eos, t, f * rmax, &[1.0])?;
                    let r = st.thermal_conductivity_reference().ok()?.to_reduced();
                    r.is_finite().then_some(((2.0 * s / mseg).exp(), r))
                })
                .collect();
            let Some(p) = pts else {
                m.skip(clause, "state or reference not available");
                continue;
            };
            let b = (p[0].1 - p[2].1) / (p[0].0 - p[2].0);
            let a = p[0].1 - b * p[0].0;
            let pred = a + b * p[1].0;
            let scale = a.abs().max((b * p[1].0).abs()).max(p[1].1.abs());
            m.check(clause, &format!("{tag}|thermal_conductivity|reference uses s_res of the model"), case * 100 + k as u64, (pred - p[1].1).abs() / scale, TOL_SAME_S, || {
                json!({"model": c.mc.spec, "T": t, "(exp(2 s*), reference) at 0.03, 0.45, 0.85 rho_max": p, "a": a, "b": b, "predicted_at_0.45": pred})
            });
        }
    }
    // ---- mixture with a vanishing component -> pure value (viscosity; the only mixture property)
    if c.mc.n == 2 {
        for (k, (t, frac, van)) in c.limits.iter().enumerate() {
            let keep = 1 - van;
            let mut xp = vec![0.0; 2];
            xp[keep] = 1.0;
            let rho = frac * max_density(eos, &xp);
            let Some(pure) = state_tvn(&c.pures[keep], *t, 1.0 / rho, &arr1(&[1.0])) else {
                m.skip("transport:mixture->pure", "state not constructible");
                continue;
            };
            let Ok(pv) = Prop::Visc.get(&pure) else {
                m.skip("transport:mixture->pure", "pure getter Err");
                continue;
            };
            if !in_domain(&recs[keep..keep + 1], &[1.0], pure.residual_molar_entropy().to_reduced()) {
                m.skip("transport:mixture->pure", "not a fluid state of the model");
                continue;
            }
            m.case(&format!("{tag}:dilute-limit"), hash_f64s(&c.mc.label(), &[*t, *frac, *van as f64]), true);
            for (x2, lab, tol) in [(1e-6, "1e-6", 1e-2), (1e-9, "1e-9", 1e-5), (1e-12, "1e-12", 1e-8), (0.0, "0", 1e-12)] {
                let clause = format!("transport:mixture->pure x2={lab}");
                let mut x = vec![0.0; 2];
                x[keep] = 1.0 - x2;
                x[*van] = x2;
                let got = catch_unwind(AssertUnwindSafe(|| {
                    state_tvn(eos, *t, 1.0 / rho, &Array1::from_vec(x.clone())).map(|s| Prop::Visc.get(&s))
                }));
                let sig = format!("{tag}|viscosity|x2={lab}");
                let det = |what: Value| {
                    let (spec, x) = (c.mc.spec.clone(), x.clone());
                    move || json!({"model": spec, "T": t, "rho": rho, "x": x, "vanishing_component": van, "pure": [fnum(pv.0), fnum(pv.1), fnum(pv.2)], "mixture": what})
                };
                match got {
                    Err(_) => {
                        m.check_bool(&clause, &format!("{sig}|panic"), case * 100 + k as u64, false, det(json!("panic")));
                    }
                    Ok(None) => m.skip(&clause, "state not constructible"),
                    Ok(Some(Err(e))) => {
                        m.check_bool(&clause, &format!("{sig}|Err"), case * 100 + k as u64, false, det(json!(e)));
                    }
                    Ok(Some(Ok(mv))) => {
                        let dev = serr(mv.0, pv.0, 0.0).max(serr(mv.1, pv.1, 0.0)).max((mv.2 - pv.2).abs() / pv.2.abs().max(1.0));
                        m.check(&clause, &sig, case * 100 + k as u64, dev, tol, det(json!([fnum(mv.0), fnum(mv.1), fnum(mv.2)])));
                    }
                }
            }
        }
    }
}

// ---------------------------------------------------------------------------------------
// loss functions
// ---------------------------------------------------------------------------------------
const LOSS_NAMES: [&str; 5] = ["linear", "softl1", "huber", "cauchy", "arctan"];
fn mk_loss(k: usize, f: f64) -> Loss {
    match k {
        0 => Loss::Linear,
        1 => Loss::softl1(f),
        2 => Loss::huber(f),
        3 => Loss::cauchy(f),
        _ => Loss::arctan(f),
    }
}
fn lib_loss(l: Loss, r: &[f64]) -> Vec<f64> {
    let mut a = Array1::from_vec(r.to_vec());
    l.apply(&mut a);
    a.to_vec()
}
/// documented closed form cost(r) = sqrt(f^2 rho(z)), z = r^2/f^2, written without cancellation
fn loss_closed(k: usize, f: f64, r: f64) -> f64 {
    let z = (r / f) * (r / f);
    let rho = match k {
        0 => return r.abs(),
        1 => 2.0 * z / ((1.0 + z).sqrt() + 1.0),
        2 => {
            if z <= 1.0 {
                z
            } else {
                2.0 * z.sqrt() - 1.0
            }
        }
        3 => z.ln_1p(),
        _ => z.atan(),
    };
    f * rho.sqrt()
}

fn check_loss(m: &mut Monitor, case: u64, seed: u64, n: usize) {
    let mut rng = Rng::derive(seed, "c20-loss", case);
    for j in 0..n {
        let f = match j {
            0 => 1.0,
            _ => rng.log_range(1e-3, 1e3),
        };
        let mut r = rng.log_range(1e-6, 1e3) * if rng.bool(0.5) { -1.0 } else { 1.0 };
        match j {
            0 => r = -0.5,
            1 => r = -f,
            2 => r = f,
            3 => r = -f * (1.0 + 1e-12),
            _ => {}
        }
        let z = (r / f) * (r / f);
        m.case("loss", hash_f64s("loss", &[f, r]), true);
        for k in 0..5 {
            let got = lib_loss(mk_loss(k, f), &[r])[0];
            let want = loss_closed(k, f, r);
            let nm = LOSS_NAMES[k];
            let det = || json!({"loss": nm, "scaling_factor": f, "residual": r, "z": z, "returned": fnum(got), "closed_form": fnum(want)});
            if k == 0 {
                // Linear (rho(z) = z, no scaling factor) is the identity on the residual vector
                m.check("loss:linear=identity", "loss|linear|identity", case, serr(got, r, 0.0), 0.0, det);
                continue;
            }
            // the library evaluates sqrt(1+z)-1 and ln(1+z) directly: relative error eps/z
            let bar = match k {
                1 | 3 => 4.0 * f64::EPSILON * (1.0 + 1.0 / z),
                _ => 0.0,
            };
            let rel = serr(got, want, 0.0);
            if bar > 0.0 && z < 1e-6 {
                // measured precision loss of the library's direct evaluation (not a deviation)
                for (thr, lab) in [(1e-9, "1e-9"), (1e-6, "1e-6"), (1e-3, "1e-3"), (0.999, "0.999 (returns 0)")] {
                    m.count(&format!("loss_{nm}_z<1e-6_relative_error>{lab}"), (rel > thr) as u64);
                }
            }
            let region = if k == 2 {
                if z <= 1.0 {
                    if r < 0.0 {
                        "|negative residual"
                    } else {
                        "|inside"
                    }
                } else {
                    "|outside"
                }
            } else {
                ""
            };
            m.check("loss:closed form", &format!("loss|{nm}{region}"), case, (rel - bar).max(0.0), TOL_LOSS, det);
            m.check_bool("loss:non-negative", &format!("loss|{nm}{region}|sign"), case, got >= 0.0, det);
        }
    }
}

// ---------------------------------------------------------------------------------------
// estimator: helpers
// ---------------------------------------------------------------------------------------
type Ds = Arc<dyn DataSet<Model>>;

fn nan_eq_dev(a: f64, b: f64, floor: f64) -> f64 {
    if (a.is_nan() && b.is_nan()) || a == b {
        0.0
    } else {
        serr(a, b, floor)
    }
}
fn vec_dev(a: &[f64], b: &[f64], floor: f64) -> f64 {
    if a.len() != b.len() {
        return f64::INFINITY;
    }
    a.iter().zip(b).map(|(a, b)| nan_eq_dev(*a, *b, floor)).fold(0.0, f64::max)
}
fn jv(v: &[f64]) -> Value {
    Value::Array(v.iter().map(|x| fnum(*x)).collect())
}

/// everything the generic data-set oracle needs
struct Built {
    name: String,
    /// the data set under test with arbitrary targets
    ds: Ds,
    /// expected prediction from the wrapped library calls (None: the wrapped call fails and the
    /// data set propagates the error)
    expect: Option<Vec<f64>>,
    /// build the same data set with the given targets in the documented unit
    rebuild: Box<dyn Fn(&[f64]) -> Ds + Send + Sync>,
    /// tolerance for self-generated targets
    tol_self: f64,
    /// number of points at which the wrapped call fails (NaN / extrapolation branch taken)
    failed: u64,
    /// extra information for witnesses
    input: Value,
}

fn check_dataset(m: &mut Monitor, case: u64, model: &Spec, eos: &Arc<Model>, b: &Built, rng: &mut Rng) -> Option<Ds> {
    let nm = b.name.as_str();
    let det0 = |extra: Value| {
        let (model, input, nm) = (model.clone(), b.input.clone(), nm.to_string());
        move || json!({"data_set": nm, "model": model, "input": input, "observed": extra})
    };
    let pred = b.ds.predict(eos);
    let Some(expect) = &b.expect else {
        m.check_bool("estimator:error of wrapped call propagates", &format!("{nm}|error propagation"), case, pred.is_err(), det0(json!("predict returned Ok although the wrapped call fails")));
        m.count("datasets_with_failing_wrapped_call", 1);
        return None;
    };
    let pred = match pred {
        Ok(p) => p.to_vec(),
        Err(e) => {
            m.check_bool("estimator:predict=library call (unit)", &format!("{nm}|predict Err"), case, false, det0(json!(format!("{e}"))));
            return None;
        }
    };
    m.case(&format!("estimator:{nm}"), hash_f64s(&format!("{}{}", model.label(), nm), expect), expect.iter().any(|v| v.is_finite()));
    m.check("estimator:predict=library call (unit)", &format!("{nm}|predict"), case, vec_dev(&pred, expect, 0.0), TOL_ID, det0(json!({"predict": jv(&pred), "expected": jv(expect)})));
    m.count(&format!("failed_points_reached:{nm}"), b.failed);
    m.check_bool("estimator:datapoints", &format!("{nm}|datapoints"), case, b.ds.datapoints() == expect.len() && b.ds.target().len() == expect.len(), det0(json!(b.ds.datapoints())));

    // --- targets generated by the model
    let tgt: Vec<f64> = expect.iter().map(|v| if v.is_finite() { *v } else { 1.0 }).collect();
    let ds2 = (b.rebuild)(&tgt);
    m.check("estimator:target stored in documented unit", &format!("{nm}|target unit"), case, vec_dev(&ds2.target().to_vec(), &tgt, 0.0), TOL_ID, det0(json!({"target": jv(&ds2.target().to_vec()), "given": jv(&tgt)})));
    let nanmask = |v: &[f64]| v.iter().zip(expect).all(|(a, e)| a.is_nan() == e.is_nan());
    match ds2.relative_difference(eos) {
        Ok(rd) => {
            let rd = rd.to_vec();
            let worst = rd.iter().filter(|v| !v.is_nan()).fold(0.0f64, |a, v| a.max(v.abs()));
            m.check("estimator:self-generated => relative difference 0", &format!("{nm}|self|relative_difference"), case, worst, b.tol_self, det0(json!({"relative_difference": jv(&rd)})));
            m.check_bool("estimator:NaN exactly at failed points", &format!("{nm}|nan mask"), case, nanmask(&rd), det0(json!({"relative_difference": jv(&rd), "expected": jv(expect)})));
        }
        Err(e) => {
            m.check_bool("estimator:self-generated => relative difference 0", &format!("{nm}|self|Err"), case, false, det0(json!(format!("{e}"))));
        }
    }
    for k in 0..5 {
        let f = rng.log_range(1e-3, 1e3);
        match ds2.cost(eos, mk_loss(k, f)) {
            Ok(c) => {
                let c = c.to_vec();
                let worst = c.iter().filter(|v| !v.is_nan()).fold(0.0f64, |a, v| a.max(v.abs()));
                m.check("estimator:self-generated => cost 0", &format!("{nm}|self|cost|{}", LOSS_NAMES[k]), case, worst, b.tol_self, det0(json!({"cost": jv(&c), "loss": LOSS_NAMES[k], "f": f})));
            }
            Err(e) => {
                m.check_bool("estimator:self-generated => cost 0", &format!("{nm}|self|cost Err"), case, false, det0(json!(format!("{e}"))));
            }
        }
    }
    if let Ok(mard) = ds2.mean_absolute_relative_difference(eos) {
        m.check("estimator:self-generated => MARD 0", &format!("{nm}|self|mard"), case, mard.abs(), b.tol_self, det0(json!(fnum(mard))));
    }

    // --- targets off by known relative amounts d_i: relative difference d_i, MARD = mean |d_i|
    // over the finite entries, cost = loss(relative difference)/N
    let d: Vec<f64> = (0..tgt.len())
        .map(|_| rng.log_range(1e-4, 0.9) * if rng.bool(0.5) { -1.0 } else { 1.0 })
        .collect();
    let tgt3: Vec<f64> = tgt.iter().zip(&d).map(|(t, d)| t / (1.0 + d)).collect();
    let ds3 = (b.rebuild)(&tgt3);
    let mut out = None;
    if let Ok(rd) = ds3.relative_difference(eos) {
        let rd = rd.to_vec();
        let want: Vec<f64> = d.iter().zip(expect).map(|(d, e)| if e.is_nan() { f64::NAN } else { *d }).collect();
        // absolute error of (p - t)/t is a few eps (1 + |d|); allow for solver-limited sets
        let tol = if b.tol_self > TOL_ZERO { b.tol_self } else { TOL_ZERO };
        m.check("estimator:relative difference = (prediction-target)/target", &format!("{nm}|relative_difference"), case, vec_dev(&rd, &want, 1.0), tol, det0(json!({"relative_difference": jv(&rd), "expected": jv(&want)})));
        let fin: Vec<f64> = rd.iter().filter(|v| v.is_finite()).map(|v| v.abs()).collect();
        let mean = if fin.is_empty() { 0.0 } else { fin.iter().sum::<f64>() / fin.len() as f64 };
        if let Ok(mard) = ds3.mean_absolute_relative_difference(eos) {
            m.check("estimator:MARD ignores non-finite entries", &format!("{nm}|mard"), case, serr(mard, mean, 1e-300), TOL_ZERO, det0(json!({"mard": fnum(mard), "mean_of_finite": mean, "relative_difference": jv(&rd)})));
        }
        for k in 0..5 {
            let f = rng.log_range(1e-2, 1e1);
            let l = mk_loss(k, f);
            if let Ok(c) = ds3.cost(eos, l) {
                let want: Vec<f64> = lib_loss(l, &rd).iter().map(|v| v / rd.len() as f64).collect();
                m.check("estimator:cost = loss(relative difference)/N", &format!("{nm}|cost|{}", LOSS_NAMES[k]), case, vec_dev(&c.to_vec(), &want, 0.0), TOL_ID, det0(json!({"cost": jv(&c.to_vec()), "expected": jv(&want), "loss": LOSS_NAMES[k], "f": f})));
            }
        }
        out = Some(ds3);
    }
    out
}

fn check_estimator(m: &mut Monitor, case: u64, model: &Spec, eos: &Arc<Model>, sets: &[Ds], rng: &mut Rng) {
    if sets.is_empty() {
        return;
    }
    let w: Vec<f64> = sets.iter().map(|_| rng.log_range(1e-3, 1e3)).collect();
    let ls: Vec<(usize, f64)> = sets.iter().map(|_| (rng.below(5), rng.log_range(1e-2, 1e1))).collect();
    let losses: Vec<Loss> = ls.iter().map(|(k, f)| mk_loss(*k, *f)).collect();
    let sw: f64 = w.iter().sum();
    let mut want = Vec::new();
    for (i, d) in sets.iter().enumerate() {
        let Ok(c) = d.cost(eos, losses[i]) else {
            m.skip("estimator:Estimator::cost = cost_i w_i/sum(w)", "data set cost Err");
            return;
        };
        want.extend(c.iter().map(|c| c * (w[i] / sw)));
    }
    let det = |extra: Value| {
        let (model, w, ls) = (model.clone(), w.clone(), ls.clone());
        move || json!({"model": model, "weights": w, "losses": ls.iter().map(|(k, f)| json!([LOSS_NAMES[*k], f])).collect::<Vec<_>>(), "observed": extra})
    };
    let est = Estimator::new(sets.to_vec(), w.clone(), losses.clone());
    m.case("estimator:Estimator", hash_f64s(&model.label(), &w), true);
    match est.cost(eos) {
        Ok(c) => {
            let c = c.to_vec();
            m.check("estimator:Estimator::cost = cost_i w_i/sum(w)", "estimator|cost|weights", case, vec_dev(&c, &want, 0.0), TOL_ID, det(json!({"cost": jv(&c), "expected": jv(&want)})));
            // only the normalised weights matter
            let lam = rng.log_range(1e-3, 1e3);
            let mut est2 = Estimator::new(vec![], vec![], vec![]);
            for (i, d) in sets.iter().enumerate() {
                est2.add_data(d, w[i] * lam, losses[i]);
            }
            if let Ok(c2) = est2.cost(eos) {
                m.check("estimator:Estimator::cost invariant under scaling of all weights", "estimator|cost|weight scaling", case, vec_dev(&c2.to_vec(), &c, 0.0), TOL_ID, det(json!({"cost": jv(&c), "scaled": jv(&c2.to_vec()), "lambda": lam})));
            }
        }
        Err(e) => {
            m.check_bool("estimator:Estimator::cost = cost_i w_i/sum(w)", "estimator|cost|Err", case, false, det(json!(format!("{e}"))));
        }
    }
    if let (Ok(p), Ok(rd), Ok(mard)) = (est.predict(eos), est.relative_difference(eos), est.mean_absolute_relative_difference(eos)) {
        let mut dev: f64 = 0.0;
        for (i, d) in sets.iter().enumerate() {
            if let (Ok(pi), Ok(ri), Ok(mi)) = (d.predict(eos), d.relative_difference(eos), d.mean_absolute_relative_difference(eos)) {
                dev = dev.max(vec_dev(&p[i].to_vec(), &pi.to_vec(), 0.0)).max(vec_dev(&rd[i].to_vec(), &ri.to_vec(), 0.0)).max(nan_eq_dev(mard[i], mi, 0.0));
            }
        }
        m.check("estimator:Estimator::{predict,relative_difference,MARD} = per data set", "estimator|delegation", case, dev, 0.0, det(json!(null)));
    }
}

// ---------------------------------------------------------------------------------------
// estimator: pure-component data sets
// ---------------------------------------------------------------------------------------
struct EstPure {
    mc: ModelCase,
    mw: f64,
}

fn tarr(v: &[f64]) -> Temperature<Array1<f64>> {
    Temperature::from_reduced(Array1::from_vec(v.to_vec()))
}
fn parr_pa(v: &[f64]) -> Pressure<Array1<f64>> {
    Array1::from_vec(v.to_vec()) * PASCAL
}

fn build_pure_sets(c: &EstPure, rng: &mut Rng) -> Vec<Built> {
    let eos = &c.mc.eos;
    let tc = c.mc.tscale[0];
    let one = Moles::from_reduced(arr1(&[1.0]));
    let mut out = Vec::new();

    // ---------------- vapor pressure, with and without extrapolation
    let mut ts: Vec<f64> = (0..4).map(|_| tc * rng.range(0.5, 0.97)).collect();
    ts.extend((0..2).map(|_| tc * rng.range(1.02, 1.3)));
    rng.shuffle(&mut ts);
    let tc_given = if rng.bool(0.5) { Some(Temperature::from_reduced(tc * rng.range(0.95, 1.05))) } else { None };
    for extrapolate in [false, true] {
        let tmax = tc_given.unwrap_or(Temperature::from_reduced(ts.iter().cloned().fold(f64::MIN, f64::max)));
        let opt = SolverOptions::default();
        // the documented procedure: critical point (first guess: given T_c or largest T), saturation
        // pressure at 0.9 T_c, straight line of ln p over 1/T through both
        let expect = (|| {
            let cp = State::critical_point(eos, None, Some(tmax), opt).or_else(|_| State::critical_point(eos, None, None, opt)).ok()?;
            let (tcm, pcm) = (cp.temperature.to_reduced(), cp.pressure(Contributions::Total).to_reduced());
            let t0 = 0.9 * tcm;
            let p0 = PhaseEquilibrium::pure(eos, Temperature::from_reduced(t0), None, opt).ok()?.vapor().pressure(Contributions::Total).to_reduced();
            let slope = (pcm / p0).ln() / (1.0 / tcm - 1.0 / t0);
            Some(
                ts.iter()
                    .map(|&t| match PhaseEquilibrium::vapor_pressure(eos, Temperature::from_reduced(t))[0] {
                        Some(p) => p.to_reduced() * PA,
                        None if extrapolate => (pcm.ln() + slope * (1.0 / t - 1.0 / tcm)).exp() * PA,
                        None => f64::NAN,
                    })
                    .collect::<Vec<f64>>(),
            )
        })();
        let failed = ts.iter().filter(|&&t| PhaseEquilibrium::vapor_pressure(eos, Temperature::from_reduced(t))[0].is_none()).count() as u64;
        let tsq = tarr(&ts);
        let mk = {
            let tsq = tsq.clone();
            move |tg: &[f64]| -> Ds { Arc::new(VaporPressure::new(parr_pa(tg), tsq.clone(), extrapolate, tc_given, None)) }
        };
        let dummy: Vec<f64> = ts.iter().map(|_| 1e5).collect();
        out.push(Built {
            name: format!("vapor pressure{}", if extrapolate { " (extrapolate)" } else { "" }),
            ds: mk(&dummy),
            expect,
            rebuild: Box::new(mk),
            tol_self: TOL_ZERO,
            failed,
            input: json!({"T_K": ts, "critical_temperature": tc_given.map(|t| t.to_reduced()), "unit": "Pa"}),
        });
    }

    // ---------------- liquid density (T, p); one point under strong tension may have no liquid root
    let n = 5;
    let tl: Vec<f64> = (0..n).map(|_| tc * rng.range(0.45, 0.95)).collect();
    let mut pl: Vec<f64> = (0..n).map(|_| rng.log_range(1e5, 1e8)).collect();
    if rng.bool(0.6) {
        pl[rng.below(n)] = -rng.log_range(5e8, 5e9);
    }
    {
        let expect: Vec<f64> = tl
            .iter()
            .zip(&pl)
            .map(|(&t, &p)| match State::new_npt(eos, Temperature::from_reduced(t), Pressure::from_reduced(p / PA), &one, DensityInitialization::Liquid) {
                Ok(s) => kgm3(s.density.to_reduced(), c.mw),
                Err(_) => f64::NAN,
            })
            .collect();
        let (tq, pq) = (tarr(&tl), Pressure::from_reduced(Array1::from_vec(pl.iter().map(|p| p / PA).collect())));
        let mk = move |tg: &[f64]| -> Ds { Arc::new(LiquidDensity::new(Array1::from_vec(tg.to_vec()) * (KILOGRAM / METER.powi::<P3>()), tq.clone(), pq.clone())) };
        out.push(Built {
            name: "liquid density".into(),
            ds: mk(&vec![800.0; n]),
            failed: expect.iter().filter(|v| v.is_nan()).count() as u64,
            expect: Some(expect),
            rebuild: Box::new(mk),
            tol_self: TOL_ZERO,
            input: json!({"T_K": tl, "p_Pa": pl, "unit": "kg/m3", "molarweight": c.mw}),
        });
    }

    // ---------------- equilibrium liquid density
    {
        let mut te: Vec<f64> = (0..4).map(|_| tc * rng.range(0.5, 0.97)).collect();
        te.push(tc * rng.range(1.02, 1.3));
        rng.shuffle(&mut te);
        let expect: Vec<f64> = te
            .iter()
            .map(|&t| match PhaseEquilibrium::pure(eos, Temperature::from_reduced(t), None, SolverOptions::default()) {
                Ok(v) => kgm3(v.liquid().density.to_reduced(), c.mw),
                Err(_) => f64::NAN,
            })
            .collect();
        let tq = tarr(&te);
        let mk = move |tg: &[f64]| -> Ds { Arc::new(EquilibriumLiquidDensity::new(Array1::from_vec(tg.to_vec()) * (KILOGRAM / METER.powi::<P3>()), tq.clone(), None)) };
        out.push(Built {
            name: "equilibrium liquid density".into(),
            ds: mk(&vec![800.0; te.len()]),
            failed: expect.iter().filter(|v| v.is_nan()).count() as u64,
            expect: Some(expect),
            rebuild: Box::new(mk),
            tol_self: TOL_ZERO,
            input: json!({"T_K": te, "unit": "kg/m3", "molarweight": c.mw}),
        });
    }

    // ---------------- transport data sets (T, p, optional phase); errors propagate
    for prop in PROPS {
        let n = 5;
        let tt: Vec<f64> = (0..n).map(|_| tc * rng.range(0.55, 1.6)).collect();
        let mut pp: Vec<f64> = (0..n).map(|_| rng.log_range(1e4, 5e7)).collect();
        if rng.bool(0.15) {
            pp[rng.below(n)] = -rng.log_range(5e8, 5e9);
        }
        let phases: Option<Vec<Phase>> = if rng.bool(0.5) {
            Some(tt.iter().map(|_| if rng.bool(0.5) { Phase::Liquid } else { Phase::Vapor }).collect())
        } else {
            None
        };
        let expect: Option<Vec<f64>> = tt
            .iter()
            .zip(&pp)
            .enumerate()
            .map(|(i, (&t, &p))| {
                let init = match phases.as_ref().map(|ph| ph[i]) {
                    None => DensityInitialization::None,
                    Some(Phase::Liquid) => DensityInitialization::Liquid,
                    Some(Phase::Vapor) => DensityInitialization::Vapor,
                };
                let s = State::new_npt(eos, Temperature::from_reduced(t), Pressure::from_reduced(p / PA), &one, init).ok()?;
                Some(match prop {
                    Prop::Visc => s.viscosity().ok()?.to_reduced() * MPAS,
                    Prop::Diff => s.diffusion().ok()?.to_reduced() * CM2S,
                    Prop::Tcond => s.thermal_conductivity().ok()?.to_reduced() * WMK,
                })
            })
            .collect();
        let (tq, pq) = (tarr(&tt), Pressure::from_reduced(Array1::from_vec(pp.iter().map(|p| p / PA).collect())));
        let ph = phases.clone();
        let mk = move |tg: &[f64]| -> Ds {
            let a = Array1::from_vec(tg.to_vec());
            match prop {
                Prop::Visc => Arc::new(Viscosity::new(a * (MILLI * PASCAL * SECOND), tq.clone(), pq.clone(), ph.as_ref())),
                Prop::Diff => Arc::new(Diffusion::new(a * ((CENTI * METER).powi::<P2>() / SECOND), tq.clone(), pq.clone(), ph.as_ref())),
                Prop::Tcond => Arc::new(ThermalConductivity::new(a * (WATT / METER / KELVIN), tq.clone(), pq.clone(), ph.as_ref())),
            }
        };
        out.push(Built {
            name: prop.name().to_string(),
            ds: mk(&vec![1.0; n]),
            failed: 0,
            expect,
            rebuild: Box::new(mk),
            tol_self: TOL_ZERO,
            input: json!({"T_K": tt, "p_Pa": pp, "phase": phases.map(|p| p.iter().map(|p| if *p == Phase::Liquid { "liquid" } else { "vapor" }).collect::<Vec<_>>()),
                "unit": match prop { Prop::Visc => "mPa s", Prop::Diff => "cm2/s", Prop::Tcond => "W/m/K" }}),
        });
    }
    out
}

// ---------------------------------------------------------------------------------------
// estimator: binary data sets
// ---------------------------------------------------------------------------------------
struct EstBinary {
    mc: ModelCase,
}

/// (y1 of the vapor, reduced pressure) of the library's bubble point at (T, x1)
fn bubble(eos: &Arc<Model>, t: f64, x1: f64, p_init: Option<f64>) -> Option<(f64, f64)> {
    let v = PhaseEquilibrium::bubble_point(eos, Temperature::from_reduced(t), &arr1(&[x1, 1.0 - x1]), p_init.map(Pressure::from_reduced), None, Default::default()).ok()?;
    let p = v.vapor().pressure(Contributions::Total).to_reduced();
    let y = v.vapor().molefracs[0];
    // a vapor without a trace of one component (y rounds to 0 or 1) has no chemical potential of it
    // and the solver may return a collapsed "equilibrium" (p ~ 1e-200, y = x), which is not a VLE point
    (p.is_finite() && p > 1e-60 && y > 1e-12 && y < 1.0 - 1e-12 && (y - x1).abs() > 1e-9).then_some((y, p))
}

/// closest point of the polyline to (x, y): (distance, parameter t of the closest segment)
fn closest_on_polyline(xs: &[f64], ys: &[f64], x: f64, y: f64) -> Option<(f64, f64)> {
    let mut best: Option<(f64, f64)> = None;
    for k in 0..xs.len().saturating_sub(1) {
        let (dx, dy) = (xs[k + 1] - xs[k], ys[k + 1] - ys[k]);
        let l2 = dx * dx + dy * dy;
        if !(l2 > 0.0) {
            continue;
        }
        let t = (((x - xs[k]) * dx + (y - ys[k]) * dy) / l2).clamp(0.0, 1.0);
        let (px, py) = (xs[k] + t * dx, ys[k] + t * dy);
        let d = ((px - x).powi(2) + (py - y).powi(2)).sqrt();
        if best.map_or(true, |b| d < b.0) {
            best = Some((d, t));
        }
    }
    best
}

fn check_binary(m: &mut Monitor, case: u64, c: &EstBinary, seed: u64) {
    let mut rng = Rng::derive(seed, "c20-binary-run", case);
    let eos = &c.mc.eos;
    let model = &c.mc.spec;
    let tmin = c.mc.tscale.iter().cloned().fold(f64::MAX, f64::min);
    let t = tmin * rng.range(0.55, 0.85);
    let tq = Temperature::from_reduced(t);
    // model-generated VLE points: converged twice so that the start value is the solution
    let mut pts = Vec::new();
    for _ in 0..5 {
        let x1 = rng.range(0.05, 0.95);
        if let Some((_, p0)) = bubble(eos, t, x1, None) {
            if let Some((y, p)) = bubble(eos, t, x1, Some(p0)) {
                pts.push((x1, y, p));
            }
        }
    }
    if pts.len() < 2 {
        m.skip("estimator:binary", "bubble points of the model not available");
        return;
    }
    let n = pts.len();
    let xs: Vec<f64> = pts.iter().map(|p| p.0).collect();
    let ys: Vec<f64> = pts.iter().map(|p| p.1).collect();
    let ps: Vec<f64> = pts.iter().map(|p| p.2).collect();
    let tv = tarr(&vec![t; n]);
    let mut sets: Vec<Ds> = Vec::new();
    m.sample(json!({"kind": "binary vle", "model": c.mc.label(), "T": t, "x1": xs, "y1": ys, "p_Pa": ps.iter().map(|p| p * PA).collect::<Vec<_>>()}));

    // ---------------- bubble / dew pressure
    for phase in [Phase::Liquid, Phase::Vapor] {
        let nm = if phase == Phase::Liquid { "binary vle pressure (liquid)" } else { "binary vle pressure (vapor)" };
        // input pressures: the model's own (self-generated) and perturbed ones (start values / targets)
        for (variant, pin) in [("self", ps.clone()), ("perturbed", ps.iter().map(|p| p * rng.range(0.8, 1.25)).collect::<Vec<f64>>())] {
            let z = if phase == Phase::Liquid { &xs } else { &ys };
            let ds: Ds = Arc::new(BinaryVlePressure::new(tv.clone(), Pressure::from_reduced(Array1::from_vec(pin.clone())), Array1::from_vec(z.clone()), phase));
            let expect: Option<Vec<f64>> = z
                .iter()
                .zip(&pin)
                .map(|(&zi, &pi)| {
                    let comp = arr1(&[zi, 1.0 - zi]);
                    let v = if phase == Phase::Liquid {
                        PhaseEquilibrium::bubble_point(eos, tq, &comp, Some(Pressure::from_reduced(pi)), None, Default::default())
                    } else {
                        PhaseEquilibrium::dew_point(eos, tq, &comp, Some(Pressure::from_reduced(pi)), None, Default::default())
                    };
                    v.ok().map(|v| v.vapor().pressure(Contributions::Total).to_reduced() * PA)
                })
                .collect();
            let det = |extra: Value| {
                let (model, z, pin) = (model.clone(), z.clone(), pin.clone());
                move || json!({"data_set": nm, "model": model, "T": t, "molefracs": z, "p_in_Pa": pin.iter().map(|p| p * PA).collect::<Vec<_>>(), "observed": extra})
            };
            let pred = ds.predict(eos);
            let Some(expect) = expect else {
                m.check_bool("estimator:error of wrapped call propagates", &format!("{nm}|error propagation"), case, pred.is_err(), det(json!("Ok")));
                continue;
            };
            let Ok(pred) = pred else {
                m.check_bool("estimator:predict=library call (unit)", &format!("{nm}|predict Err"), case, false, det(json!("Err")));
                continue;
            };
            let pred = pred.to_vec();
            m.case(&format!("estimator:{nm}"), hash_f64s(&format!("{}{nm}{variant}", model.label()), &expect), true);
            m.check("estimator:predict=library call (unit)", &format!("{nm}|predict"), case, vec_dev(&pred, &expect, 0.0), TOL_ID, det(json!({"predict": jv(&pred), "expected": jv(&expect)})));
            let tgt: Vec<f64> = pin.iter().map(|p| p * PA).collect();
            m.check("estimator:target stored in documented unit", &format!("{nm}|target unit"), case, vec_dev(&ds.target().to_vec(), &tgt, 0.0), TOL_ID, det(json!({"target": jv(&ds.target().to_vec())})));
            if let Ok(rd) = ds.relative_difference(eos) {
                let rd = rd.to_vec();
                if variant == "self" {
                    // the wrapped solver may legitimately return another root for the same composition
                    // (two dew points next to an azeotrope / unstable liquid): then the data are not
                    // a self-consistent set for this data-set type
                    if expect.iter().zip(&tgt).any(|(p, t)| !((p - t).abs() <= TOL_SOLVER * t.abs())) {
                        m.skip("estimator:self-generated (VLE solver) => relative difference 0", "library bubble/dew point started at the solution returns another root");
                        continue;
                    }
                    let worst = rd.iter().fold(0.0f64, |a, v| a.max(v.abs()));
                    m.check("estimator:self-generated (VLE solver) => relative difference 0", &format!("{nm}|self|relative_difference"), case, worst, TOL_SOLVER, det(json!({"relative_difference": jv(&rd)})));
                    for k in 0..5 {
                        if let Ok(cst) = ds.cost(eos, mk_loss(k, rng.log_range(1e-3, 1e3))) {
                            let worst = cst.iter().fold(0.0f64, |a, v| a.max(v.abs()));
                            m.check("estimator:self-generated (VLE solver) => cost 0", &format!("{nm}|self|cost|{}", LOSS_NAMES[k]), case, worst, TOL_SOLVER, det(json!({"cost": jv(&cst.to_vec())})));
                        }
                    }
                } else {
                    let want: Vec<f64> = expect.iter().zip(&tgt).map(|(p, t)| (p - t) / t).collect();
                    m.check("estimator:relative difference = (prediction-target)/target", &format!("{nm}|relative_difference"), case, vec_dev(&rd, &want, 1.0), TOL_ZERO, det(json!({"relative_difference": jv(&rd), "expected": jv(&want)})));
                    sets.push(ds.clone());
                }
            }
        }
    }

    // ---------------- chemical potential residuals
    {
        let nm = "binary vle chemical potential";
        for (variant, pin) in [("self", ps.clone()), ("perturbed", ps.iter().map(|p| p * rng.range(0.9, 1.1)).collect::<Vec<f64>>())] {
            let ds: Ds = Arc::new(BinaryVleChemicalPotential::new(tv.clone(), Pressure::from_reduced(Array1::from_vec(pin.clone())), Array1::from_vec(xs.clone()), Array1::from_vec(ys.clone())));
            // documented: prediction = 1 + (mu_i^liquid - mu_i^vapor)/(R 500 K), target 1, two entries per point
            let expect: Option<Vec<f64>> = (0..n)
                .map(|i| {
                    let st = |z: f64, init| State::new_npt(eos, tq, Pressure::from_reduced(pin[i]), &Moles::from_reduced(arr1(&[z, 1.0 - z])), init).ok();
                    let l = st(xs[i], DensityInitialization::Liquid)?;
                    let v = st(ys[i], DensityInitialization::Vapor)?;
                    let (ml, mv) = (l.residual_chemical_potential().to_reduced(), v.residual_chemical_potential().to_reduced());
                    let (rl, rv) = (l.partial_density.to_reduced(), v.partial_density.to_reduced());
                    Some([0, 1].map(|k| 1.0 + (ml[k] - mv[k] + t * (rl[k] / rv[k]).ln()) / 500.0))
                })
                .collect::<Option<Vec<[f64; 2]>>>()
                .map(|v| v.into_iter().flatten().collect());
            let det = |extra: Value| {
                let (model, xs, ys, pin) = (model.clone(), xs.clone(), ys.clone(), pin.clone());
                move || json!({"data_set": nm, "model": model, "T": t, "x1": xs, "y1": ys, "p_Pa": pin.iter().map(|p| p * PA).collect::<Vec<_>>(), "observed": extra})
            };
            let pred = ds.predict(eos);
            let Some(expect) = expect else {
                m.check_bool("estimator:error of wrapped call propagates", &format!("{nm}|error propagation"), case, pred.is_err(), det(json!("Ok")));
                continue;
            };
            let Ok(pred) = pred else {
                m.check_bool("estimator:predict=library call (unit)", &format!("{nm}|predict Err"), case, false, det(json!("Err")));
                continue;
            };
            let pred = pred.to_vec();
            m.case(&format!("estimator:{nm}"), hash_f64s(&format!("{}{nm}{variant}", model.label()), &expect), true);
            m.check("estimator:predict=1+(mu_liquid-mu_vapor)/(R 500 K) from library states", &format!("{nm}|predict"), case, vec_dev(&pred, &expect, 1.0), TOL_ZERO, det(json!({"predict": jv(&pred), "expected": jv(&expect)})));
            m.check_bool("estimator:datapoints", &format!("{nm}|datapoints"), case, ds.datapoints() == 2 * n && ds.target().iter().all(|t| *t == 1.0), det(json!(ds.datapoints())));
            if variant == "self" {
                // the data carry only x1 and y1: the amount of a trace component 1 - y1 is known to
                // eps/(1 - y1) only, which enters as T/500 K * d ln(1 - y1)
                let bar: Vec<f64> = (0..2 * n)
                    .map(|j| {
                        let i = j / 2;
                        let tr = xs[i].min(1.0 - xs[i]).min(ys[i]).min(1.0 - ys[i]);
                        t / 500.0 * 8.0 * f64::EPSILON / tr
                    })
                    .collect();
                if let Ok(rd) = ds.relative_difference(eos) {
                    let worst = rd.iter().zip(&bar).fold(0.0f64, |a, (v, b)| a.max((v.abs() - b).max(0.0)));
                    m.check("estimator:self-generated (VLE solver) => relative difference 0", &format!("{nm}|self|relative_difference"), case, worst, TOL_SOLVER, det(json!({"relative_difference": jv(&rd.to_vec())})));
                }
                for k in 0..5 {
                    if let Ok(cst) = ds.cost(eos, mk_loss(k, rng.log_range(1e-3, 1e3))) {
                        let worst = cst.iter().zip(&bar).fold(0.0f64, |a, (v, b)| a.max((v.abs() - b).max(0.0)));
                        m.check("estimator:self-generated (VLE solver) => cost 0", &format!("{nm}|self|cost|{}", LOSS_NAMES[k]), case, worst, TOL_SOLVER, det(json!({"cost": jv(&cst.to_vec())})));
                    }
                }
            } else {
                sets.push(ds.clone());
            }
        }
    }

    // ---------------- phase diagram distance: isothermal (pressures as data) and isobaric
    let npts = 11 + rng.below(25);
    let pmid = ps[0];
    for isobaric in [false, true] {
        let nm = if isobaric { "binary phase diagram (isobaric)" } else { "binary phase diagram (isothermal)" };
        let dia = if isobaric {
            PhaseDiagram::binary_vle(eos, Pressure::from_reduced(pmid), Some(npts), None, Default::default())
        } else {
            PhaseDiagram::binary_vle(eos, tq, Some(npts), None, Default::default())
        };
        let Ok(dia) = dia else {
            m.skip("estimator:phase diagram", "binary_vle Err");
            continue;
        };
        let xl: Vec<f64> = dia.states.iter().map(|s| s.liquid().molefracs[0]).collect();
        let xv: Vec<f64> = dia.states.iter().map(|s| s.vapor().molefracs[0]).collect();
        let tp: Vec<f64> = dia
            .states
            .iter()
            .map(|s| if isobaric { s.vapor().temperature.to_reduced() } else { s.vapor().pressure(Contributions::Total).to_reduced() })
            .collect();
        if xl.len() < 3 || tp.iter().any(|v| !v.is_finite()) {
            m.skip("estimator:phase diagram", "diagram too short");
            continue;
        }
        if tp.iter().any(|v| *v < 1e-60) {
            m.skip("estimator:phase diagram", "library diagram contains collapsed states (p < 1e-60 k_B K/A^3)");
            continue;
        }
        let mkds = |tpd: &[f64], l: Option<Vec<f64>>, v: Option<Vec<f64>>| -> Ds {
            let (l, v) = (l.map(Array1::from_vec), v.map(Array1::from_vec));
            if isobaric {
                Arc::new(BinaryPhaseDiagram::new(Pressure::from_reduced(pmid), tarr(tpd), l, v, Some(npts)))
            } else {
                Arc::new(BinaryPhaseDiagram::new(tq, Pressure::from_reduced(Array1::from_vec(tpd.to_vec())), l, v, Some(npts)))
            }
        };
        let det = |extra: Value| {
            let model = model.clone();
            move || json!({"data_set": nm, "model": model, "T": t, "p_Pa": pmid * PA, "npoints": npts, "observed": extra})
        };
        // (a) self-generated: midpoints of the segments of the model's own diagram
        let ks: Vec<usize> = (0..4).map(|_| rng.below(xl.len() - 1)).collect();
        let good = |xs: &[f64], k: usize| (xs[k + 1] - xs[k]).abs() > 1e-9 || (tp[k + 1] - tp[k]).abs() > 1e-9 * tp[k].abs();
        let ksl: Vec<usize> = ks.iter().cloned().filter(|&k| good(&xl, k)).collect();
        if !ksl.is_empty() {
            let tpd: Vec<f64> = ksl.iter().map(|&k| 0.5 * (tp[k] + tp[k + 1])).collect();
            let lx: Vec<f64> = ksl.iter().map(|&k| 0.5 * (xl[k] + xl[k + 1])).collect();
            let vx: Vec<f64> = ksl.iter().map(|&k| 0.5 * (xv[k] + xv[k + 1])).collect();
            let ds = mkds(&tpd, Some(lx.clone()), Some(vx.clone()));
            m.case(&format!("estimator:{nm}"), hash_f64s(&format!("{}{nm}", model.label()), &tpd), true);
            m.check_bool("estimator:datapoints", &format!("{nm}|datapoints"), case, ds.datapoints() == 4 * ksl.len() && ds.target().iter().all(|t| *t == 1.0), det(json!(ds.datapoints())));
            match ds.relative_difference(eos) {
                Ok(rd) => {
                    let worst = rd.iter().fold(0.0f64, |a, v| a.max(v.abs()));
                    m.check("estimator:self-generated => relative difference 0", &format!("{nm}|self|relative_difference"), case, worst, TOL_ZERO, det(json!({"relative_difference": jv(&rd.to_vec()), "tp": tpd, "x_liquid": lx, "x_vapor": vx})));
                    for k in 0..5 {
                        if let Ok(cst) = ds.cost(eos, mk_loss(k, rng.log_range(1e-3, 1e3))) {
                            let worst = cst.iter().fold(0.0f64, |a, v| a.max(v.abs()));
                            m.check("estimator:self-generated => cost 0", &format!("{nm}|self|cost|{}", LOSS_NAMES[k]), case, worst, TOL_ZERO, det(json!({"cost": jv(&cst.to_vec())})));
                        }
                    }
                }
                Err(e) => {
                    m.check_bool("estimator:self-generated => relative difference 0", &format!("{nm}|self|Err"), case, false, det(json!(format!("{e}"))));
                }
            }
        }
        // (b) points off the curve: the prediction is (x0 - x + 1, y0) with (x0, y0) the closest point
        // of the polyline in the coordinates (x, tp/tp_exp)
        let k = rng.below(xl.len() - 1);
        let tpe = 0.5 * (tp[k] + tp[k + 1]) * rng.range(0.85, 1.15);
        let xe = (0.5 * (xl[k] + xl[k + 1]) + rng.range(-0.1, 0.1)).clamp(0.01, 0.99);
        let ds = mkds(&[tpe], Some(vec![xe]), None);
        if let Ok(p) = ds.predict(eos) {
            let (x0, y0) = (p[0] + xe - 1.0, p[1]);
            let ysc: Vec<f64> = tp.iter().map(|v| v / tpe).collect();
            if let (Some((d_on, _)), Some((d_h, t_h))) = (closest_on_polyline(&xl, &ysc, x0, y0), closest_on_polyline(&xl, &ysc, xe, 1.0)) {
                let d_l = ((x0 - xe).powi(2) + (y0 - 1.0).powi(2)).sqrt();
                let w = json!({"x_exp": xe, "tp_exp": tpe, "prediction": jv(&p.to_vec()), "x_liquid": xl, "tp": tp, "distance_library": d_l, "distance_harness": d_h});
                m.check("estimator:phase diagram point lies on the model's polyline", &format!("{nm}|on polyline"), case, d_on, TOL_PROJ, det(w.clone()));
                if t_h > 1e-6 && t_h < 1.0 - 1e-6 {
                    m.check("estimator:phase diagram distance = closest point", &format!("{nm}|closest"), case, serr(d_l, d_h, 1e-6), TOL_PROJ, det(w));
                } else {
                    m.skip("estimator:phase diagram distance = closest point", "closest point is a vertex (tie-break not documented)");
                }
            }
            sets.push(ds);
        } else {
            m.skip("estimator:phase diagram distance = closest point", "predict Err");
        }
    }
    check_estimator(m, case, model, eos, &sets, &mut rng);
}

// ---------------------------------------------------------------------------------------
// case list
// ---------------------------------------------------------------------------------------
enum Case {
    Transport(TransportCase),
    EstPure(EstPure),
    EstBinary(EstBinary),
    Loss,
}

fn transport_case(tag: &str, fam: &str, spec: Spec, rng: &mut Rng, nstates: usize, npairs: usize) -> Option<TransportCase> {
    let mc = ModelCase::new(fam, spec).ok()?;
    let n = mc.n;
    let pures: Vec<Arc<Model>> = (0..n)
        .map(|i| Spec { pure: vec![mc.spec.pure[i].clone()], binary: None, ..mc.spec.clone() }.build().ok())
        .collect::<Option<_>>()?;
    let states = (0..nstates)
        .map(|_| {
            let x = rng.simplex(n, 0.2, 1e-6);
            fluid_state(&mc, rng, x)
        })
        .collect();
    let pairs = (0..npairs)
        .map(|_| {
            let x = rng.simplex(n, 0.0, 1e-6);
            let ts: f64 = x.iter().zip(&mc.tscale).map(|(x, t)| x * t).sum();
            let t1 = ts * rng.range(0.6, 2.0);
            (t1, rng.range(0.03, 0.7), t1 * rng.range(0.75, 1.3), x)
        })
        .collect();
    let limits = if n == 2 {
        (0..npairs)
            .map(|k| {
                let van = k % 2;
                (mc.tscale[1 - van] * rng.range(0.5, 2.0), rng.range(0.01, 0.85), van)
            })
            .collect()
    } else {
        vec![]
    };
    let tref = if n == 1 { (0..npairs).map(|_| mc.tscale[0] * rng.range(0.6, 2.0)).collect() } else { vec![] };
    Some(TransportCase { tag: tag.to_string(), mc, pures, states, pairs, limits, tref })
}

pub fn run(cfg: Config) -> i32 {
    use rayon::prelude::*;
    let mut m = Monitor::new(cfg.clone());
    let col = Collections::load();
    let ll = shipped("pcsaft", "loetgeringlin2018.json");
    m.note("pcsaft_records_with_viscosity_coefficients", json!(ll.len()));
    m.note("pets", json!("EntropyScaling is not implemented for Pets in this tree (impl commented out; ResidualModel::Pets panics) - not exercised"));

    // ---- job list (cheap descriptions), built in parallel into cases
    #[derive(Clone)]
    enum Job {
        TPcPure(usize),
        TPcBin(usize),
        TVrq(usize, usize),
        EPure(usize),
        EBin(usize),
        Loss,
    }
    let mut jobs = Vec::new();
    let (n_tp, n_tb, n_vrq, n_ep, n_eb, n_loss) = cfg.tier.pick((ll.len(), 120, 30, ll.len(), 40, 16), (12 * ll.len(), 3000, 600, 8 * ll.len(), 1000, 64));
    jobs.extend((0..n_tp).map(Job::TPcPure));
    jobs.extend((0..n_tb).map(Job::TPcBin));
    for n in [1usize, 2] {
        jobs.extend((0..n_vrq).map(|i| Job::TVrq(n, i)));
    }
    jobs.extend((0..n_ep).map(Job::EPure));
    jobs.extend((0..n_eb).map(Job::EBin));
    jobs.extend((0..n_loss).map(|_| Job::Loss));
    let (nstates, npairs) = cfg.tier.pick((6, 2), (12, 4));
    let loss_n = cfg.tier.pick(1500, 10000);
    let seed = cfg.seed;

    let cases: Vec<Case> = jobs
        .par_iter()
        .filter_map(|job| match job.clone() {
            Job::TPcPure(i) => {
                let mut rng = Rng::derive(seed, "c20-tp", i as u64);
                let rec = with_coefficients(&ll[i % ll.len()].record, &mut rng);
                transport_case("pcsaft-pure", "pcsaft", Spec::new(Kind::PcSaft, vec![rec]), &mut rng, nstates, npairs).map(Case::Transport)
            }
            Job::TPcBin(i) => {
                let mut rng = Rng::derive(seed, "c20-tb", i as u64);
                let (a, mut b) = (rng.below(ll.len()), rng.below(ll.len()));
                if a == b {
                    b = (b + 1) % ll.len();
                }
                let mut spec = Spec::new(Kind::PcSaft, vec![ll[a].record.clone(), ll[b].record.clone()]);
                if rng.bool(0.6) {
                    let k = rng.range(-0.06, 0.1);
                    spec.binary = Some(scalar_matrix(2, |_, _| json!({"k_ij": k}), json!({"k_ij": 0.0})));
                }
                transport_case("pcsaft-binary", "pcsaft", spec, &mut rng, nstates, npairs).map(Case::Transport)
            }
            Job::TVrq(n, i) => {
                let mut rng = Rng::derive(seed, "c20-vrq", (n * 1000 + i) as u64);
                let mut spec = random_spec(&col, "saftvrqmie", n, &mut rng)?;
                spec.pure = spec.pure.iter().map(|r| with_coefficients(r, &mut rng)).collect();
                let tag = if n == 1 { "saftvrqmie-pure" } else { "saftvrqmie-binary" };
                transport_case(tag, "saftvrqmie", spec, &mut rng, nstates, npairs).map(Case::Transport)
            }
            Job::EPure(i) => {
                let mut rng = Rng::derive(seed, "c20-ep", i as u64);
                let k = i % ll.len();
                let rec = with_coefficients(&ll[k].record, &mut rng);
                let mw = rec["molarweight"].as_f64()?;
                let mc = ModelCase::new("pcsaft", Spec::new(Kind::PcSaft, vec![rec])).ok()?;
                Some(Case::EstPure(EstPure { mc, mw }))
            }
            Job::EBin(i) => {
                let mut rng = Rng::derive(seed, "c20-eb", i as u64);
                let spec = random_spec(&col, "pcsaft", 2, &mut rng)?;
                let mc = ModelCase::new("pcsaft", spec).ok()?;
                Some(Case::EstBinary(EstBinary { mc }))
            }
            Job::Loss => Some(Case::Loss),
        })
        .collect();

    par_cases(&mut m, &cases, |m, idx, case| {
        let r = catch_unwind(AssertUnwindSafe(|| {
            let mut mm = m.fork();
            match case {
                Case::Transport(c) => check_transport(&mut mm, idx, c),
                Case::EstPure(c) => {
                    let mut rng = Rng::derive(seed, "c20-ep-run", idx);
                    let built = build_pure_sets(c, &mut rng);
                    if idx % 7 == 0 {
                        mm.sample(json!({"kind": "pure data sets", "model": c.mc.label(), "sets": built.iter().map(|b| json!({"name": b.name, "input": b.input, "expected_prediction": b.expect.as_ref().map(|e| jv(e))})).collect::<Vec<_>>()}));
                    }
                    let mut sets = Vec::new();
                    for b in &built {
                        if let Some(ds) = check_dataset(&mut mm, idx, &c.mc.spec, &c.mc.eos, b, &mut rng) {
                            sets.push(ds);
                        }
                    }
                    check_estimator(&mut mm, idx, &c.mc.spec, &c.mc.eos, &sets, &mut rng);
                }
                Case::EstBinary(c) => check_binary(&mut mm, idx, c, seed),
                Case::Loss => check_loss(&mut mm, idx, seed, loss_n),
            }
            mm
        }));
        match r {
            Ok(mm) => m.absorb(mm),
            Err(p) => {
                let msg = p.downcast_ref::<String>().cloned().or_else(|| p.downcast_ref::<&str>().map(|s| s.to_string())).unwrap_or_default();
                let what = match case {
                    Case::Transport(c) => c.tag.clone(),
                    Case::EstPure(_) => "estimator-pure".into(),
                    Case::EstBinary(_) => "estimator-binary".into(),
                    Case::Loss => "loss".into(),
                };
                m.check_bool("no panic", &format!("{what}|panic"), idx, false, || json!({"panic": msg}));
            }
        }
    });

    for (c, n) in [
        ("transport:X=ref*exp(ln_red)", 500),
        ("transport:correlation=closed form", 500),
        ("transport:same s_res => same reduced", 50),
        ("transport:mixture->pure x2=0", 20),
        ("estimator:predict=library call (unit)", 100),
        ("estimator:self-generated => cost 0", 100),
        ("estimator:Estimator::cost = cost_i w_i/sum(w)", 20),
        ("loss:closed form", 1000),
    ] {
        m.gate(m.clause_checked(c) >= n, &format!("fewer than {n} evaluations of '{c}'"));
    }
    for nm in ["vapor pressure", "vapor pressure (extrapolate)", "equilibrium liquid density"] {
        let n = m.notes.get(&format!("failed_points_reached:{nm}")).and_then(|v| v.as_u64()).unwrap_or(0);
        m.gate(n >= 20, &format!("failed points of '{nm}' (NaN / extrapolation branch) reached fewer than 20 times"));
    }
    m.finish(
        "transport: all PC-SAFT records of loetgeringlin2018 (shipped viscosity coefficients; synthetic diffusion / thermal-conductivity coefficients), random binaries of them, SAFT-VRQ Mie records with synthetic coefficients (pure, binary); fluid states T in [0.5,2.5] T_c, rho in (1e-6,0.9) rho_max; isentrope pairs by bisection on a second isotherm; dilute limits x2 = 1e-6, 1e-9, 1e-12, 0. estimator: every data-set type on random records (pure) / random non-associating binaries, with points that fail on purpose (T > T_c, liquid under tension); losses for |r| in [1e-6,1e3] of both signs and f in [1e-3,1e3]. distinct by hash of (model, inputs); non-trivial: |s_res| > 1e-3 R (transport), at least one finite prediction (data sets)",
        false,
        &[
            "reduced units of feos are K, Angstrom, ps, k_B, 1/N_A (SI 2019 values); the implied units of the data sets are Pa, kg/m3, mPa s, cm2/s, W/m/K",
            "entropy-scaling correlations: ln eta* = A+Bs+Cs^2+Ds^3, ln D* = A+Bs-C(1-e^s)s^2-Ds^4-Es^8, ln lambda* = A+Bs+C(1-e^s)+Ds^2 with s = s_res/(k_B m_mix), A mole-fraction weighted, B..E segment-fraction weighted",
            "Loss::Linear is the identity on the residual vector (signed); the robust losses are sqrt(f^2 rho(r^2/f^2)) >= 0",
            "softl1 / cauchy are evaluated by the library as sqrt(1+z)-1 and ln(1+z): a relative error of 4 eps (1+1/z) is attributed to cancellation, not counted as deviation",
            "self-generated binary VLE targets pass through the bubble/dew point solver: zero means <= 1e-5 (worst seen 3e-8)",
        ],
    )
}
