//! C16 — a uniform fluid is an exact solution of the discretised DFT in every geometry.
//!
//! For every functional family x bulk state x grid type x size x Lanczos setting a
//! profile with the bulk density everywhere and no external potential is built through
//! `DFTProfile::new` (and through the application-layer constructors with a zero
//! potential). Oracles: weighted densities equal the bulk weighted densities (vector
//! ones vanish), the Euler-Lagrange residual vanishes, the grand potential density is
//! -p, N_i = rho_i * integrate(1), `volume()` equals integrate(1) (and both equal the
//! closed-form volume of the domain), and the excess quantities reported by the
//! application layers (interfacial tension, solvation free energy, excess adsorption,
//! self solvation free energy, surface tension) vanish.
use crate::monitor::*;
use crate::prng::{hash_f64s, Rng};
use crate::zoo::*;
use feos_core::{Contributions, PhaseEquilibrium, ReferenceSystem, SolverOptions};
use feos_dft::adsorption::{ExternalPotential, Pore1D, Pore2D, Pore3D, PoreProfile, PoreSpecification};
use feos_dft::interface::PlanarInterface;
use feos_dft::solvation::{PairCorrelation, SolvationProfile};
use feos_dft::{verif_bulk_convolver, Axis, DFTProfile, Geometry, Grid, HelmholtzEnergyFunctional};
use ndarray::{Array, Array1, Array2, Axis as Ax, Dimension, Ix1, Ix2, Ix3, RemoveAxis};
use quantity::*;
use serde_json::{json, Value};
use std::f64::consts::PI;
use std::sync::Arc;

/// tolerance of the integral clauses (scaled deviations); measured worst 2e-13
const TOL: f64 = 1e-9;
/// tolerance of the pointwise convolution clauses (weighted densities, Euler-Lagrange residual,
/// grand potential density): round-off of the uniform density is amplified by the weight
/// functions in Fourier space up to ~EPSILON (pi R / dx)^2 (Kierlik-Rosinberg weights grow with
/// k^2); with dx >= 0.01 A the measured worst is 8e-11
const TOL_CONV: f64 = 1e-8;

#[derive(Clone, Debug)]
pub enum G {
    Cart1 { n: usize, l: f64 },
    Cart2 { n: [usize; 2], l: [f64; 2] },
    Cart3 { n: [usize; 3], l: [f64; 3] },
    Per2 { n: [usize; 2], l: [f64; 2], a: f64 },
    Per3 { n: [usize; 3], l: [f64; 3], a: [f64; 3] },
    Polar { n: usize, l: f64 },
    Spherical { n: usize, l: f64 },
    Cyl { n: [usize; 2], l: [f64; 2] },
}

/// how the profile is constructed
#[derive(Clone, Copy, Debug, PartialEq)]
enum Via {
    /// DFTProfile::new(grid, bulk, None, None, lanczos)
    Direct,
    /// Pore1D / Pore2D / Pore3D ::initialize with a zero potential
    Pore,
    /// SolvationProfile::new with a solute that does not interact
    Solvation,
    /// PlanarInterface::new(vle) (uniform vapour)
    Planar,
}

impl G {
    pub fn name(&self) -> &'static str {
        match self {
            G::Cart1 { .. } => "cartesian1",
            G::Cart2 { .. } => "cartesian2",
            G::Cart3 { .. } => "cartesian3",
            G::Per2 { .. } => "periodical2",
            G::Per3 { .. } => "periodical3",
            G::Polar { .. } => "polar",
            G::Spherical { .. } => "spherical",
            G::Cyl { .. } => "cylindrical",
        }
    }
    /// geometry of the first axis: the defect class of `Axis::volume`
    pub fn axis(&self) -> &'static str {
        match self {
            G::Polar { .. } | G::Cyl { .. } => "polar",
            G::Spherical { .. } => "spherical",
            _ => "cartesian",
        }
    }
    /// closed-form volume of the domain
    pub fn analytic_volume(&self) -> f64 {
        match self {
            G::Cart1 { l, .. } => *l,
            G::Cart2 { l, .. } => l[0] * l[1],
            G::Cart3 { l, .. } => l[0] * l[1] * l[2],
            G::Per2 { l, a, .. } => l[0] * l[1] * a.sin(),
            G::Per3 { l, a, .. } => {
                let (ca, cb, cg) = (a[0].cos(), a[1].cos(), a[2].cos());
                l[0] * l[1] * l[2] * (1.0 - ca * ca - cb * cb - cg * cg + 2.0 * ca * cb * cg).sqrt()
            }
            G::Polar { l, .. } => PI * l * l,
            G::Spherical { l, .. } => 4.0 / 3.0 * PI * l.powi(3),
            G::Cyl { l, .. } => PI * l[0] * l[0] * l[1],
        }
    }
    pub fn grid(&self) -> Grid {
        let len = |l: f64| Length::from_reduced(l);
        let cart = |n: usize, l: f64| Axis::new_cartesian(n, len(l), None);
        match self {
            G::Cart1 { n, l } => Grid::Cartesian1(cart(*n, *l)),
            G::Cart2 { n, l } => Grid::Cartesian2(cart(n[0], l[0]), cart(n[1], l[1])),
            G::Cart3 { n, l } => Grid::Cartesian3(cart(n[0], l[0]), cart(n[1], l[1]), cart(n[2], l[2])),
            G::Per2 { n, l, a } => Grid::Periodical2(cart(n[0], l[0]), cart(n[1], l[1]), *a * RADIANS),
            G::Per3 { n, l, a } => Grid::Periodical3(
                cart(n[0], l[0]),
                cart(n[1], l[1]),
                cart(n[2], l[2]),
                [a[0] * RADIANS, a[1] * RADIANS, a[2] * RADIANS],
            ),
            G::Polar { n, l } => Grid::Polar(Axis::new_polar(*n, len(*l))),
            G::Spherical { n, l } => Grid::Spherical(Axis::new_spherical(*n, len(*l))),
            G::Cyl { n, l } => Grid::Cylindrical {
                r: Axis::new_polar(n[0], len(l[0])),
                z: cart(n[1], l[1]),
            },
        }
    }
    pub fn json(&self) -> Value {
        json!(format!("{:?}", self))
    }
    pub fn hashv(&self) -> Vec<f64> {
        match self {
            G::Cart1 { n, l } | G::Polar { n, l } | G::Spherical { n, l } => vec![*n as f64, *l],
            G::Cart2 { n, l } | G::Cyl { n, l } => vec![n[0] as f64, n[1] as f64, l[0], l[1]],
            G::Per2 { n, l, a } => vec![n[0] as f64, n[1] as f64, l[0], l[1], *a],
            G::Cart3 { n, l } => vec![n[0] as f64, n[1] as f64, n[2] as f64, l[0], l[1], l[2]],
            G::Per3 { n, l, a } => vec![n[0] as f64, n[1] as f64, n[2] as f64, l[0], l[1], l[2], a[0], a[1], a[2]],
        }
    }
}

struct ModelState {
    tag: String,
    spec: Spec,
    func: Arc<Model>,
    t: f64,
    /// partial densities 1/A^3
    rho: Vec<f64>,
    liquid_like: bool,
    tc: Option<f64>,
}

struct Case {
    ms: usize,
    g: G,
    via: Via,
    lanczos: Option<i32>,
}

pub const FMT_NAMES: [&str; 3] = ["wb", "kr", "aswb"];

/// (family for random_spec, component counts)
const FAMILIES: &[(&str, &[usize])] = &[
    ("fmt", &[1, 2, 3]),
    ("pcsaft", &[1, 2, 3]),
    ("pcsaft-assoc", &[1, 2]),
    ("pcsaft-crossassoc", &[2]),
    ("pcsaft-polar", &[1, 2]),
    ("gc-pcsaft", &[1, 2]),
    ("pets", &[1, 2, 3]),
    ("saftvrqmie", &[1, 2]),
];

pub fn fmt_spec(rng: &mut Rng, n: usize, fmt: u8) -> Spec {
    let pure: Vec<Value> = (0..n)
        .map(|k| json!({"identifier": {"name": format!("hs{k}")}, "molarweight": 1.0, "model_record": {"sigma": rng.range(2.5, 4.5)}}))
        .collect();
    let mut s = Spec::new(Kind::Fmt, pure);
    s.opts.fmt = fmt;
    s
}

/// functional models with a liquid-like and a vapour-like bulk state each
fn build_models(seed: u64, reps: usize) -> Vec<ModelState> {
    use rayon::prelude::*;
    let col = Collections::load();
    let mut jobs = Vec::new();
    for (fi, (fam, ns)) in FAMILIES.iter().enumerate() {
        for &n in ns.iter() {
            for fmt in 0..3u8 {
                for r in 0..reps {
                    jobs.push((fi, *fam, n, fmt, r));
                }
            }
        }
    }
    jobs.par_iter()
        .flat_map(|&(fi, fam, n, fmt, r)| {
            let mut rng = Rng::derive(seed, "c16-model", (fi * 10000 + n * 1000 + fmt as usize * 100 + r) as u64);
            let mut out = Vec::new();
            let (spec, tscale) = if fam == "fmt" {
                (fmt_spec(&mut rng, n, fmt), vec![300.0; n])
            } else {
                let Some(es) = random_spec(&col, fam, n, &mut rng) else {
                    return out;
                };
                if crate::c17::has_ring(&es) {
                    // the library refuses cyclic bond graphs ("Cycle in molecular structure detected!")
                    return out;
                }
                let Ok(mc) = ModelCase::new(fam, es.clone()) else {
                    return out;
                };
                let Some(fs) = functional_of(&es, fmt) else {
                    return out;
                };
                (fs, mc.tscale)
            };
            let Ok(func) = spec.build() else {
                return out;
            };
            let tag = format!("{}-{}-{}", fam, if n == 1 { "pure" } else { "mix" }, FMT_NAMES[fmt as usize]);
            for liquid_like in [true, false] {
                let x = rng.simplex(n, 0.1, 1e-3);
                let ts: f64 = x.iter().zip(&tscale).map(|(x, t)| x * t).sum();
                let t = ts * rng.range(0.55, 1.4);
                let frac = if liquid_like {
                    rng.range(0.45, 0.85)
                } else {
                    rng.log_range(1e-5, 0.05)
                };
                let rho_tot = if fam == "fmt" {
                    // packing fraction 0.45*frac/0.85 (liquid-like up to 0.45)
                    let d3: f64 = x
                        .iter()
                        .zip(&spec.pure)
                        .map(|(x, p)| x * p["model_record"]["sigma"].as_f64().unwrap().powi(3))
                        .sum();
                    frac * 0.53 / (std::f64::consts::FRAC_PI_6 * d3)
                } else {
                    frac * max_density(&func, &x)
                };
                out.push(ModelState {
                    tag: tag.clone(),
                    spec: spec.clone(),
                    func: func.clone(),
                    t,
                    rho: x.iter().map(|x| x * rho_tot).collect(),
                    liquid_like,
                    tc: (n == 1 && fam != "fmt").then_some(tscale[0]),
                });
            }
            out
        })
        .collect()
}

fn pick_n1(rng: &mut Rng, thorough: bool) -> usize {
    const SIZES: [usize; 14] = [16, 17, 32, 50, 64, 100, 128, 256, 500, 512, 1024, 2048, 3001, 4096];
    if rng.bool(0.8) {
        SIZES[rng.below(if thorough { 14 } else { 12 })]
    } else {
        16 + rng.below(if thorough { 4081 } else { 1200 })
    }
}

fn build_cases(seed: u64, ms: &[ModelState], thorough: bool) -> Vec<Case> {
    let mut cases = Vec::new();
    for (i, _) in ms.iter().enumerate() {
        let mut rng = Rng::derive(seed, "c16-grid", i as u64);
        let len = |rng: &mut Rng| rng.log_range(3.0, 400.0);
        let n2 = |rng: &mut Rng| 4 + rng.below(if thorough { 93 } else { 45 });
        let n3 = |rng: &mut Rng| 3 + rng.below(if thorough { 30 } else { 14 });
        let ang = |rng: &mut Rng| rng.range(50.0, 130.0) * PI / 180.0;
        let mut per3 = || loop {
            let a = [ang(&mut rng), ang(&mut rng), ang(&mut rng)];
            let (ca, cb, cg) = (a[0].cos(), a[1].cos(), a[2].cos());
            if 1.0 - ca * ca - cb * cb - cg * cg + 2.0 * ca * cb * cg > 0.05 {
                return a;
            }
        };
        let a3 = per3();
        let mut rng = Rng::derive(seed, "c16-grid2", i as u64);
        // 1D axes: grid spacing of at least 0.01 A (see TOL_CONV)
        let nl = |rng: &mut Rng| {
            let n = pick_n1(rng, thorough);
            (n, len(rng).max(0.01 * n as f64))
        };
        let (nc, lc) = nl(&mut rng);
        let (np, lp) = nl(&mut rng);
        let (ns, ls) = nl(&mut rng);
        let mut gs: Vec<(G, Via)> = vec![
            (G::Cart1 { n: nc, l: lc }, Via::Direct),
            (G::Polar { n: np, l: lp }, Via::Direct),
            (G::Spherical { n: ns, l: ls }, Via::Direct),
            (G::Cart2 { n: [n2(&mut rng), n2(&mut rng)], l: [len(&mut rng), len(&mut rng)] }, Via::Direct),
            (
                G::Per2 { n: [n2(&mut rng), n2(&mut rng)], l: [len(&mut rng), len(&mut rng)], a: ang(&mut rng) },
                Via::Direct,
            ),
            (G::Cyl { n: [n2(&mut rng), n2(&mut rng)], l: [len(&mut rng), len(&mut rng)] }, Via::Direct),
            (
                G::Cart3 { n: [n3(&mut rng), n3(&mut rng), n3(&mut rng)], l: [len(&mut rng), len(&mut rng), len(&mut rng)] },
                Via::Direct,
            ),
            (
                G::Per3 { n: [n3(&mut rng), n3(&mut rng), n3(&mut rng)], l: [len(&mut rng), len(&mut rng), len(&mut rng)], a: a3 },
                Via::Direct,
            ),
        ];
        // application-layer constructors (their Lanczos setting is fixed to Some(1))
        match i % 4 {
            0 => {
                let (n, l) = nl(&mut rng);
                gs.push((G::Cart1 { n, l }, Via::Pore))
            }
            1 => {
                let (n, l) = nl(&mut rng);
                gs.push((G::Polar { n, l }, Via::Pore))
            }
            2 => {
                let (n, l) = nl(&mut rng);
                gs.push((G::Spherical { n, l }, Via::Pore))
            }
            _ => gs.push((
                G::Per2 { n: [n2(&mut rng), n2(&mut rng)], l: [len(&mut rng), len(&mut rng)], a: ang(&mut rng) },
                Via::Pore,
            )),
        }
        match i % 3 {
            0 => gs.push((
                G::Per3 { n: [n3(&mut rng), n3(&mut rng), n3(&mut rng)], l: [len(&mut rng), len(&mut rng), len(&mut rng)], a: a3 },
                Via::Pore,
            )),
            1 => gs.push((
                // even sizes: the solute is moved to the box centre, which is a grid point for odd n
                G::Cart3 { n: [n3(&mut rng) / 2 * 2 + 2, n3(&mut rng) / 2 * 2 + 2, n3(&mut rng) / 2 * 2 + 2], l: [len(&mut rng), len(&mut rng), len(&mut rng)] },
                Via::Solvation,
            )),
            _ => {
                let (n, l) = nl(&mut rng);
                gs.push((G::Cart1 { n, l }, Via::Planar))
            }
        }
        for (k, (g, via)) in gs.into_iter().enumerate() {
            let lanczos = match via {
                Via::Direct => match (i + k) % 4 {
                    0 => None,
                    j => Some(j as i32),
                },
                Via::Planar => None,
                _ => Some(1),
            };
            cases.push(Case { ms: i, g, via, lanczos });
        }
    }
    cases
}

pub fn run(cfg: Config) -> i32 {
    let mut m = Monitor::new(cfg.clone());
    std::panic::set_hook(Box::new(|_| {}));
    let thorough = cfg.tier == Tier::Thorough;
    let reps = cfg.tier.pick(2, 8);
    let ms = build_models(cfg.seed, reps);
    let cases = build_cases(cfg.seed, &ms, thorough);
    par_cases(&mut m, &cases, |m, idx, c| {
        let r = std::panic::catch_unwind(std::panic::AssertUnwindSafe(|| {
            let mut local = m.fork();
            run_case(&mut local, idx, c, &ms[c.ms]);
            local
        }));
        match r {
            Ok(local) => m.absorb(local),
            Err(_) => {
                let msx = &ms[c.ms];
                m.check_bool("no panic", &format!("panic|{}|{}", c.g.name(), msx.tag), idx, false, || {
                    json!({"model": msx.spec, "T": msx.t, "rho": msx.rho, "grid": c.g.json(), "via": format!("{:?}", c.via), "lanczos": c.lanczos})
                });
            }
        }
    });
    for g in ["cartesian1", "cartesian2", "cartesian3", "periodical2", "periodical3", "polar", "spherical", "cylindrical"] {
        m.gate(m.families.keys().any(|k| k.ends_with(g)), &format!("no case on grid {g}"));
    }
    for (f, _) in FAMILIES {
        m.gate(m.families.keys().any(|k| k.starts_with(f)), &format!("family {f} produced no case"));
    }
    m.gate(m.clause_checked("weighted densities == bulk") >= 200, "fewer than 200 profiles checked");
    m.finish(
        "random functionals (FMT x3 versions, PC-SAFT pure/mixture/associating/cross-associating/polar, gc-PC-SAFT without rings, PeTS, SAFT-VRQ Mie; pure and mixtures) x {liquid-like, vapour-like} bulk state x {Cartesian1/2/3, Periodical2/3 with random angles, Polar, Spherical, Cylindrical} with random sizes (1D 16..4096 incl. non powers of two, 2D 4..96, 3D 3..32 per axis), lengths 3..400 A (grid spacing >= 0.01 A) and Lanczos None/1/2/3, built by DFTProfile::new without potential and through Pore1D/2D/3D::initialize, SolvationProfile::new, PoreProfile/SolvationProfile/PairCorrelation::solve_inplace, PlanarInterface::new(vle).solve with zero potential; distinct by hash of (model, state, grid, lanczos, constructor); every case is non-trivial",
        false,
        &[
            "the bulk equation of state of the same functional (pressure, bulk weighted densities from the k=0 weight constants) is the oracle",
            "Cartesian Pore1D axes carry a deliberate potential_offset that volume() excludes: the volume clause is not applied there",
            "the functionals resolve densities only to a few ulp of 1/A^3 (the PC-SAFT chain functionals regularise lambda by +EPSILON, which shifts f - sum rho dF/drho by (m-1) EPSILON kT against the bulk pressure): the clauses that compare with the bulk pressure carry an absolute allowance of 16 EPSILON sum(m) kT; the pointwise comparison with the same functional evaluated on the bulk weighted densities carries none",
            "cyclic bond graphs (gc-PC-SAFT ring molecules) are refused by the library with a panic and are not generated",
        ],
    )
}

fn bulk_state(ms: &ModelState) -> Option<St> {
    let n = Array1::from_vec(ms.rho.clone());
    state_tvn(&ms.func, ms.t, 1.0, &n)
}

fn run_case(m: &mut Monitor, idx: u64, c: &Case, ms: &ModelState) {
    let Some(st) = bulk_state(ms) else {
        m.skip("profile", "bulk state not constructible");
        return;
    };
    let mut hv = c.g.hashv();
    hv.push(ms.t);
    hv.extend(&ms.rho);
    hv.push(c.lanczos.map_or(0.0, |l| l as f64));
    hv.push(c.via as u8 as f64);
    m.case(&format!("{}|{}", ms.tag, c.g.name()), hash_f64s(&ms.spec.label(), &hv), true);
    if idx % 97 == 0 {
        m.sample(json!({"model": ms.spec.label(), "tag": ms.tag, "T": ms.t, "rho": ms.rho, "grid": c.g.json(), "via": format!("{:?}", c.via), "lanczos": c.lanczos}));
    }
    let nseg = ms.func.component_index().len();
    let ctx = Ctx { bar: oracle_bar(&st), idx, c, ms, st: &st };
    match c.via {
        Via::Direct => match &c.g {
            G::Cart1 { .. } | G::Polar { .. } => {
                let p = DFTProfile::<Ix1, Model>::new(c.g.grid(), &st, None, None, c.lanczos);
                check_profile(m, &ctx, &p, true);
                check_pore_layer(m, &ctx, p, true);
            }
            G::Spherical { .. } => {
                let p = DFTProfile::<Ix1, Model>::new(c.g.grid(), &st, None, None, c.lanczos);
                check_profile(m, &ctx, &p, true);
                // PairCorrelation needs a pair potential: not defined for heterosegmented functionals
                if nseg == st.eos.components_count() {
                    check_pair_correlation(m, &ctx, p.clone());
                }
                check_pore_layer(m, &ctx, p, true);
            }
            G::Cart2 { .. } | G::Per2 { .. } | G::Cyl { .. } => {
                let p = DFTProfile::<Ix2, Model>::new(c.g.grid(), &st, None, None, c.lanczos);
                check_profile(m, &ctx, &p, true);
                check_pore_layer(m, &ctx, p, true);
            }
            G::Cart3 { .. } => {
                let p = DFTProfile::<Ix3, Model>::new(c.g.grid(), &st, None, None, c.lanczos);
                check_profile(m, &ctx, &p, true);
                check_solvation_layer(m, &ctx, SolvationProfile { profile: p, grand_potential: None, solvation_free_energy: None });
            }
            G::Per3 { .. } => {
                let p = DFTProfile::<Ix3, Model>::new(c.g.grid(), &st, None, None, c.lanczos);
                check_profile(m, &ctx, &p, true);
                check_pore_layer(m, &ctx, p, true);
            }
        },
        Via::Pore => match &c.g {
            G::Cart1 { n, l } => {
                // pore_size/2 is the axis length; the zero potential is passed explicitly
                let pore = Pore1D::new(Geometry::Cartesian, Length::from_reduced(2.0 * l), ExternalPotential::HardWall { sigma_ss: 3.0 }, Some(*n), None);
                let zero = Array2::zeros((nseg, *n));
                match pore.initialize(&st, None, Some(&zero)) {
                    Ok(p) => {
                        check_profile(m, &ctx, &p.profile, false);
                        check_pore_layer(m, &ctx, p.profile, false);
                    }
                    Err(_) => m.skip("profile", "Pore1D::initialize returned Err"),
                }
            }
            G::Polar { n, l } | G::Spherical { n, l } => {
                let geo = if matches!(c.g, G::Polar { .. }) { Geometry::Cylindrical } else { Geometry::Spherical };
                // zero potential through the regular constructor path (ExternalPotential::Custom)
                let pore = Pore1D::new(geo, Length::from_reduced(*l), ExternalPotential::Custom(Array2::zeros((nseg, *n))), Some(*n), None);
                match pore.initialize(&st, None, None) {
                    Ok(p) => {
                        let umax = p.profile.external_potential.iter().fold(0.0f64, |a, &b| a.max(b.abs()));
                        if umax > 0.0 {
                            m.skip("profile", "Pore1D with Custom(0) potential is not potential-free");
                            return;
                        }
                        check_profile(m, &ctx, &p.profile, true);
                        check_pore_layer(m, &ctx, p.profile, true);
                    }
                    Err(_) => m.skip("profile", "Pore1D::initialize returned Err"),
                }
            }
            G::Per2 { n, l, a } => {
                let pore = Pore2D::new([Length::from_reduced(l[0]), Length::from_reduced(l[1])], *a * RADIANS, *n);
                let zero = Array::zeros((nseg, n[0], n[1]));
                match pore.initialize(&st, None, Some(&zero)) {
                    Ok(p) => {
                        check_profile(m, &ctx, &p.profile, true);
                        check_pore_layer(m, &ctx, p.profile, true);
                    }
                    Err(_) => m.skip("profile", "Pore2D::initialize returned Err"),
                }
            }
            G::Per3 { n, l, a } => {
                let pore = Pore3D::new(
                    [Length::from_reduced(l[0]), Length::from_reduced(l[1]), Length::from_reduced(l[2])],
                    *n,
                    Length::from_reduced(Array2::zeros((3, 1))),
                    Array1::from_elem(1, 3.0),
                    Array1::from_elem(1, 0.0),
                    Some([a[0] * RADIANS, a[1] * RADIANS, a[2] * RADIANS]),
                    None,
                    None,
                );
                let zero = Array::zeros((nseg, n[0], n[1], n[2]));
                match pore.initialize(&st, None, Some(&zero)) {
                    Ok(p) => {
                        check_profile(m, &ctx, &p.profile, true);
                        check_pore_layer(m, &ctx, p.profile, true);
                    }
                    Err(_) => m.skip("profile", "Pore3D::initialize returned Err"),
                }
            }
            _ => unreachable!(),
        },
        Via::Solvation => {
            let G::Cart3 { n, l } = &c.g else { unreachable!() };
            // one solute site with epsilon = 0 and a cut-off radius below every site-grid distance
            let coords = Length::from_reduced(Array2::from_shape_fn((3, 1), |(i, _)| 0.123 * l[i]));
            let sp = SolvationProfile::new(
                &st,
                *n,
                coords,
                Array1::from_elem(1, 3.0),
                Array1::from_elem(1, 0.0),
                Some([Length::from_reduced(l[0]), Length::from_reduced(l[1]), Length::from_reduced(l[2])]),
                Some(Length::from_reduced(1e-9)),
                None,
            );
            match sp {
                Ok(sp) => {
                    let umax = sp.profile.external_potential.iter().fold(0.0f64, |a, &b| if b.is_nan() { f64::INFINITY } else { a.max(b.abs()) });
                    if umax > 0.0 {
                        m.skip("profile", "SolvationProfile potential not zero");
                        return;
                    }
                    check_profile(m, &ctx, &sp.profile, true);
                    check_solvation_layer(m, &ctx, sp);
                }
                Err(_) => m.skip("profile", "SolvationProfile::new returned Err"),
            }
        }
        Via::Planar => {
            let G::Cart1 { n, l } = &c.g else { unreachable!() };
            let Some(tc) = ms.tc else {
                m.skip("planar interface", "mixture or hard spheres: no pure VLE");
                return;
            };
            let t = Temperature::from_reduced(tc * (0.55 + 0.4 * ((idx % 10) as f64) / 10.0));
            let Ok(vle) = PhaseEquilibrium::pure(&ms.func, t, None, SolverOptions::default()) else {
                m.skip("planar interface", "pure VLE not converged");
                return;
            };
            let mut pi = PlanarInterface::new(&vle, *n, Length::from_reduced(*l));
            let stv = vle.vapor().clone();
            let ctx = Ctx { bar: oracle_bar(&stv), idx, c, ms, st: &stv };
            check_profile(m, &ctx, &pi.profile, true);
            if pi.solve_inplace(None, false).is_err() {
                m.skip("planar interface", "solver returned Err");
                return;
            }
            let (p, rho, tt) = prt(&stv);
            let v = c.g.analytic_volume();
            let gam = pi.surface_tension.unwrap().to_reduced();
            let sc = p.abs().max(rho * tt) * v;
            check_noise(m, &ctx, "application layer: surface tension == 0", &format!("planar-tension|{}|{}", c.g.name(), ms.tag), gam.abs() / sc, || {
                ctx.detail(json!({"surface_tension": gam, "scale_pV": sc}))
            });
            let re = pi.equimolar_radius.unwrap().to_reduced();
            m.check("application layer: excess adsorption == 0", &format!("planar-equimolar|{}|{}", if nseg == 1 { "homosegmented" } else { "heterosegmented" }, ms.tag), idx, re.abs() / v, TOL, || {
                ctx.detail(json!({"equimolar_radius": re, "L": v}))
            });
        }
    }
}

struct Ctx<'a> {
    /// absolute allowance of the bulk oracle, scaled by max(|p|, rho T)
    bar: f64,
    idx: u64,
    c: &'a Case,
    ms: &'a ModelState,
    st: &'a St,
}

impl Ctx<'_> {
    fn detail(&self, extra: Value) -> Value {
        json!({"model": self.ms.spec, "tag": self.ms.tag, "T": self.st.temperature.to_reduced(), "partial_density": self.st.partial_density.to_reduced().to_vec(),
               "liquid_like": self.ms.liquid_like, "grid": self.c.g.json(), "via": format!("{:?}", self.c.via), "lanczos": self.c.lanczos, "observed": extra})
    }
    fn sig(&self, clause: &str) -> String {
        format!("{}|{}|{}", clause, self.c.g.name(), self.ms.tag)
    }
    /// signature of everything that depends on `volume()`
    fn vsig(&self, what: &str) -> String {
        format!("volume|{}|{}|{}", self.c.g.axis(), self.c.g.name(), what)
    }
}

/// grand potential density of the homogeneous fluid from the same functional code
/// (functional derivative on the bulk convolver), reduced pressure units
fn bulk_omega(func: &Arc<Model>, t: f64, rho_seg: &Array1<f64>) -> Option<f64> {
    let bc = verif_bulk_convolver(func.weight_functions(t));
    let (f, dfdrho) = func.functional_derivative(t, rho_seg, &bc).ok()?;
    let mut om = f.into_scalar();
    for (s, &mm) in func.m().iter().enumerate() {
        om -= (dfdrho[s] + mm) * rho_seg[s];
    }
    let bl = func.bond_lengths(t);
    for seg in bl.node_indices() {
        let n = bl.neighbors(seg).count();
        om += rho_seg[seg.index()] * 0.5 * n as f64;
    }
    Some(om * t)
}

/// Absolute allowance of the bulk oracle, scaled by max(|p|, rho T): the functionals resolve
/// densities only to a few ulp of 1/A^3 (the chain functionals regularise lambda by +EPSILON,
/// which shifts f - rho df/drho by (m-1) EPSILON kT against the bulk pressure).
fn oracle_bar(st: &St) -> f64 {
    let (pr, rho_tot, t) = prt(st);
    let msum: f64 = st.eos.m().iter().sum();
    16.0 * f64::EPSILON * msum * t / pr.abs().max(rho_tot * t)
}

/// deviation of an Omega-type quantity beyond the allowance of the bulk oracle
fn beyond(d: f64, bar: f64) -> Option<f64> {
    if d.is_nan() {
        Some(f64::NAN)
    } else {
        Some((d - bar).max(0.0))
    }
}

fn check_noise<F: FnOnce() -> Value>(m: &mut Monitor, x: &Ctx, clause: &str, sig: &str, d: f64, detail: F) {
    match beyond(d, x.bar) {
        Some(d) => {
            m.check(clause, sig, x.idx, d, TOL, detail);
        }
        None => m.skip(clause, "bulk pressure round-off > tolerance (low density)"),
    }
}

/// (pressure, total density, temperature) reduced
fn prt(st: &St) -> (f64, f64, f64) {
    (
        st.pressure(Contributions::Total).to_reduced(),
        st.density.to_reduced(),
        st.temperature.to_reduced(),
    )
}

fn ones<D: Dimension, F>(p: &DFTProfile<D, F>) -> Array<f64, D>
where
    D::Larger: Dimension<Smaller = D>,
{
    let rho = p.density.to_reduced();
    Array::ones(rho.index_axis(Ax(0), 0).raw_dim())
}

fn check_profile<D>(m: &mut Monitor, x: &Ctx, p: &DFTProfile<D, Model>, volume_clause: bool)
where
    D: Dimension + RemoveAxis + 'static,
    D::Larger: Dimension<Smaller = D>,
    D::Smaller: Dimension<Larger = D>,
    <D::Larger as Dimension>::Larger: Dimension<Smaller = D::Larger>,
{
    let st = x.st;
    let func = &st.eos;
    let (pr, rho_tot, t) = prt(st);
    let pd = st.partial_density.to_reduced();
    let ci = func.component_index().into_owned();
    let rho_seg = ci.mapv(|i| pd[i]);
    let dim = p.grid.axes().len();
    let idx = x.idx;

    // the profile itself is uniform
    let rho = p.density.to_reduced();
    let mut dev = 0.0f64;
    for (s, r) in rho.outer_iter().enumerate() {
        for v in r.iter() {
            dev = dev.max((v - rho_seg[s]).abs() / rho_seg[s]);
        }
    }
    m.check("initial density == bulk", &x.sig("init"), idx, dev, TOL, || x.detail(json!({"max_rel_dev": dev})));

    // weighted densities
    let wfs = func.weight_functions(t);
    let layout: Vec<[usize; 5]> = wfs
        .iter()
        .map(|w| {
            let [sc, vc, sf, vf] = w.as_slice();
            [w.n_weighted_densities(0), sc.len(), vc.len(), sf.len(), vf.len()]
        })
        .collect();
    let bulk_wd = verif_bulk_convolver(wfs).weighted_densities(&rho_seg);
    match p.weighted_densities() {
        Ok(wd) => {
            let mut worst = (0.0f64, 0usize, 0usize);
            let mut nrows = 0usize;
            let mut shape_ok = wd.len() == bulk_wd.len();
            for (k, (w, b)) in wd.iter().zip(&bulk_wd).enumerate() {
                let [n0, sc, vc, sf, vf] = layout[k];
                let nseg = ci.len();
                let nloc_sc = n0 - sf; // local + scalar component rows
                let scale_all = b.iter().fold(0.0f64, |a, v| a.max(v.abs()));
                // expected rows
                let mut expect: Vec<(f64, f64)> = Vec::new(); // (value, scale)
                for r in 0..nloc_sc {
                    expect.push((b[r], b[r].abs()));
                }
                for _ in 0..vc * nseg * dim {
                    expect.push((0.0, scale_all));
                }
                for r in 0..sf {
                    expect.push((b[nloc_sc + r], b[nloc_sc + r].abs()));
                }
                for _ in 0..vf * dim {
                    expect.push((0.0, scale_all));
                }
                let _ = sc;
                if expect.len() != w.shape()[0] {
                    shape_ok = false;
                    continue;
                }
                for (r, row) in w.outer_iter().enumerate() {
                    let (e, s) = expect[r];
                    let s = s.max(1e-3 * scale_all).max(f64::MIN_POSITIVE);
                    let mut d = 0.0f64;
                    for v in row.iter() {
                        let dv = (v - e).abs() / s;
                        d = if dv.is_nan() { f64::NAN } else { d.max(dv) };
                        if d.is_nan() {
                            break;
                        }
                    }
                    nrows += 1;
                    if d > worst.0 || d.is_nan() {
                        worst = (d, k, r);
                    }
                }
            }
            m.check_bool("weighted densities layout", &x.sig("wd-layout"), idx, shape_ok, || x.detail(json!({"layout": layout})));
            m.count("weighted_density_rows_checked", nrows as u64);
            m.check("weighted densities == bulk", &x.sig("wd"), idx, worst.0, TOL_CONV, || {
                x.detail(json!({"max_scaled_dev": fnum(worst.0), "contribution": worst.1, "row": worst.2}))
            });
        }
        Err(_) => m.skip("weighted densities == bulk", "returned Err"),
    }

    // Euler-Lagrange residual, plain and logarithmic
    for log in [false, true] {
        let clause = if log { "Euler-Lagrange residual (log) == 0" } else { "Euler-Lagrange residual == 0" };
        match p.residual(log) {
            Ok((res, res_bulk, _)) => {
                let mut d = 0.0f64;
                for (s, r) in res.outer_iter().enumerate() {
                    let sc = if log { 1.0 } else { rho_seg[s] };
                    for v in r.iter() {
                        let dv = v.abs() / sc;
                        if dv.is_nan() {
                            d = f64::NAN;
                        } else if !d.is_nan() {
                            d = d.max(dv);
                        }
                    }
                }
                for (s, v) in res_bulk.iter().enumerate() {
                    let dv = v.abs() / rho_seg[s];
                    if !d.is_nan() {
                        d = d.max(dv);
                    }
                }
                m.check(clause, &x.sig(if log { "residual-log" } else { "residual" }), idx, d, TOL_CONV, || x.detail(json!({"max_scaled_residual": fnum(d)})));
            }
            Err(_) => {
                m.check_bool(clause, &x.sig("residual-err"), idx, false, || x.detail(json!("residual returned Err")));
            }
        }
    }

    // grand potential density == -p
    let psc = pr.abs().max(rho_tot * t);
    let bulk = bulk_omega(func, t, &rho_seg);
    let bar = x.bar;
    match p.grand_potential_density() {
        Ok(om) => {
            let om = om.to_reduced();
            let mut d = 0.0f64;
            let mut db = 0.0f64;
            for v in om.iter() {
                let dv = (v + pr).abs() / psc;
                if dv.is_nan() {
                    d = f64::NAN;
                    break;
                }
                d = d.max(dv);
                if let Some(b) = bulk {
                    db = db.max((v - b).abs() / psc);
                }
            }
            if bulk.is_some() {
                m.check("grand potential density == same functional on bulk weighted densities", &x.sig("omega-bulk"), idx, db, TOL_CONV, || {
                    x.detail(json!({"max_scaled_dev": fnum(db), "omega_bulk": bulk, "omega_first": om.iter().next()}))
                });
            }
            m.check("grand potential density == -p", &x.sig("omega"), idx, beyond(d, bar).unwrap(), TOL_CONV, || {
                x.detail(json!({"max_scaled_dev": fnum(d), "p": pr, "omega_first": om.iter().next(), "allowance": bar}))
            });
            m.count("omega_states_with_allowance_above_tol", (bar > TOL) as u64);
        }
        Err(_) => {
            m.check_bool("grand potential density == -p", &x.sig("omega-err"), idx, false, || x.detail(json!("returned Err")));
        }
    }

    // integrate(1), moles, volume
    let one = Dimensionless::from_reduced(ones(p));
    let v_int = p.integrate(&one).to_reduced();
    let v_ana = x.c.g.analytic_volume();
    if x.c.via == Via::Pore && matches!(x.c.g, G::Cart1 { .. }) {
        // Pore1D Cartesian: axis length = pore_size/2 + potential_offset (by design)
        m.check_bool("integration weights sum to the domain volume", &format!("weights|{}", x.c.g.name()), idx, v_int > v_ana && v_int < v_ana + 2.0 * 10.0, || {
            x.detail(json!({"integrate_1": v_int, "half_pore": v_ana}))
        });
    } else {
        m.check("integration weights sum to the domain volume", &format!("weights|{}", x.c.g.name()), idx, crate::fd::serr(v_int, v_ana, 0.0), TOL, || {
            x.detail(json!({"integrate_1": v_int, "closed_form": v_ana}))
        });
    }
    let nmol = p.moles().to_reduced();
    let mut d = 0.0f64;
    for i in 0..nmol.len() {
        d = d.max(crate::fd::serr(nmol[i], pd[i] * v_int, 0.0));
    }
    m.check("N_i == rho_i * integrate(1)", &x.sig("moles"), idx, d, TOL, || x.detail(json!({"moles": nmol.to_vec(), "integrate_1": v_int})));
    match p.grand_potential() {
        Ok(om) => {
            let om = om.to_reduced();
            match beyond((om + pr * v_int).abs() / (psc * v_int), bar) {
                Some(d) => {
                    m.check("Omega == -p * integrate(1)", &x.sig("Omega"), idx, d, TOL, || x.detail(json!({"Omega": om, "p": pr, "integrate_1": v_int, "allowance": bar})));
                }
                None => m.skip("Omega == -p * integrate(1)", "bulk pressure round-off > tolerance (low density)"),
            }
        }
        Err(_) => m.skip("Omega == -p * integrate(1)", "returned Err"),
    }
    if volume_clause {
        let vol = p.volume().to_reduced();
        m.check("volume() == integrate(1)", &x.vsig("direct"), idx, crate::fd::serr(vol, v_int, 0.0), TOL, || {
            x.detail(json!({"volume": vol, "integrate_1": v_int, "ratio": vol / v_int}))
        });
    } else {
        m.skip("volume() == integrate(1)", "axis with potential_offset (excluded by design)");
    }
}

/// PoreProfile on top of a uniform profile: solve (must return at once) and report
fn check_pore_layer<D>(m: &mut Monitor, x: &Ctx, p: DFTProfile<D, Model>, volume_clause: bool)
where
    D: Dimension + RemoveAxis + 'static,
    D::Larger: Dimension<Smaller = D>,
    D::Smaller: Dimension<Larger = D>,
    <D::Larger as Dimension>::Larger: Dimension<Smaller = D::Larger>,
{
    let (pr, rho_tot, t) = prt(x.st);
    let psc = pr.abs().max(rho_tot * t);
    let one = Dimensionless::from_reduced(ones(&p));
    let v_int = p.integrate(&one).to_reduced();
    let mut pore = PoreProfile { profile: p, grand_potential: None, interfacial_tension: None };
    if pore.solve_inplace(None, false).is_err() {
        m.check_bool("application layer: solver accepts the uniform profile", &x.sig("pore-solve"), x.idx, false, || x.detail(json!("solve returned Err")));
        return;
    }
    let iters = pore.profile.solver_log.as_ref().map_or(0, |l| l.residual().len());
    m.check_bool("application layer: solver accepts the uniform profile", &x.sig("pore-solve"), x.idx, iters <= 2, || x.detail(json!({"log_entries": iters})));
    let om = pore.grand_potential.unwrap().to_reduced();
    check_noise(m, x, "application layer: Omega == -p * integrate(1)", &x.sig("pore-Omega"), (om + pr * v_int).abs() / (psc * v_int), || {
        x.detail(json!({"Omega": om, "p": pr, "integrate_1": v_int}))
    });
    if !volume_clause {
        m.skip("application layer: interfacial tension == 0", "axis with potential_offset (excluded by design)");
        m.skip("application layer: excess adsorption == 0", "axis with potential_offset (excluded by design)");
        return;
    }
    let gam = pore.interfacial_tension.unwrap().to_reduced();
    check_noise(m, x, "application layer: interfacial tension == 0", &x.vsig("pore-tension"), gam.abs() / (psc * v_int), || {
        x.detail(json!({"interfacial_tension": gam, "p*integrate_1": pr * v_int, "ratio_to_pV": gam / (pr * v_int)}))
    });
    let nex = (pore.profile.total_moles() - pore.profile.bulk.density * pore.profile.volume()).to_reduced();
    m.check("application layer: excess adsorption == 0", &x.vsig("excess-adsorption"), x.idx, nex.abs() / (rho_tot * v_int), TOL, || {
        x.detail(json!({"N_minus_rho_volume": nex, "rho*integrate_1": rho_tot * v_int}))
    });
}

fn check_solvation_layer(m: &mut Monitor, x: &Ctx, mut sp: SolvationProfile<Model>) {
    let (pr, rho_tot, t) = prt(x.st);
    let psc = pr.abs().max(rho_tot * t);
    let v = x.c.g.analytic_volume();
    if sp.solve_inplace(None, false).is_err() {
        m.check_bool("application layer: solver accepts the uniform profile", &x.sig("solvation-solve"), x.idx, false, || x.detail(json!("solve returned Err")));
        return;
    }
    let om = sp.grand_potential.unwrap().to_reduced();
    check_noise(m, x, "application layer: Omega == -p * integrate(1)", &x.sig("solvation-Omega"), (om + pr * v).abs() / (psc * v), || {
        x.detail(json!({"Omega": om, "p": pr, "V": v}))
    });
    let f = sp.solvation_free_energy.unwrap().to_reduced();
    check_noise(m, x, "application layer: solvation free energy == 0", &x.vsig("solvation-free-energy"), f.abs() / (psc * v), || {
        x.detail(json!({"solvation_free_energy": f, "pV": pr * v}))
    });
}

fn check_pair_correlation(m: &mut Monitor, x: &Ctx, p: DFTProfile<Ix1, Model>) {
    let (pr, rho_tot, t) = prt(x.st);
    let psc = pr.abs().max(rho_tot * t);
    let v = x.c.g.analytic_volume();
    let mut pc = PairCorrelation { profile: p, pair_correlation_function: None, self_solvation_free_energy: None, structure_factor: None };
    if pc.solve_inplace(None, false).is_err() {
        m.check_bool("application layer: solver accepts the uniform profile", &x.sig("paircorr-solve"), x.idx, false, || x.detail(json!("solve returned Err")));
        return;
    }
    let g = pc.pair_correlation_function.as_ref().unwrap();
    let d = g.iter().fold(0.0f64, |a, &b| if b.is_nan() { f64::NAN } else { a.max((b - 1.0).abs()) });
    m.check("application layer: g(r) == 1", &x.sig("paircorr-g"), x.idx, d, TOL, || x.detail(json!({"max_dev": fnum(d)})));
    let f = pc.self_solvation_free_energy.unwrap().to_reduced();
    check_noise(m, x, "application layer: solvation free energy == 0", &x.sig("paircorr-free-energy"), f.abs() / (psc * v), || {
        x.detail(json!({"self_solvation_free_energy": f, "pV": pr * v}))
    });
    // S = 1 + (N - rho * volume()): the excess particle number of the test-particle system
    let s = pc.structure_factor.unwrap();
    m.check("application layer: excess adsorption == 0", &x.vsig("paircorr-structure-factor"), x.idx, (s - 1.0).abs() / (rho_tot * v).max(1e-3), TOL, || {
        x.detail(json!({"structure_factor": s, "rho*V": rho_tot * v}))
    });
}

trait CompCount {
    fn components_count(&self) -> usize;
}
impl CompCount for Arc<Model> {
    fn components_count(&self) -> usize {
        use feos_core::Components;
        self.components()
    }
}
