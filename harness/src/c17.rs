//! C17 — the functional derivative is the derivative of the discretised functional.
//!
//! Smooth positive density profiles (tanh interfaces, enveloped oscillations; flat near the
//! boundary) and Gaussian-bump perturbations on every grid type:
//!  (i)   first order: d/de F(rho + e phi) by central differences with a Richardson step and a
//!        measured error bar vs sum_i integrate(dF/drho_i phi_i), F = integrate(f), both from
//!        `HelmholtzEnergyFunctional::functional_derivative`;
//!  (ii)  adjointness, one weighted density at a time: <n_a(rho), psi>_w == <rho, W_a^T psi>_w through
//!        `Convolver::weighted_densities` / `Convolver::functional_derivative`;
//!  (iii) second order through the `verif_*` re-exports: `delta_functional_derivative` vs finite
//!        differences of the functional derivative, `delta_bond_integrals` vs finite differences
//!        of ln(bond integrals), and the assembled Newton operator vs finite differences of the
//!        Euler-Lagrange residual.
//! Clauses (i) and (ii) hold exactly (to round-off) on Cartesian and periodic grids; on
//! spherical/polar/cylindrical grids the transforms are adjoint only up to discretisation error,
//! so their tolerances depend on geometry and grid size; (iii) is exact in every geometry.
use crate::c16::{fmt_spec, FMT_NAMES, G};
use crate::monitor::*;
use crate::prng::{hash_f64s, Rng};
use crate::zoo::*;
use feos_core::ReferenceSystem;
use feos_dft::{DFTProfile, FunctionalContribution, HelmholtzEnergyFunctional};
use ndarray::{Array, Array1, ArrayD, Axis as Ax, Dimension, IxDyn, Ix1, Ix2, Ix3, RemoveAxis};
use quantity::*;
use serde_json::{json, Value};
use std::f64::consts::PI;
use std::sync::Arc;

// ---- tolerances (scaled deviations); see `tol_first`, `tol_adjoint` -------------------------
/// first order on Cartesian / periodic grids
const TOL_FIRST_CART: f64 = 1e-6;
/// adjointness on Cartesian / periodic grids (algebraic identity)
const TOL_ADJ_CART: f64 = 1e-9;
/// first order and adjointness on spherical grids with more than 128 points (discretisation error
/// of the sine-transform pair; measured worst < 1e-5)
const TOL_SPHERICAL: f64 = 1e-3;
/// largest residual ratio of a Newton step that starts at a scaled residual in (3e-8, 1e-6)
const TOL_NEWTON_RATIO: f64 = 3e-2;
/// second-order clauses (exact in every geometry; finite-difference limited)
const TOL_SECOND: f64 = 1e-6;

const FAMILIES: &[(&str, &[usize])] = &[
    ("fmt", &[1, 2, 3]),
    ("pcsaft", &[1, 2, 3]),
    ("pcsaft-assoc", &[1, 2]),
    ("pcsaft-crossassoc", &[2]),
    ("pcsaft-polar", &[1, 2]),
    ("gc-pcsaft", &[1, 2]),
    ("pets", &[1, 2]),
    ("saftvrqmie", &[1, 2]),
];

thread_local! {
    static LAST_PANIC: std::cell::RefCell<String> = const { std::cell::RefCell::new(String::new()) };
}

struct ModelState {
    tag: String,
    spec: Spec,
    func: Arc<Model>,
    t: f64,
    /// reference partial densities 1/A^3 (liquid-like)
    rho: Vec<f64>,
    /// supercritical state for the Newton-convergence clause: temperature, partial densities
    t_sc: f64,
    rho_sc: Vec<f64>,
}

#[derive(Clone, Debug)]
enum Shape {
    /// interface along the first axis: lo + (1-lo)/2 (1 - tanh((x-x0)/w))
    Tanh { x0: f64, w: f64, lo: Vec<f64> },
    /// 1 + a_s prod_d E(x_d) cos(2 pi k_d x_d + ph_s)
    Osc { a: Vec<f64>, k: [f64; 3], ph: Vec<f64> },
}

struct Case {
    ms: usize,
    g: G,
    shape: Shape,
    /// bump centre, width per axis, amplitude per segment
    bump_c: [f64; 3],
    bump_s: [f64; 3],
    bump_a: Vec<f64>,
    /// test-function parameters for the adjointness clause
    psi_k: [f64; 3],
    psi_ph: f64,
    lanczos: Option<i32>,
}

fn build_models(seed: u64, reps: usize, max_segments: usize) -> Vec<ModelState> {
    use rayon::prelude::*;
    let col = Collections::load();
    let mut jobs = Vec::new();
    for (fi, (fam, ns)) in FAMILIES.iter().enumerate() {
        for &n in ns.iter() {
            for fmt in 0..3u8 {
                for r in 0..reps {
                    jobs.push((fi, *fam, n, fmt, r));
                }
            }
        }
    }
    jobs.par_iter()
        .filter_map(|&(fi, fam, n, fmt, r)| {
            let mut rng = Rng::derive(seed, "c17-model", (fi * 10000 + n * 1000 + fmt as usize * 100 + r) as u64);
            let (spec, tscale) = if fam == "fmt" {
                (fmt_spec(&mut rng, n, fmt), vec![300.0; n])
            } else {
                let es = random_spec(&col, fam, n, &mut rng)?;
                if has_ring(&es) {
                    // the library refuses cyclic bond graphs ("Cycle in molecular structure detected!")
                    return None;
                }
                let mc = ModelCase::new(fam, es.clone()).ok()?;
                (functional_of(&es, fmt)?, mc.tscale)
            };
            let func = spec.build().ok()?;
            if func.component_index().len() > max_segments {
                // second partial derivatives cost O(segments^2) evaluations per grid point
                return None;
            }
            let tag = format!("{}-{}-{}", fam, if n == 1 { "pure" } else { "mix" }, FMT_NAMES[fmt as usize]);
            let x = rng.simplex(n, 0.0, 1e-3);
            let ts: f64 = x.iter().zip(&tscale).map(|(x, t)| x * t).sum();
            let t = ts * rng.range(0.6, 1.3);
            // reference density: the profile peaks stay below ~0.8 of the maximum density
            let frac = rng.range(0.3, 0.5);
            let rho_tot = if fam == "fmt" {
                let d3: f64 = x.iter().zip(&spec.pure).map(|(x, p)| x * p["model_record"]["sigma"].as_f64().unwrap().powi(3)).sum();
                frac * 0.6 / (std::f64::consts::FRAC_PI_6 * d3)
            } else {
                frac * max_density(&func, &x)
            };
            let t_sc = ts * rng.range(1.4, 2.0);
            let f_sc = rng.range(0.4, 0.9);
            Some(ModelState {
                tag,
                spec,
                func,
                t,
                rho: x.iter().map(|x| x * rho_tot).collect(),
                t_sc,
                rho_sc: x.iter().map(|x| x * rho_tot * f_sc).collect(),
            })
        })
        .collect()
}

/// heterosegmented records whose bond graph contains a cycle
pub fn has_ring(spec: &Spec) -> bool {
    spec.pure.iter().any(|p| match (p.get("segments").and_then(|s| s.as_array()), p.get("bonds").and_then(|b| b.as_array())) {
        (Some(s), Some(b)) => b.len() >= s.len(),
        _ => false,
    })
}

fn build_cases(seed: u64, ms: &[ModelState], thorough: bool) -> Vec<Case> {
    let mut cases = Vec::new();
    for (i, m) in ms.iter().enumerate() {
        let nseg = m.func.component_index().len();
        let mut rng = Rng::derive(seed, "c17-case", i as u64);
        let n1 = |rng: &mut Rng| {
            const S: [usize; 8] = [64, 100, 128, 256, 400, 512, 1024, 2048];
            S[rng.below(if thorough { 8 } else { 7 })]
        };
        let len = |rng: &mut Rng| rng.range(15.0, 50.0);
        // curvilinear axes: every kernel (radius up to ~6 A) must stay inside the flat margin (0.17 L)
        let lenc = |rng: &mut Rng| rng.range(45.0, 80.0);
        let n2 = |rng: &mut Rng| 16 + rng.below(if thorough { 49 } else { 25 });
        let n3 = |rng: &mut Rng| 8 + rng.below(if thorough { 17 } else { 7 });
        let ang = |rng: &mut Rng| rng.range(55.0, 125.0) * PI / 180.0;
        let mut gs = vec![
            G::Cart1 { n: n1(&mut rng), l: len(&mut rng) },
            G::Spherical { n: n1(&mut rng), l: lenc(&mut rng) },
            G::Polar { n: n1(&mut rng), l: lenc(&mut rng) },
        ];
        gs.push(match i % 5 {
            0 => G::Cart2 { n: [n2(&mut rng), n2(&mut rng)], l: [len(&mut rng), len(&mut rng)] },
            1 => G::Per2 { n: [n2(&mut rng), n2(&mut rng)], l: [len(&mut rng), len(&mut rng)], a: ang(&mut rng) },
            2 => G::Cyl { n: [n2(&mut rng), n2(&mut rng)], l: [lenc(&mut rng), len(&mut rng)] },
            3 => G::Cart3 { n: [n3(&mut rng), n3(&mut rng), n3(&mut rng)], l: [len(&mut rng), len(&mut rng), len(&mut rng)] },
            _ => loop {
                let a = [ang(&mut rng), ang(&mut rng), ang(&mut rng)];
                let (ca, cb, cg) = (a[0].cos(), a[1].cos(), a[2].cos());
                if 1.0 - ca * ca - cb * cb - cg * cg + 2.0 * ca * cb * cg > 0.1 {
                    break G::Per3 { n: [n3(&mut rng), n3(&mut rng), n3(&mut rng)], l: [len(&mut rng), len(&mut rng), len(&mut rng)], a };
                }
            },
        });
        for (k, g) in gs.into_iter().enumerate() {
            let periodic = matches!(g, G::Per2 { .. } | G::Per3 { .. });
            let shape = if !periodic && rng.bool(0.5) {
                Shape::Tanh {
                    x0: rng.range(0.4, 0.55),
                    w: rng.range(0.02, 0.04),
                    lo: (0..nseg).map(|_| rng.log_range(0.02, 0.5)).collect(),
                }
            } else {
                Shape::Osc {
                    a: (0..nseg).map(|_| rng.range(0.2, 0.6) * if rng.bool(0.5) { 1.0 } else { -1.0 }).collect(),
                    k: [rng.range(1.5, 5.0), rng.range(1.0, 3.0), rng.range(1.0, 3.0)],
                    ph: (0..nseg).map(|_| rng.range(0.0, 2.0 * PI)).collect(),
                }
            };
            cases.push(Case {
                ms: i,
                g,
                shape,
                bump_c: [rng.range(0.35, 0.65), rng.range(0.35, 0.65), rng.range(0.35, 0.65)],
                bump_s: [rng.range(0.03, 0.05), rng.range(0.05, 0.09), rng.range(0.05, 0.09)],
                bump_a: (0..nseg).map(|_| rng.range(0.3, 1.0) * if rng.bool(0.5) { 1.0 } else { -1.0 }).collect(),
                psi_k: [rng.range(0.5, 4.0), rng.range(0.5, 3.0), rng.range(0.5, 3.0)],
                psi_ph: rng.range(0.0, 2.0 * PI),
                lanczos: match (i + k) % 4 {
                    0 => None,
                    j => Some(j as i32),
                },
            });
        }
    }
    cases
}

/// envelope that vanishes (to round-off) at both ends of the unit interval
fn env(x: f64) -> f64 {
    (-((x - 0.5) / 0.22).powi(8)).exp()
}

impl Case {
    /// density profile of segment `s` relative to its reference density
    fn g_of(&self, s: usize, xs: &[f64]) -> f64 {
        match &self.shape {
            Shape::Tanh { x0, w, lo } => {
                let mut g = lo[s] + (1.0 - lo[s]) * 0.5 * (1.0 - ((xs[0] - x0) / w).tanh());
                for (d, x) in xs.iter().enumerate().skip(1) {
                    g *= 1.0 + 0.15 * env(*x) * (2.0 * PI * (d as f64) * x).cos();
                }
                g
            }
            Shape::Osc { a, k, ph } => {
                let mut o = a[s];
                for (d, x) in xs.iter().enumerate() {
                    o *= env(*x) * (2.0 * PI * k[d] * x + ph[s]).cos();
                }
                1.0 + o
            }
        }
    }
    /// Gaussian bump supported away from the boundary (relative to the reference density)
    fn bump(&self, s: usize, xs: &[f64]) -> f64 {
        let mut b = self.bump_a[s];
        for (d, x) in xs.iter().enumerate() {
            b *= env(*x) * (-0.5 * ((x - self.bump_c[d]) / self.bump_s[d]).powi(2)).exp();
        }
        b
    }
    /// smooth test function, flat near the boundary, for row `r`
    fn psi(&self, r: usize, xs: &[f64], constant: f64) -> f64 {
        let mut b = 1.0;
        for (d, x) in xs.iter().enumerate() {
            b *= env(*x) * (2.0 * PI * self.psi_k[d] * x + self.psi_ph + 0.7 * r as f64).cos();
        }
        constant + b
    }
}

pub fn run(cfg: Config) -> i32 {
    let mut m = Monitor::new(cfg.clone());
    std::panic::set_hook(Box::new(|info| {
        let msg = format!("{}", info);
        LAST_PANIC.with(|p| *p.borrow_mut() = msg.chars().take(400).collect());
    }));
    let thorough = cfg.tier == Tier::Thorough;
    let reps = cfg.tier.pick(6, 8);
    let ms = build_models(cfg.seed, reps, cfg.tier.pick(10, 40));
    let cases = build_cases(cfg.seed, &ms, thorough);
    par_cases(&mut m, &cases, |m, idx, c| {
        let r = std::panic::catch_unwind(std::panic::AssertUnwindSafe(|| {
            let mut local = m.fork();
            let t0 = std::time::Instant::now();
            run_case(&mut local, idx, c, &ms[c.ms]);
            let dt = t0.elapsed().as_secs_f64();
            if dt > 2.0 && std::env::var("FV_DEBUG").is_ok() {
                eprintln!("DBG slow case {idx}: {dt:.1}s {} {:?} lanczos {:?}", ms[c.ms].tag, c.g, c.lanczos);
            }
            local
        }));
        match r {
            Ok(local) => m.absorb(local),
            Err(_) => {
                let msx = &ms[c.ms];
                m.check_bool("no panic", &format!("panic|{}|{}", c.g.name(), msx.tag), idx, false, || {
                    json!({"model": msx.spec, "T": msx.t, "rho": msx.rho, "grid": c.g.json(), "shape": format!("{:?}", c.shape), "panic": LAST_PANIC.with(|p| p.borrow().clone())})
                });
            }
        }
    });
    for g in ["cartesian1", "cartesian2", "cartesian3", "periodical2", "periodical3", "polar", "spherical", "cylindrical"] {
        m.gate(m.families.keys().any(|k| k.ends_with(g)), &format!("no case on grid {g}"));
    }
    for (f, _) in FAMILIES {
        m.gate(m.families.keys().any(|k| k.starts_with(f)), &format!("family {f} produced no case"));
    }
    m.gate(m.clause_checked("first order: dF[phi] == <dF/drho, phi> (Cartesian/periodic)") >= 50, "fewer than 50 first-order checks on Cartesian grids");
    {
        let get = |k: &str| m.notes.get(k).and_then(|v| v.as_u64()).unwrap_or(0);
        let (att, conv) = (get("newton_runs_attempted"), get("newton_runs_converged"));
        m.gate(conv * 10 >= att * 8, &format!("Newton-only solver converged in only {conv} of {att} weakly perturbed supercritical systems"));
    }
    m.gate(m.clause_checked("Newton solver: superlinear residual decay") >= 20, "fewer than 20 Newton convergence checks");
    m.gate(m.clause_checked("second order: delta_functional_derivative == FD of dF/drho") >= 100, "fewer than 100 second-order checks");
    m.note(
        "polar_first_order_and_adjointness",
        json!("not claimed: the log-grid Hankel transform pair is adjoint only up to a discretisation error (measured: up to 1e-3 for n > 512, 1e-2 for n = 129..512, > 0.1 below), less than 100x below the effect of a sign/index slip (0.1); the deviations are recorded in raw_dev_hist:* only. The second-order clauses and the Newton clause are exact in every geometry and are judged on polar grids too"),
    );
    m.finish(
        "random functionals (FMT x3 versions, PC-SAFT pure/mixture/associating/cross-associating/polar, gc-PC-SAFT without rings, PeTS, SAFT-VRQ Mie; pure and mixtures) at a liquid-like reference density (0.3..0.5 of the maximum density, T = 0.6..1.3 T_c-scale) x {Cartesian1, Spherical, Polar (n = 64..2048, L = 15..50 A Cartesian, 45..80 A curvilinear), one of Cartesian2/Periodical2/Cylindrical (16..64 points per axis)/Cartesian3/Periodical3 (8..24 points per axis, random angles)} x {tanh interface with a vapour side of 0.02..0.5 of the reference density, enveloped oscillation of amplitude 0.2..0.6} x Gaussian bump perturbation per segment (relative to the local density) x Lanczos None/1/2/3; Newton clause: Gaussian wells of up to 0.8 kT in a supercritical fluid (T = 1.4..2 T_c-scale) on the 1D grids; distinct by hash of (model, state, grid, perturbation); every case is non-trivial",
        false,
        &[
            "finite differences along the perturbation (relative steps 2e-2 and 4e-3, one Richardson step each, the better one is used) carry a measured error bar; only a disagreement beyond three error bars counts, and an error bar above 1e-5 (first order) / 1e-4 (second order) of the scale is reported as unresolved",
            "on spherical grids with more than 128 points the first-order identity and adjointness hold up to the discretisation error of the sine-transform pair (tolerance 1e-3, measured worst 5e-6); on coarser spherical grids and on polar and cylindrical grids they are not claimed",
            "profiles whose discretised positive-kernel weighted densities fall below half the continuum lower bound w0*min(rho) are under-resolved on the grid (coarse log grids) and are not judged",
            "the Newton-only solver converges quadratically with a constant below 1e4 in scaled units, so that a step starting at a scaled residual in (3e-8, 1e-6) reduces it at least 30-fold (measured worst ratio 3e-3); linearisation errors below 3e-2 are only visible to the hook-based operator clause",
        ],
    )
}

fn run_case(m: &mut Monitor, idx: u64, c: &Case, ms: &ModelState) {
    let n = Array1::from_vec(ms.rho.clone());
    let Some(st) = state_tvn(&ms.func, ms.t, 1.0, &n) else {
        m.skip("profile", "bulk state not constructible");
        return;
    };
    let mut hv = c.g.hashv();
    hv.push(ms.t);
    hv.extend(&ms.rho);
    hv.extend(&c.bump_c);
    hv.extend(&c.bump_a);
    m.case(&format!("{}|{}", ms.tag, c.g.name()), hash_f64s(&ms.spec.label(), &hv), true);
    if idx % 53 == 0 {
        m.sample(json!({"model": ms.spec.label(), "tag": ms.tag, "T": ms.t, "rho_ref": ms.rho, "grid": c.g.json(), "shape": format!("{:?}", c.shape), "lanczos": c.lanczos}));
    }
    match &c.g {
        G::Cart1 { .. } | G::Polar { .. } | G::Spherical { .. } => {
            check::<Ix1>(m, idx, c, ms, &st);
            let n1 = c.g.hashv()[0] as usize;
            if n1 <= 512 || m.cfg.tier == Tier::Thorough {
                check_newton(m, idx, c, ms);
            }
        }
        G::Cart2 { .. } | G::Per2 { .. } | G::Cyl { .. } => check::<Ix2>(m, idx, c, ms, &st),
        G::Cart3 { .. } | G::Per3 { .. } => check::<Ix3>(m, idx, c, ms, &st),
    }
}

/// (iv) boundary observable without hooks: a Newton-only solver on a weakly perturbed
/// supercritical fluid (Gaussian well, start = ideal-gas response) must converge superlinearly;
/// a wrong linearisation inside `solve_newton` (assembly, GMRES) gives linear convergence.
fn check_newton(m: &mut Monitor, idx: u64, c: &Case, ms: &ModelState) {
    use feos_dft::DFTSolver;
    let clause = "Newton solver: superlinear residual decay";
    let n = Array1::from_vec(ms.rho_sc.clone());
    let Some(st) = state_tvn(&ms.func, ms.t_sc, 1.0, &n) else {
        m.skip(clause, "bulk state not constructible");
        return;
    };
    let nseg = ms.func.component_index().len();
    let grid = c.g.grid();
    let ax = grid.axes()[0];
    let l = ax.edges[ax.grid.len()];
    // attractive / repulsive Gaussian wells of 0.2..0.8 kT per segment around the bump centre
    let pot = ndarray::Array2::from_shape_fn((nseg, ax.grid.len()), |(s, i)| {
        let x = ax.grid[i] / l;
        -0.8 * c.bump_a[s] * env(x) * (-0.5 * ((x - c.bump_c[0]) / (2.0 * c.bump_s[0])).powi(2)).exp()
    });
    m.count("newton_runs_attempted", 1);
    let mut p = DFTProfile::<Ix1, Model>::new(grid, &st, Some(pot), None, c.lanczos);
    let solver = DFTSolver::new(None).newton(Some(false), Some(12), Some(300), Some(1e-11));
    let r = p.solve(Some(&solver), true);
    let Some(log) = p.solver_log.as_ref() else {
        m.skip(clause, "no solver log");
        return;
    };
    let rho_tot: f64 = ms.rho_sc.iter().sum();
    let res: Vec<f64> = log.solver().iter().zip(log.residual().iter()).filter(|(s, _)| **s == "Newton").map(|(_, r)| *r / rho_tot).collect();
    if r.is_err() || res.len() < 2 || !res.iter().all(|r| r.is_finite()) {
        m.skip(clause, "solver returned Err / non-finite residual");
        return;
    }
    let converged = *res.last().unwrap() < 1e-11 / rho_tot * 1.0001 || res.last().unwrap() * rho_tot < 1e-11;
    if !converged {
        m.skip(clause, "not converged within 12 Newton steps");
        return;
    }
    // quadratic convergence: r' = C r^2. Every step that starts with a scaled residual inside
    // (3e-8, 1e-6) must reduce it at least 30-fold (holds for C <= 3e4; measured worst ratio 3e-3;
    // not yet limited by the GMRES tolerance); a linearisation error of relative size d gives
    // r' = d r instead (seeded slips in the Newton right-hand side: ratios 0.02..0.25).
    let mut worst = 0.0f64;
    let mut judged = 0;
    for w in res.windows(2) {
        if w[0] < 1e-6 && w[0] > 3e-8 {
            judged += 1;
            worst = worst.max(w[1] / w[0]);
        }
    }
    m.count("newton_runs_converged", 1);
    if judged == 0 {
        m.skip(clause, "no Newton step starts inside the window (3e-8, 1e-6)");
        return;
    }
    m.check(clause, &format!("newton-convergence|{}|{}", c.g.name(), ms.tag), idx, worst, TOL_NEWTON_RATIO, || {
        json!({"model": ms.spec, "T": ms.t_sc, "rho": ms.rho_sc, "grid": c.g.json(), "lanczos": c.lanczos, "scaled_newton_residuals": res, "worst_ratio": worst})
    });
}

fn sup(a: &ArrayD<f64>) -> f64 {
    a.iter().fold(0.0f64, |m, v| if v.is_nan() { f64::NAN } else { m.max(v.abs()) })
}

/// central difference with one Richardson step of an array-valued function of e at e = 0;
/// returns (estimate, sup-norm error bar)
fn fd_array<F: Fn(f64) -> Option<ArrayD<f64>>>(f: &F, h: f64, noise: f64) -> Option<(ArrayD<f64>, f64)> {
    let d = |h: f64| -> Option<ArrayD<f64>> { Some((f(h)? - f(-h)?) / (2.0 * h)) };
    let d1 = d(h)?;
    let d2 = d(0.5 * h)?;
    let r = (&d2 * 4.0 - &d1) / 3.0;
    let err = sup(&(&r - &d2)) + 4.0 * noise / h;
    Some((r, err))
}

/// best of two step sizes
fn fd_best<F: Fn(f64) -> Option<ArrayD<f64>>>(f: &F, noise: f64) -> Option<(ArrayD<f64>, f64)> {
    let a = fd_array(f, 2e-2, noise);
    let b = fd_array(f, 4e-3, noise);
    match (a, b) {
        (Some(a), Some(b)) => Some(if a.1 <= b.1 { a } else { b }),
        (a, b) => a.or(b),
    }
}

fn tol_first(g: &G) -> Option<f64> {
    match g {
        G::Cart1 { .. } | G::Cart2 { .. } | G::Cart3 { .. } | G::Per2 { .. } | G::Per3 { .. } => Some(TOL_FIRST_CART),
        G::Spherical { n, .. } => (*n > 128).then_some(TOL_SPHERICAL),
        G::Polar { .. } | G::Cyl { .. } => None,
    }
}

fn tol_adjoint(g: &G) -> Option<f64> {
    match g {
        G::Cart1 { .. } | G::Cart2 { .. } | G::Cart3 { .. } | G::Per2 { .. } | G::Per3 { .. } => Some(TOL_ADJ_CART),
        G::Spherical { n, .. } => (*n > 128).then_some(TOL_SPHERICAL),
        G::Polar { .. } | G::Cyl { .. } => None,
    }
}

fn geo_class(g: &G) -> &'static str {
    match g {
        G::Spherical { .. } => "spherical",
        G::Polar { .. } | G::Cyl { .. } => "polar",
        _ => "Cartesian/periodic",
    }
}

fn check<D>(m: &mut Monitor, idx: u64, c: &Case, ms: &ModelState, st: &St)
where
    D: Dimension + RemoveAxis + 'static,
    D::Larger: Dimension<Smaller = D>,
    D::Smaller: Dimension<Larger = D>,
    <D::Larger as Dimension>::Larger: Dimension<Smaller = D::Larger>,
{
    let func = &ms.func;
    let t = ms.t;
    let ci = func.component_index().into_owned();
    let nseg = ci.len();
    let rho_seg: Vec<f64> = ci.iter().map(|&i| ms.rho[i]).collect();
    let grid = c.g.grid();
    // normalised coordinates per axis
    let coords: Vec<Vec<f64>> = grid
        .axes()
        .iter()
        .map(|ax| {
            let l = ax.edges[ax.grid.len()];
            ax.grid.iter().map(|x| x / l).collect()
        })
        .collect();
    let dim = coords.len();
    let mut shape = vec![nseg];
    shape.extend(coords.iter().map(|c| c.len()));
    let field = |rows: usize, f: &dyn Fn(usize, &[f64]) -> f64| -> ArrayD<f64> {
        let mut sh = shape.clone();
        sh[0] = rows;
        let mut xs = vec![0.0; dim];
        ArrayD::from_shape_fn(IxDyn(&sh), |ix| {
            for d in 0..dim {
                xs[d] = coords[d][ix[d + 1]];
            }
            f(ix[0], &xs)
        })
    };
    let rho_d = field(nseg, &|s, xs| rho_seg[s] * c.g_of(s, xs));
    // perturbation relative to the local density: rho (1 + e bump) stays positive everywhere
    let phi_d = field(nseg, &|s, xs| rho_seg[s] * c.g_of(s, xs) * c.bump(s, xs));
    let to_l = |a: &ArrayD<f64>| -> Array<f64, D::Larger> { a.clone().into_dimensionality().unwrap() };
    let rho = to_l(&rho_d);
    let phi = to_l(&phi_d);
    let density = Density::from_reduced(rho.clone());
    let p = DFTProfile::<D, Model>::new(grid, st, None, Some(&density), c.lanczos);
    let integ = |a: &ArrayD<f64>| -> f64 {
        let a: Array<f64, D> = a.clone().into_dimensionality().unwrap();
        p.integrate(&Dimensionless::from_reduced(a)).to_reduced()
    };
    let gname = c.g.name();
    let sig = |cl: &str| format!("{}|{}|{}", cl, gname, ms.tag);
    let detail = |extra: Value| {
        json!({"model": ms.spec, "tag": ms.tag, "T": t, "rho_ref": ms.rho, "grid": c.g.json(), "lanczos": c.lanczos, "shape": format!("{:?}", c.shape),
               "bump": {"centre": c.bump_c, "width": c.bump_s, "amplitude": c.bump_a}, "observed": extra})
    };

    // ---------------------------------------------------------------- resolution guard
    // A convolution with a positive kernel (Theta, Delta shapes) cannot fall below w0 * min(rho).
    // Where the discretised transform violates that bound by more than a factor 2 the profile is
    // not resolved on this grid and the functional is evaluated outside its domain (negative
    // packing fractions): nothing is judged then.
    {
        use feos_dft::WeightFunctionShape as Sh;
        let rho_min: Array1<f64> = (0..nseg).map(|s| rho_d.index_axis(Ax(0), s).iter().cloned().fold(f64::INFINITY, f64::min)).collect();
        let wfs = func.weight_functions(t);
        let bulk_min = feos_dft::verif_bulk_convolver(func.weight_functions(t)).weighted_densities(&rho_min);
        let wd = p.convolver.weighted_densities(&rho);
        let mut worst = f64::INFINITY;
        for (k, w) in wd.iter().enumerate() {
            let w = w.clone().into_dyn();
            let [sc, vc, sf, _] = wfs[k].as_slice();
            let nloc = wfs[k].n_weighted_densities(0) - sc.len() * nseg - sf.len();
            // (profile row, bulk row) of the scalar weighted densities with positive kernels
            let mut pairs = Vec::new();
            for (j, wf) in sc.iter().enumerate() {
                if matches!(wf.shape, Sh::Theta | Sh::Delta) {
                    for s in 0..nseg {
                        pairs.push((nloc + j * nseg + s, nloc + j * nseg + s));
                    }
                }
            }
            for (j, wf) in sf.iter().enumerate() {
                if matches!(wf.shape, Sh::Theta | Sh::Delta) && wf.prefactor.iter().all(|&v| v >= 0.0) {
                    pairs.push((nloc + sc.len() * nseg + vc.len() * nseg * dim + j, nloc + sc.len() * nseg + j));
                }
            }
            for (r, rb) in pairs {
                let lower = bulk_min[k][rb];
                if lower > 0.0 {
                    let mn = w.index_axis(Ax(0), r).iter().cloned().fold(f64::INFINITY, f64::min);
                    worst = worst.min(mn / lower);
                }
            }
        }
        if !(worst >= 0.5) {
            m.skip("profile", "under-resolved on this grid: a positive-kernel weighted density falls below half its lower bound w0*min(rho)");
            m.count(&format!("under_resolved:{}", gname), 1);
            return;
        }
    }

    // ---------------------------------------------------------------- (i) first order
    let fd_eval = |e: f64| -> Option<(ArrayD<f64>, ArrayD<f64>)> {
        let r = &rho + &(&phi * e);
        let (f, d) = func.functional_derivative(t, &r, &p.convolver).ok()?;
        Some((f.into_dyn(), d.into_dyn()))
    };
    let Some((f0, dfdrho)) = fd_eval(0.0) else {
        m.skip("first order", "functional_derivative returned Err on the profile");
        return;
    };
    if !sup(&f0).is_finite() || !sup(&dfdrho).is_finite() {
        m.skip("first order", "profile outside the domain of the functional (non-finite energy density)");
        return;
    }
    let ad: f64 = (0..nseg).map(|s| integ(&(&dfdrho.index_axis(Ax(0), s) * &phi_d.index_axis(Ax(0), s)).into_dyn())).sum();
    let ad_abs: f64 = (0..nseg).map(|s| integ(&(&dfdrho.index_axis(Ax(0), s) * &phi_d.index_axis(Ax(0), s)).mapv(f64::abs).into_dyn())).sum();
    let noise_f = 1e-15 * integ(&f0.mapv(f64::abs));
    let f_of = |e: f64| -> Option<ArrayD<f64>> {
        let (f, _) = fd_eval(e)?;
        let v = integ(&f);
        v.is_finite().then(|| ArrayD::from_elem(IxDyn(&[1]), v))
    };
    let class = geo_class(&c.g);
    // histogram class: geometry and resolution of the curvilinear axis
    let hclass = match &c.g {
        G::Spherical { n, .. } => format!("spherical n={}", nclass(*n)),
        G::Polar { n, .. } => format!("polar n={}", nclass(*n)),
        G::Cyl { n, .. } => format!("cylindrical n={}", nclass(n[0])),
        _ => class.to_string(),
    };
    match fd_best(&f_of, noise_f) {
        Some((fd, err)) => {
            let fd = fd[[0]];
            let den = ad.abs().max(fd.abs()).max(1e-2 * ad_abs).max(f64::MIN_POSITIVE);
            let raw = (ad - fd).abs() / den;
            let dev = ((ad - fd).abs() - 3.0 * err).max(0.0) / den;
            if err / den > 1e-5 {
                m.skip("first order", "finite difference unresolved");
            } else {
                let det = || detail(json!({"analytic": ad, "finite_difference": fd, "fd_error_bar": err, "sum_abs": ad_abs, "raw_scaled_dev": raw}));
                match tol_first(&c.g) {
                    Some(tol) => {
                        m.count(&bucket(&format!("first-order|{hclass}"), raw), 1);
                        m.check(&format!("first order: dF[phi] == <dF/drho, phi> ({class})"), &sig("first-order"), idx, dev, tol, det);
                    }
                    None => {
                        m.skip(&format!("first order: dF[phi] == <dF/drho, phi> ({class})"), "not claimed: transform adjoint only to discretisation error (polar axis, or spherical axis with <= 128 points)");
                        m.count(&bucket(&format!("first-order|{hclass}"), raw), 1);
                    }
                }
            }
        }
        None => m.skip("first order", "finite difference not available"),
    }

    // ---------------------------------------------------------------- (ii) adjointness, row by row
    let wd = p.convolver.weighted_densities(&rho);
    let names: Vec<String> = func.contributions().map(|cb| cb.to_string()).collect();
    let wfs = func.weight_functions(t);
    for (k, w) in wd.iter().enumerate() {
        let w_d = w.clone().into_dyn();
        let rows = w_d.shape()[0];
        let [sc, vc, sf, vf] = wfs[k].as_slice();
        let nloc = wfs[k].n_weighted_densities(0) - sc.len() * nseg - sf.len();
        let row_kind = |r: usize| -> &'static str {
            let mut r = r;
            if r < nloc {
                return "local";
            }
            r -= nloc;
            if r < sc.len() * nseg {
                return "scalar-component";
            }
            r -= sc.len() * nseg;
            if r < vc.len() * nseg * dim {
                return "vector-component";
            }
            r -= vc.len() * nseg * dim;
            if r < sf.len() {
                return "scalar-fmt";
            }
            let _ = vf;
            "vector-fmt"
        };
        for r in 0..rows {
            let kind = row_kind(r);
            if kind == "local" {
                continue;
            }
            // the radial component of a smooth vector field vanishes on the axis / at the centre
            let curvilinear = !matches!(class, "Cartesian/periodic");
            let c0 = if curvilinear && kind.starts_with("vector") { 0.0 } else { 0.3 };
            let psi_row = field(1, &|_, xs| c.psi(r + 3 * k, xs, c0));
            let psi_row = psi_row.index_axis(Ax(0), 0).to_owned();
            // partial derivatives: psi in row r of contribution k, zero elsewhere
            let pds: Vec<Array<f64, D::Larger>> = wd
                .iter()
                .enumerate()
                .map(|(kk, ww)| {
                    let mut a = ArrayD::zeros(ww.raw_dim().into_dyn());
                    if kk == k {
                        a.index_axis_mut(Ax(0), r).assign(&psi_row);
                    }
                    a.into_dimensionality().unwrap()
                })
                .collect();
            let wt = p.convolver.functional_derivative(&pds).into_dyn();
            let nrow = w_d.index_axis(Ax(0), r);
            let lhs = integ(&(&nrow * &psi_row).into_dyn());
            let lhs_abs = integ(&(&nrow * &psi_row).mapv(f64::abs).into_dyn());
            let mut rhs = 0.0;
            let mut rhs_abs = 0.0;
            for s in 0..nseg {
                let pr = &wt.index_axis(Ax(0), s) * &rho_d.index_axis(Ax(0), s);
                rhs += integ(&pr.to_owned().into_dyn());
                rhs_abs += integ(&pr.mapv(f64::abs).into_dyn());
            }
            let den = lhs_abs.max(rhs_abs).max(f64::MIN_POSITIVE);
            let dev = (lhs - rhs).abs() / den;
            let sg = format!("adjoint|{}|{}|{}|{}", gname, ms.tag, names[k], kind);
            match tol_adjoint(&c.g) {
                Some(tol) => {
                    m.count(&bucket(&format!("adjoint|{hclass}|{kind}"), dev), 1);
                    m.check(&format!("adjointness: <n_a(rho), psi> == <rho, W_a^T psi> ({class})"), &sg, idx, dev, tol, || {
                        detail(json!({"contribution": names[k], "row": r, "row_kind": kind, "lhs": lhs, "rhs": rhs, "abs_scale": den}))
                    });
                }
                None => {
                    m.skip(&format!("adjointness: <n_a(rho), psi> == <rho, W_a^T psi> ({class})"), "not claimed: transform adjoint only to discretisation error (polar axis, or spherical axis with <= 128 points)");
                    m.count(&bucket(&format!("adjoint|{hclass}|{kind}"), dev), 1);
                }
            }
        }
    }

    // ---------------------------------------------------------------- (iii) second order
    let Ok(sp2) = p.verif_second_partial_derivatives(&rho) else {
        m.skip("second order", "second_partial_derivatives returned Err");
        return;
    };
    let dmu = p.verif_delta_functional_derivative(&phi, &sp2);
    let dmu_d = dmu.clone().into_dyn();
    let noise_mu = 1e-15 * sup(&dfdrho);
    let mu_of = |e: f64| -> Option<ArrayD<f64>> {
        let (_, d) = fd_eval(e)?;
        sup(&d).is_finite().then_some(d)
    };
    match fd_best(&mu_of, noise_mu) {
        Some((fd, err)) => {
            let den = sup(&dmu_d).max(sup(&fd)).max(f64::MIN_POSITIVE);
            if err / den > 1e-4 {
                m.skip("second order: delta_functional_derivative == FD of dF/drho", "finite difference unresolved");
            } else {
                let raw = sup(&(&dmu_d - &fd));
                if std::env::var("FV_DEBUG").is_ok() {
                    debug_second_order::<D>(&p, func, t, &rho, &phi, &sp2, &dmu_d, &fd);
                }
                m.count(&bucket(&format!("second-order|{class}"), raw / den), 1);
                let dev = if raw.is_nan() { f64::NAN } else { (raw - 3.0 * err).max(0.0) / den };
                m.check("second order: delta_functional_derivative == FD of dF/drho", &sig("second-order"), idx, dev, TOL_SECOND, || {
                    detail(json!({"sup_analytic": sup(&dmu_d), "sup_difference": raw, "fd_error_bar": err}))
                });
            }
        }
        None => m.skip("second order: delta_functional_derivative == FD of dF/drho", "finite difference not available"),
    }

    // Euler-Lagrange pieces
    let bulk_seg = Array1::from_vec(rho_seg.clone());
    let Ok((res0, _, _, exp_dfdrho, rho_p)) = p.verif_euler_lagrange_equation(&rho, &bulk_seg, false) else {
        m.skip("second order: Newton operator == FD of the Euler-Lagrange residual", "euler_lagrange_equation returned Err");
        return;
    };
    let mvec = func.m().into_owned();
    let mut dmu_t = dmu.clone();
    for (mut q, &mm) in dmu_t.outer_iter_mut().zip(mvec.iter()) {
        q /= mm;
    }
    let delta_i = p.verif_delta_bond_integrals(&exp_dfdrho, &dmu_t);

    // bond integrals (heterosegmented chains only)
    let nbonds = func.bond_lengths(t).edge_count();
    if nbonds > 0 {
        let b = dmu_t.clone().into_dyn();
        let ex = exp_dfdrho.clone().into_dyn();
        let lni_of = |e: f64| -> Option<ArrayD<f64>> {
            let x: Array<f64, D::Larger> = (&ex * &b.mapv(|v| (-e * v).exp())).into_dimensionality().unwrap();
            let i = func.bond_integrals(t, &x, &p.convolver).into_dyn().mapv(f64::ln);
            sup(&i).is_finite().then_some(i)
        };
        let di = delta_i.clone().into_dyn();
        match fd_best(&lni_of, 1e-15) {
            Some((fd, err)) => {
                let den = sup(&di).max(sup(&fd)).max(f64::MIN_POSITIVE);
                if err / den > 1e-4 {
                    m.skip("second order: delta_bond_integrals == FD of ln(bond integrals)", "finite difference unresolved");
                } else {
                    let raw = sup(&(&di - &fd));
                    let dev = if raw.is_nan() { f64::NAN } else { (raw - 3.0 * err).max(0.0) / den };
                    m.check("second order: delta_bond_integrals == FD of ln(bond integrals)", &sig("bond-integrals"), idx, dev, TOL_SECOND, || {
                        detail(json!({"sup_analytic": sup(&di), "sup_difference": raw, "fd_error_bar": err, "bonds": nbonds}))
                    });
                }
            }
            None => m.skip("second order: delta_bond_integrals == FD of ln(bond integrals)", "finite difference not available"),
        }
    } else {
        let z = sup(&delta_i.clone().into_dyn());
        m.check_bool("second order: delta_bond_integrals == 0 without bonds", &sig("bond-integrals-none"), idx, z == 0.0, || detail(json!({"sup": z})));
    }

    // Newton operator J phi = phi + (dmu/m - delta_i) rho_p  ==  - d res / d e
    let jphi = (&phi + &((&dmu_t - &delta_i) * &rho_p)).into_dyn();
    let noise_r = 1e-15 * sup(&rho_d);
    let res_of = |e: f64| -> Option<ArrayD<f64>> {
        let r = &rho + &(&phi * e);
        let (res, _, _, _, _) = p.verif_euler_lagrange_equation(&r, &bulk_seg, false).ok()?;
        Some(-res.into_dyn())
    };
    let _ = res0;
    match fd_best(&res_of, noise_r) {
        Some((fd, err)) => {
            let den = sup(&jphi).max(sup(&fd)).max(f64::MIN_POSITIVE);
            if err / den > 1e-4 {
                m.skip("second order: Newton operator == FD of the Euler-Lagrange residual", "finite difference unresolved");
            } else {
                let raw = sup(&(&jphi - &fd));
                m.count(&bucket(&format!("newton-operator|{class}"), raw / den), 1);
                let dev = if raw.is_nan() { f64::NAN } else { (raw - 3.0 * err).max(0.0) / den };
                m.check("second order: Newton operator == FD of the Euler-Lagrange residual", &sig("newton-operator"), idx, dev, TOL_SECOND, || {
                    detail(json!({"sup_analytic": sup(&jphi), "sup_difference": raw, "fd_error_bar": err}))
                });
            }
        }
        None => m.skip("second order: Newton operator == FD of the Euler-Lagrange residual", "finite difference not available"),
    }
}

fn nclass(n: usize) -> &'static str {
    match n {
        0..=40 => "<=40",
        41..=128 => "41..128",
        129..=512 => "129..512",
        _ => ">512",
    }
}

/// histogram key for deviations that are recorded but not judged
fn bucket(prefix: &str, dev: f64) -> String {
    let b = if !dev.is_finite() {
        "nan"
    } else if dev < 1e-12 {
        "lt1e-12"
    } else if dev < 1e-10 {
        "1e-12..1e-10"
    } else if dev < 1e-8 {
        "1e-10..1e-8"
    } else if dev < 1e-6 {
        "1e-8..1e-6"
    } else if dev < 1e-5 {
        "1e-6..1e-5"
    } else if dev < 1e-4 {
        "1e-5..1e-4"
    } else if dev < 1e-3 {
        "1e-4..1e-3"
    } else if dev < 1e-2 {
        "1e-3..1e-2"
    } else if dev < 1e-1 {
        "1e-2..1e-1"
    } else {
        "ge1e-1"
    };
    format!("raw_dev_hist:{prefix}:{b}")
}

/// diagnostic dump (FV_DEBUG): where analytic and finite-difference second order differ most,
/// the weighted densities there, and the split by contribution
#[allow(clippy::too_many_arguments)]
fn debug_second_order<D>(
    p: &DFTProfile<D, Model>,
    func: &Arc<Model>,
    t: f64,
    rho: &Array<f64, D::Larger>,
    phi: &Array<f64, D::Larger>,
    sp2: &[Array<f64, <D::Larger as Dimension>::Larger>],
    ad: &ArrayD<f64>,
    fd: &ArrayD<f64>,
) where
    D: Dimension + RemoveAxis + 'static,
    D::Larger: Dimension<Smaller = D>,
    D::Smaller: Dimension<Larger = D>,
    <D::Larger as Dimension>::Larger: Dimension<Smaller = D::Larger>,
{
    let diff = ad - fd;
    let (mut best, mut at) = (0.0, vec![]);
    for (ix, v) in diff.indexed_iter() {
        if v.abs() > best {
            best = v.abs();
            at = ix.slice().to_vec();
        }
    }
    eprintln!("DBG second order: max |AD-FD| = {best:e} at {at:?}: AD={:e} FD={:e}", ad[IxDyn(&at)], fd[IxDyn(&at)]);
    let wd = p.convolver.weighted_densities(rho);
    let names: Vec<String> = func.contributions().map(|c| c.to_string()).collect();
    for (k, w) in wd.iter().enumerate() {
        let w = w.clone().into_dyn();
        let vals: Vec<f64> = (0..w.shape()[0])
            .map(|r| {
                let mut ix = at.clone();
                ix[0] = r;
                w[IxDyn(&ix)]
            })
            .collect();
        eprintln!("DBG   wd[{}] at that point: {:?}", names[k], vals);
        let wmin: Vec<f64> = w.outer_iter().map(|r| r.iter().cloned().fold(f64::INFINITY, f64::min)).collect();
        eprintln!("DBG   wd[{}] minima over the grid: {:?}", names[k], wmin);
    }
    // per contribution
    let contribs: Vec<_> = func.contributions().collect();
    for k in 0..contribs.len() {
        let sp2k: Vec<_> = sp2.iter().enumerate().map(|(j, a)| if j == k { a.clone() } else { Array::zeros(a.raw_dim()) }).collect();
        let adk = p.verif_delta_functional_derivative(phi, &sp2k).into_dyn();
        let mu_k = |e: f64| -> Option<ArrayD<f64>> {
            let r = rho + &(phi * e);
            let wd = p.convolver.weighted_densities(&r);
            let pds: Vec<Array<f64, D::Larger>> = wd
                .iter()
                .enumerate()
                .map(|(j, w)| {
                    let mut pd = ArrayD::<f64>::zeros(w.raw_dim().into_dyn());
                    if j == k {
                        let nwd = w.shape()[0];
                        let ngrid = w.len() / nwd;
                        let w2 = w.clone().into_dyn().into_shape_with_order((nwd, ngrid)).unwrap();
                        let mut f = Array1::zeros(ngrid);
                        let mut pd2 = ndarray::Array2::zeros((nwd, ngrid));
                        contribs[k].first_partial_derivatives(t, w2, f.view_mut(), pd2.view_mut()).ok()?;
                        pd = pd2.into_dyn().into_shape_with_order(w.raw_dim().into_dyn()).unwrap();
                    }
                    Some(pd.into_dimensionality().unwrap())
                })
                .collect::<Option<Vec<_>>>()?;
            Some(p.convolver.functional_derivative(&pds).into_dyn())
        };
        match fd_best(&mu_k, 0.0) {
            Some((fdk, err)) => eprintln!("DBG   contribution {}: sup AD={:e} sup FD={:e} sup(AD-FD)={:e} fd_err={:e}", names[k], sup(&adk), sup(&fdk), sup(&(&adk - &fdk)), err),
            None => eprintln!("DBG   contribution {}: FD not available", names[k]),
        }
    }
}
