//! C07 — stability verdicts are sound and separate one-phase from two-phase feeds.
use crate::c04::shipped_pure_cases;
use crate::c05::hydrocarbon_pairs;
use crate::monitor::*;
use crate::prng::{hash_f64s, Rng};
use crate::zoo::*;
use feos_core::{
    Contributions, DensityInitialization, EosError, PhaseEquilibrium, ReferenceSystem,
    SolverOptions, State,
};
use ndarray::{arr1, Array1};
use quantity::*;
use serde_json::{json, Value};

/// tangent-plane distance of `trial` to `feed`, recomputed from ln phi and mole fractions
fn tpd(feed: &St, trial: &St) -> f64 {
    let (lz, lw) = (feed.ln_phi(), trial.ln_phi());
    let z = &feed.molefracs;
    let w = &trial.molefracs;
    let ws: f64 = w.sum();
    (0..z.len())
        .map(|i| {
            let wi = w[i] / ws;
            if wi > 0.0 && z[i] > 0.0 {
                wi * (wi.ln() + lw[i] - z[i].ln() - lz[i])
            } else {
                0.0
            }
        })
        .sum()
}

/// checks on the trial phases of one analysed state; returns (analysis ok, unstable)
fn analyse(m: &mut Monitor, fam: &str, case: u64, feed: &St, info: &Value) -> Option<bool> {
    let Ok(trials) = no_panic(|| feed.stability_analysis(SolverOptions::default())) else {
        m.check_bool("stability:no panic", &format!("{fam}|panic"), case, false, || info.clone());
        return None;
    };
    let Ok(trials) = trials else {
        m.skip("stability", "analysis returned Err (allowed)");
        return None;
    };
    let pf = feed.pressure(Contributions::Total).to_reduced();
    for t in &trials {
        let d = tpd(feed, t);
        // strictly negative; -d is the margin
        // the library accepts a trial phase below -1e-8 in its own evaluation; recomputed from
        // ln phi (|ln phi| ~ 10, accurate to ~1e-9 relative) a distance within +-1e-7 of zero
        // cannot be told from a negative one: counted as marginal, not judged
        if d.abs() < 1e-7 {
            m.count("trial_phase_tpd_marginal", 1);
            m.skip("trial:tangent plane distance < 0", "marginal (|tpd| < 1e-7)");
        } else {
            m.check_bool("trial:tangent plane distance < 0", &format!("{fam}|tpd"), case, d < 0.0, || json!({"info": info, "tpd": d, "w": t.molefracs.to_vec()}));
        }
        m.check_bool("trial:same temperature", &format!("{fam}|trial T"), case, t.temperature == feed.temperature, || info.clone());
        let pt = t.pressure(Contributions::Total).to_reduced();
        m.check("trial:same pressure", &format!("{fam}|trial p"), case, ((pt - pf).abs() - 1e-11).max(0.0) / pf.abs(), 1e-6, || json!({"info": info, "p_trial": pt, "p_feed": pf}));
    }
    Some(!trials.is_empty())
}

/// Soundness for a phase that is itself part of a converged equilibrium: its tangent-plane
/// distance to the coexisting phase is zero up to the solver tolerance (flash: 1e-8 on the
/// K-factor residual), which is the same size as the library's acceptance threshold
/// (-1e-8). Only a clearly negative distance (< -1e-6) refutes the clause; verdicts inside
/// the tolerance band are counted as marginal.
fn equilibrium_phase_stable(m: &mut Monitor, sig: &str, case: u64, s: &St, info: &Value) {
    let Ok(Ok(trials)) = no_panic(|| s.stability_analysis(SolverOptions::default())) else {
        return;
    };
    let worst = trials.iter().map(|t| tpd(s, t)).fold(0.0f64, f64::min);
    if !trials.is_empty() && worst > -1e-6 {
        m.count("equilibrium_phase_marginally_unstable", 1);
        m.skip("sound:equilibrium phases are stable", "marginal (|tpd| within solver tolerance)");
        return;
    }
    m.check_bool("sound:equilibrium phases are stable", sig, case, trials.is_empty(), || json!({"info": info, "tpd": worst, "x": s.molefracs.to_vec()}));
}

pub fn run(cfg: Config) -> i32 {
    let mut m = Monitor::new(cfg.clone());
    mixtures(&mut m, &cfg);
    zoo(&mut m, &cfg);
    pure(&mut m, &cfg);
    m.gate(m.clause_checked("complete:feed inside envelope is unstable") >= 300, "fewer than 300 interior feeds");
    m.gate(m.clause_checked("sound:equilibrium phases are stable") >= 300, "fewer than 300 equilibrium phases");
    m.gate(m.clause_checked("trial:tangent plane distance < 0") >= 300, "fewer than 300 trial phases observed");
    m.gate(m.clause_checked("pure:metastable state is unstable") >= 100, "fewer than 100 pure metastable states");
    let h = feos_core::verif::counters();
    let get = |k: &str| h.iter().find(|(n, _)| *n == k).map_or(0, |(_, c)| *c);
    m.gate(get("StabilityNewtonSwitch") > 0, "Newton branch of the tpd minimisation never reached");
    m.finish(
        "binary PC-SAFT hydrocarbon pairs (T_c ratio < 1.8) x T in [0.6,0.95] T_c,low x random compositions: feeds at 2 %, 50 %, 98 % between dew and bubble pressure (interior), and 2 % outside on both sides (exterior); the phases of converged bubble/dew/flash calculations; random zoo mixtures (associating, polar, gc, SAFT-VR Mie, PR, ternaries); pure fluids of the shipped collections on a density grid across the binodal (2 % margins, metastable states between binodal and spinodal); distinct by (system, T, x, p or rho)",
        false,
        &[
            "tangent-plane distance recomputed in the harness from State::ln_phi and molefracs of analysed and trial state",
            "exterior/interior classification relies on converged bubble and dew points of the same model (C05) and, for pure fluids, on PhaseEquilibrium::pure (C04)",
        ],
    )
}

fn mixtures(m: &mut Monitor, cfg: &Config) {
    let pairs = hydrocarbon_pairs(1.8);
    let n = cfg.tier.pick(1200, 150_000);
    let idx: Vec<u64> = (0..n).collect();
    par_cases(m, &idx, |m, _, &i| {
        let mut rng = Rng::derive(cfg.seed, "c07-mix", i);
        let pr = &pairs[rng.below(pairs.len())];
        let tlow = pr.tc[0].min(pr.tc[1]);
        let t = tlow * rng.range(0.6, 0.95);
        let temp = Temperature::from_reduced(t);
        let x1 = rng.range(0.02, 0.98);
        let x = arr1(&[x1, 1.0 - x1]);
        let sys = format!("{}+{}", pr.names[0], pr.names[1]);
        let info = json!({"system": sys, "T": t, "x1": x1});
        let case = i * 100;
        let (Ok(b), Ok(d)) = (
            PhaseEquilibrium::bubble_point(&pr.eos, temp, &x, None, None, Default::default()),
            PhaseEquilibrium::dew_point(&pr.eos, temp, &x, None, None, Default::default()),
        ) else {
            m.skip("mixture", "bubble or dew point not found");
            return;
        };
        let (pb, pd) = (b.vapor().pressure(Contributions::Total), d.vapor().pressure(Contributions::Total));
        // collapsed pseudo-equilibria (known finding of C05) carry no information
        if !((pb / pd).into_value() > 1.001) || pb.to_reduced() < 1e-9 {
            m.skip("mixture", "no envelope at this composition");
            return;
        }
        m.case("hc-pair", hash_f64s(&sys, &[t, x1]), true);
        if m.samples.len() < 3 {
            m.sample(json!({"system": sys, "T": t, "x1": x1, "p_dew": pd.to_reduced(), "p_bub": pb.to_reduced()}));
        }
        let feed = Moles::from_reduced(&x * 1.0);
        // soundness: equilibrium phases are stable. At vanishing pressure the fugacity
        // coefficients (ln Z of the liquid root) carry a relative error of ~1e-12/p, which
        // exceeds the library's acceptance threshold for a negative tangent-plane distance
        for (k, s) in [b.liquid(), b.vapor(), d.liquid(), d.vapor()].into_iter().enumerate() {
            if s.pressure(Contributions::Total).to_reduced() < 1e-5 {
                m.skip("sound:equilibrium phases are stable", "vanishing pressure: tangent-plane distance not resolvable");
                continue;
            }
            equilibrium_phase_stable(m, "pcsaft-hc|equilibrium phase unstable", case + k as u64, s, &info);
        }
        // interior feeds
        for (k, frac) in [0.02, 0.5, 0.98].iter().enumerate() {
            let p = pd + (pb - pd) * *frac;
            let c = case + 10 + k as u64;
            // the liquid-like and the vapour-like root of the feed are both inside the envelope
            for init in [DensityInitialization::None, DensityInitialization::Liquid, DensityInitialization::Vapor] {
                let Ok(fs) = State::new_npt(&pr.eos, temp, p, &feed, init) else {
                    continue;
                };
                let info2 = json!({"info": info, "fraction between dew and bubble pressure": frac, "rho": fs.density.to_reduced()});
                if let Some(unstable) = analyse(m, "pcsaft-hc", c, &fs, &info2) {
                    m.check_bool("complete:feed inside envelope is unstable", "pcsaft-hc|interior feed reported stable", c, unstable, || info2.clone());
                }
            }
            feos_core::verif::trace_begin();
            let flash = PhaseEquilibrium::tp_flash(&pr.eos, temp, p, &feed, None, SolverOptions::default(), None);
            let trace = feos_core::verif::trace_end();
            match flash {
                Ok(_) => {
                    m.check_bool("complete:flash from interior feed splits", "pcsaft-hc|flash", c, true, || info.clone());
                }
                Err(EosError::NoPhaseSplit) => {
                    m.check_bool("complete:flash from interior feed splits", "pcsaft-hc|NoPhaseSplit for interior feed", c, false, || json!({"info": info, "fraction": frac}));
                }
                Err(e) => {
                    // not a phase split either: the feed is reported unstable but the flash gives up
                    let kind: String = e.to_string().chars().take(40).collect();
                    // recorded defect (F24 of C05): Rachford-Rice breaks down when one component is
                    // practically non-volatile; that class is keyed separately
                    // trace specification: the flash owns two starts when the stability analysis of
                    // its feed returns two trial phases, and must have tried both before giving up.
                    // Giving up after all available starts is the recorded Rachford-Rice defect
                    // (F24 of C05); giving up earlier is something else
                    let ntrials = State::new_npt(&pr.eos, temp, p, &feed, DensityInitialization::None)
                        .ok()
                        .and_then(|fs| no_panic(|| fs.stability_analysis(SolverOptions::default())).ok())
                        .and_then(|r| r.ok())
                        .map_or(0, |t| t.len());
                    let tried2 = trace.contains(&feos_core::verif::Site::TpFlashInit2);
                    let class = if tried2 || ntrials < 2 { "all available starts tried" } else { "second start not tried although two trial phases exist" };
                    m.check_bool("complete:flash from interior feed splits", &format!("pcsaft-hc|flash error for interior feed|{class}"), c, false, || json!({"info": info, "fraction": frac, "error": kind, "trial phases of the feed": ntrials, "second start tried": tried2}));
                }
            }
        }
        // exterior feeds: 2 % outside the envelope
        for (k, p) in [pd * 0.98, pb * 1.02].into_iter().enumerate() {
            let c = case + 20 + k as u64;
            let Ok(fs) = State::new_npt(&pr.eos, temp, p, &feed, DensityInitialization::None) else {
                continue;
            };
            let info2 = json!({"info": info, "side": if k == 0 { "below dew pressure" } else { "above bubble pressure" }});
            if let Some(unstable) = analyse(m, "pcsaft-hc", c, &fs, &info2) {
                m.check_bool("sound:feed outside envelope is stable", "pcsaft-hc|exterior feed reported unstable", c, !unstable, || info2.clone());
            }
        }
        // pure edges of the binary model: a feed in which one component is absent (mole number
        // exactly zero), 2 x above / 0.5 x below that component's saturation pressure, is stable
        for k in 0..2 {
            let sub = std::sync::Arc::new(feos_core::Components::subset(&*pr.eos, &[k]));
            let Ok(sat) = PhaseEquilibrium::pure(&sub, temp, None, SolverOptions::default()) else {
                continue;
            };
            let ps = sat.vapor().pressure(Contributions::Total);
            if ps.to_reduced() < 1e-5 {
                continue;
            }
            let mut n = [0.0, 0.0];
            n[k] = 1.0;
            let edge = Moles::from_reduced(arr1(&n));
            for (j, (p, init)) in [(ps * 0.5, DensityInitialization::Vapor), (ps * 2.0, DensityInitialization::Liquid)].into_iter().enumerate() {
                let Ok(fs) = State::new_npt(&pr.eos, temp, p, &edge, init) else {
                    continue;
                };
                let c = case + 30 + 2 * k as u64 + j as u64;
                let info2 = json!({"info": info, "pure edge": pr.names[k], "p/p_sat": if j == 0 { 0.5 } else { 2.0 }});
                if let Some(unstable) = analyse(m, "pcsaft-hc edge", c, &fs, &info2) {
                    m.check_bool("sound:pure edge of a mixture outside its binodal is stable", "pcsaft-hc|pure edge reported unstable", c, !unstable, || info2.clone());
                }
            }
        }
    });
}

fn zoo(m: &mut Monitor, cfg: &Config) {
    let col = Collections::load();
    let n = cfg.tier.pick(1000, 120_000);
    let idx: Vec<u64> = (0..n).collect();
    par_cases(m, &idx, |m, _, &i| {
        let mut rng = Rng::derive(cfg.seed, "c07-zoo", i);
        let fam = *rng.choose(&["pcsaft-assoc", "pcsaft-polar", "gc-pcsaft", "saftvrmie", "pr", "pcsaft"]);
        let nc = 2 + rng.below(2);
        let Some(spec) = random_spec(&col, fam, nc, &mut rng) else {
            return;
        };
        let Ok(eos) = spec.build() else {
            return;
        };
        let tcs: Vec<f64> = (0..nc).filter_map(|k| spec.select(&[k]).build().ok().and_then(|e| pure_tc(&e))).collect();
        if tcs.len() != nc {
            return;
        }
        let lo = tcs.iter().cloned().fold(f64::INFINITY, f64::min);
        let hi = tcs.iter().cloned().fold(0.0, f64::max);
        if hi / lo > 1.8 {
            return;
        }
        let t = lo * rng.range(0.6, 0.95);
        let temp = Temperature::from_reduced(t);
        let x = Array1::from_vec(rng.simplex(nc, 0.0, 0.5).iter().map(|v| v.max(0.02)).collect());
        let x = &x / x.sum();
        let info = json!({"model": spec, "T": t, "x": x.to_vec()});
        let case = 5_000_000 + i * 100;
        let (Ok(b), Ok(d)) = (
            PhaseEquilibrium::bubble_point(&eos, temp, &x, None, None, Default::default()),
            PhaseEquilibrium::dew_point(&eos, temp, &x, None, None, Default::default()),
        ) else {
            return;
        };
        let (pb, pd) = (b.vapor().pressure(Contributions::Total), d.vapor().pressure(Contributions::Total));
        // close-boiling mixtures have an envelope so narrow that the Gibbs energy gained by
        // splitting is below the library's acceptance threshold; the completeness clause is
        // applied to envelopes at least 20 % wide
        if !((pb / pd).into_value() > 1.2) || pd.to_reduced() < 1e-9 {
            return;
        }
        // the envelope must be a vapour-liquid one: a "bubble point" whose second phase is
        // another liquid (liquid-liquid equilibrium at high pressure) does not bound the
        // two-phase region of the feed in the sense of the statement
        if !(b.vapor().density < 0.5 * b.liquid().density && d.vapor().density < 0.5 * d.liquid().density) {
            m.count("zoo_envelopes_not_vapour_liquid", 1);
            return;
        }
        // only systems without liquid-liquid demixing: all four saturated phases stable
        let sat_stable = [b.liquid(), b.vapor(), d.liquid(), d.vapor()].iter().all(|s| s.is_stable(SolverOptions::default()).unwrap_or(false));
        if !sat_stable {
            m.count("zoo_systems_with_unstable_saturated_phase", 1);
            return;
        }
        m.case(&format!("zoo:{fam}"), hash_f64s(&spec.label(), &[t, x[0]]), true);
        let feed = Moles::from_reduced(x.clone());
        let frac = rng.range(0.05, 0.95);
        let p = pd + (pb - pd) * frac;
        if let Ok(fs) = State::new_npt(&eos, temp, p, &feed, DensityInitialization::None) {
            // arbitrary (perturbed, strongly non-ideal) zoo mixtures: the trial phases are judged
            // (tpd < 0), the verdict itself is counted; completeness is judged on the shipped
            // hydrocarbon pairs above, where bubble and dew points delimit the envelope reliably
            if let Some(unstable) = analyse(m, fam, case, &fs, &info) {
                m.count(if unstable { "zoo_interior_feed_unstable" } else { "zoo_interior_feed_reported_stable" }, 1);
            }
        }
        if let Ok(f) = PhaseEquilibrium::tp_flash(&eos, temp, p, &feed, None, SolverOptions::default(), None) {
            for (k, s) in [f.vapor(), f.liquid()].into_iter().enumerate() {
                // a two-phase flash inside a three-phase region necessarily returns an unstable
                // phase; for arbitrary zoo mixtures this is counted, the soundness clause itself
                // is judged on the (near-ideal) hydrocarbon pairs above
                if let Ok(false) = s.is_stable(SolverOptions::default()) {
                    m.count("zoo_flash_phase_reported_unstable", 1);
                }
                let _ = k;
            }
        }
    });
}

fn pure(m: &mut Monitor, cfg: &Config) {
    let cases = shipped_pure_cases();
    let stride = cfg.tier.pick(3, 1);
    let sel: Vec<_> = cases.into_iter().enumerate().filter(|(i, c)| i % stride == 0 && c.must_succeed).map(|(_, c)| c).collect();
    par_cases(m, &sel, |m, ci, pc| {
        let Ok(eos) = pc.spec.build() else {
            return;
        };
        let Some(tc) = pure_tc(&eos) else {
            return;
        };
        let mut rng = Rng::derive(cfg.seed, "c07-pure", ci);
        let tr = rng.range(0.55, 0.95);
        let t = tr * tc;
        let temp = Temperature::from_reduced(t);
        let Ok(vle) = PhaseEquilibrium::pure(&eos, temp, None, SolverOptions::default()) else {
            return;
        };
        let Ok([sv, sl]) = State::spinodal(&eos, temp, None, SolverOptions::default()) else {
            return;
        };
        let (rv, rl) = (vle.vapor().density.to_reduced(), vle.liquid().density.to_reduced());
        let (spv, spl) = (sv.density.to_reduced(), sl.density.to_reduced());
        if !(rv < spv && spv < spl && spl < rl) {
            return; // spinodal pair unusable (C06 finding)
        }
        let case = 9_000_000 + ci * 10;
        let info = json!({"file": pc.file, "name": pc.name, "T/Tc": tr});
        let mk = |rho: f64| State::new_pure(&eos, temp, Density::from_reduced(rho)).ok();
        // outside the binodal
        for (k, rho) in [rv * 0.98, rv * 0.5, rl * 1.02].into_iter().enumerate() {
            if let Some(s) = mk(rho) {
                m.case("pure", hash_f64s(&pc.name, &[tr, rho]), true);
                if let Some(unstable) = analyse(m, pc.family, case + k as u64, &s, &info) {
                    m.check_bool("pure:state outside the binodal is stable", &format!("{}|pure exterior reported unstable", pc.family), case + k as u64, !unstable, || json!({"info": info, "rho/rho_sat": if k < 2 { rho / rv } else { rho / rl }}));
                }
            }
        }
        // metastable: between binodal and spinodal
        for (k, rho) in [rv + 0.5 * (spv - rv), rl - 0.5 * (rl - spl), rv * 1.02, rl * 0.98].into_iter().enumerate() {
            if !(rho > rv && rho < spv || rho > spl && rho < rl) {
                continue;
            }
            if let Some(s) = mk(rho) {
                if s.pressure(Contributions::Total).to_reduced() <= 0.0 {
                    m.skip("pure", "metastable liquid at negative pressure (no vapour trial exists)");
                    continue;
                }
                m.case("pure", hash_f64s(&pc.name, &[tr, rho]), true);
                if let Some(unstable) = analyse(m, pc.family, case + 5 + k as u64, &s, &info) {
                    m.check_bool("pure:metastable state is unstable", &format!("{}|pure metastable reported stable", pc.family), case + 5 + k as u64, unstable, || json!({"info": info, "rho": rho, "rho_v": rv, "rho_l": rl}));
                }
            }
        }
    });
}
