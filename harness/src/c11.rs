//! C11 — results do not depend on evaluation history or on the thread schedule.
//!
//! A. key level: every cached derivative key of a state (Zeroth, First, Second, SecondMixed in
//!    both orders, Third over V, T, N_i) requested on a fresh state gives the canonical value;
//!    every sequence of requests (exhaustive up to length 2 / 3, random up to 50) on a fresh
//!    state or a clone must return the canonical values, and every entry found in the cache
//!    afterwards (including silently stored by-products) must equal its canonical value.
//! B. getter level: random sequences (<= 50) of ~50 public getters, with clones taken midway.
//! C. schedules: 2..16 threads share one Arc<State> and issue sequences concurrently, a yield
//!    hook in front of the cache lock perturbs the schedule; client-side results and the
//!    recorded cache trace are checked offline against the canonical values.
//! D. PhaseDiagram::par_pure against PhaseDiagram::pure over (threads, chunksize, npoints).
//! E. (thorough) the same storm under ThreadSanitizer and Miri in the harness-sched crate.
use crate::c01::{joback_for, Eos};
use crate::c04::shipped_pure_cases;
use crate::monitor::*;
use crate::prng::{hash_f64s, Rng};
use crate::zoo::*;
use feos_core::verif;
use feos_core::{Contributions, EquationOfState, PhaseDiagram, ReferenceSystem, SolverOptions, State};
use quantity::*;
use serde_json::{json, Value};
use std::collections::{HashMap, HashSet};
use std::sync::atomic::{AtomicU64, Ordering};
use std::sync::{Arc, Barrier};

type S = State<Eos>;
/// request: (order, code1, code2, mixed)
type Req = (u8, i32, i32, bool);

/// two evaluations of the same derivative through different dual-number types agree to
/// round-off (measured <= 1e-13 of the vector norm); a mis-keyed entry is O(1) away
const TOL: f64 = 1e-10;

fn rank(c: i32) -> i32 {
    match c {
        -1 => 0,
        -3 => 1,
        i => 2 + i,
    }
}

/// key under which the library stores / traces a request
fn cache_key(r: Req) -> (u8, i32, i32) {
    match r.0 {
        0 => (0, -2, -2),
        1 => (1, r.1, -2),
        2 => {
            let (a, b) = if r.3 { (r.1, r.2) } else { (r.1, r.1) };
            if rank(a) <= rank(b) {
                (2, a, b)
            } else {
                (2, b, a)
            }
        }
        _ => (3, r.1, -2),
    }
}

fn requests(n: usize) -> Vec<Req> {
    let mut dirs = vec![-1, -3];
    dirs.extend(0..n as i32);
    let mut v = vec![(0u8, -2, -2, false)];
    for &d in &dirs {
        v.push((1, d, -2, false));
    }
    for &d in &dirs {
        v.push((2, d, d, false));
    }
    for &a in &dirs {
        for &b in &dirs {
            v.push((2, a, b, true));
        }
    }
    for &d in &dirs {
        v.push((3, d, -2, false));
    }
    v
}

fn eval(s: &S, r: Req) -> f64 {
    s.verif_derivative(r.0, r.1, r.2, r.3)
}

/// deviation of two values relative to a natural scale of the key (never smaller than the
/// values themselves): derivatives that vanish by cancellation are judged on the size of the terms
fn dev(a: f64, b: f64, scale: f64) -> f64 {
    if a == b {
        return 0.0;
    }
    if !(a.is_finite() && b.is_finite()) {
        return f64::NAN;
    }
    (a - b).abs() / a.abs().max(b.abs()).max(scale)
}

fn vdev(a: &[f64], b: &[f64]) -> f64 {
    if a.len() != b.len() {
        return f64::NAN;
    }
    let sc = a.iter().chain(b.iter()).fold(0.0f64, |m, x| m.max(x.abs()));
    let mut w = 0.0f64;
    for (x, y) in a.iter().zip(b) {
        if x == y || (x.is_nan() && y.is_nan()) {
            continue;
        }
        if !(x.is_finite() && y.is_finite()) {
            return f64::NAN;
        }
        w = w.max((x - y).abs() / sc.max(1e-300));
    }
    w
}

struct Sys {
    fam: &'static str,
    eos: Arc<Eos>,
    ss: StateSpec,
    label: String,
    n: usize,
}

impl Sys {
    fn fresh(&self) -> Option<S> {
        State::new_nvt(&self.eos, self.ss.temperature(), self.ss.volume(), &self.ss.moles()).ok()
    }
    /// derivatives with respect to a trace component lose digits like 1/x_i (the mole-fraction
    /// weighted sums are differentiated by differences of nearly equal terms): allowance factor
    fn dilute(&self, r: Req) -> f64 {
        let f = |c: i32| if c >= 0 { (1e-3 / self.ss.x[c as usize]).max(1.0) } else { 1.0 };
        match r.0 {
            0 => 1.0,
            2 => f(r.1).max(f(if r.3 { r.2 } else { r.1 })),
            _ => f(r.1),
        }
    }
    /// natural magnitude of a derivative: (|A_res| + N T) / (product of the variables)
    fn scale(&self, a0: f64, r: Req) -> f64 {
        let base = a0.abs() + self.ss.ntot * self.ss.t;
        let mag = |c: i32| match c {
            -1 => self.ss.ntot / self.ss.rho,
            -3 => self.ss.t,
            _ => self.ss.ntot,
        };
        1e-2 * match r.0 {
            0 => base,
            1 => base / mag(r.1),
            2 => base / (mag(r.1) * mag(if r.3 { r.2 } else { r.1 })),
            _ => base / mag(r.1).powi(3),
        }
    }
}

fn sample_sys(col: &Collections, rng: &mut Rng, ncs: &[usize]) -> Option<Sys> {
    let fam = *rng.choose(EOS_FAMILIES);
    let n = if fam == "epcsaft" { 3 } else { *rng.choose(ncs) };
    let spec = random_spec(col, fam, n, rng)?;
    let mc = ModelCase::new(fam, spec).ok()?;
    let ss = sample_state(&mc, rng, 0.6, 2.5);
    let eos: Arc<Eos> = Arc::new(EquationOfState::new(joback_for(mc.n, rng), mc.eos.clone()));
    let label = mc.label();
    Some(Sys { fam, eos, ss, label, n: mc.n })
}

pub fn run(cfg: Config) -> i32 {
    let mut m = Monitor::new(cfg.clone());
    let t0 = std::time::Instant::now();
    let phase = |name: &str| eprintln!("[C11] {:7.1}s {name}", t0.elapsed().as_secs_f64());
    phase("key-level histories");
    key_histories(&mut m, &cfg);
    phase("getter histories");
    getter_histories(&mut m, &cfg);
    phase("thread storms");
    storms(&mut m, &cfg);
    phase("par_pure vs pure");
    par_pure(&mut m, &cfg);
    phase("sanitizer stage");
    if cfg.only_case.map_or(true, |c| c >= crate::c11san::CASE_BASE) {
        crate::c11san::run(&mut m, &cfg);
    }
    m.gate(m.clause_checked("history:requested value equals first-evaluation value") >= 500, "fewer than 500 (state, key) pairs");
    m.gate(m.clause_checked("getters:value after a random history equals first-evaluation value") >= 500, "fewer than 500 getter histories");
    m.gate(m.clause_checked("schedule:values returned to the threads equal first-evaluation values") >= 300, "fewer than 300 storms");
    m.gate(m.clause_checked("par_pure:same states in the same order as pure") >= 100, "fewer than 100 parallel diagrams");
    m.finish(
        "random models of every EoS family (1-3 components) with a Joback ideal gas at random states; key level: all 1-, 2- (and, thorough, 3-) element sequences over every cached derivative key incl. both orders of mixed second derivatives, random sequences up to 50, on fresh states and clones, cache contents compared entry by entry after every sequence; getter level: random sequences up to 50 over the public getters with clones midway; schedules: 2-16 threads on one shared state with a schedule-perturbing hook before the cache lock, client results and the cache trace checked offline; par_pure vs pure over random (threads, chunksize, npoints). Distinct by (model, state, sequence)",
        false,
        &[
            "values are compared to 1e-10 of their natural scale: by-products computed with a different dual-number type differ from the direct evaluation in the last bits (measured <= 1e-13)",
            "a second miss on the same key (duplicate computation) is counted, not judged: it does not change any value",
        ],
    )
}

// ---------------------------------------------------------------------------------------
// A. key-level histories

fn key_histories(m: &mut Monitor, cfg: &Config) {
    let col = Collections::load();
    let n = cfg.tier.pick(160, 4000);
    let idx: Vec<u64> = (0..n).collect();
    par_cases(m, &idx, |m, _, &i| {
        let mut rng = Rng::derive(cfg.seed, "c11-keys", i);
        let Some(sys) = sample_sys(&col, &mut rng, &[1, 2, 2, 2, 3]) else {
            return;
        };
        let reqs = requests(sys.n);
        // canonical: each key is the first property evaluated on a fresh state
        let mut canon: HashMap<Req, f64> = HashMap::new();
        for &r in &reqs {
            let Some(s) = sys.fresh() else {
                return;
            };
            canon.insert(r, eval(&s, r));
        }
        let a0 = canon[&(0, -2, -2, false)];
        if !canon.values().all(|v| v.is_finite()) {
            m.skip("history", "non-finite canonical value");
            return;
        }
        // canonical value per cache key (either request order of a mixed derivative)
        let mut canon_key: HashMap<(u8, i32, i32), (f64, Req)> = HashMap::new();
        for &r in &reqs {
            canon_key.entry(cache_key(r)).or_insert((canon[&r], r));
        }
        m.case(sys.fam, sys.ss.hash(&sys.label), true);
        let case = i * 1000;
        let info = json!({"model": sys.label, "state": sys.ss.json(), "keys": reqs.len()});
        // both request orders of a mixed derivative and Second(d) vs SecondMixed(d,d) agree
        for &r in &reqs {
            let (v, r0) = canon_key[&cache_key(r)];
            m.check("history:request orders of one cache key agree", &format!("{}|order|{}", sys.fam, r.0), case, dev(canon[&r], v, sys.scale(a0, r)) / sys.dilute(r), TOL, || json!({"info": info, "request": format!("{r:?}"), "other": format!("{r0:?}"), "values": [canon[&r], v]}));
        }

        let pristine = sys.fresh().unwrap();
        let mut worst: HashMap<Req, (f64, Vec<Req>, f64)> = HashMap::new();
        let mut worst_entry: (f64, String) = (0.0, String::new());
        let mut nseq = 0u64;
        let mut ncmp = 0u64;
        let mut ncmp_derived = 0u64;
        let mut run_seq = |seq: &[Req], use_clone: bool, rng: &mut Rng| {
            let s = if use_clone { pristine.clone() } else { sys.fresh().unwrap() };
            for (k, &r) in seq.iter().enumerate() {
                let v = eval(&s, r);
                let d = dev(v, canon[&r], sys.scale(a0, r)) / sys.dilute(r);
                ncmp += 1;
                let e = worst.entry(r).or_insert((0.0, vec![], 0.0));
                if d.is_nan() || d > e.0 {
                    *e = (if d.is_nan() { f64::INFINITY } else { d }, seq[..=k].to_vec(), v);
                }
            }
            // everything the cache now holds, requested or stored as a by-product
            let (_, entries, _, _) = s.verif_cache_snapshot();
            for (k, v) in entries {
                if let Some(&(c, r)) = canon_key.get(&k) {
                    let d = dev(v, c, sys.scale(a0, r)) / sys.dilute(r);
                    ncmp += 1;
                    if d.is_nan() || d > worst_entry.0 {
                        worst_entry = (if d.is_nan() { f64::INFINITY } else { d }, format!("entry {k:?} = {v} after {seq:?}, first-evaluation value {c}"));
                    }
                }
            }
            // a clone carries the history; evaluating on it leaves the original untouched
            if rng.bool(0.1) {
                let before = s.verif_cache_snapshot();
                let c = s.clone();
                let r = *rng.choose(&reqs);
                let v = eval(&c, r);
                let d = dev(v, canon[&r], sys.scale(a0, r)) / sys.dilute(r);
                let after = s.verif_cache_snapshot();
                ncmp += 1;
                let e = worst.entry(r).or_insert((0.0, vec![], 0.0));
                if d.is_nan() || d > e.0 {
                    *e = (if d.is_nan() { f64::INFINITY } else { d }, seq.to_vec(), v);
                }
                if before.1.len() != after.1.len() || c.verif_cache_snapshot().0 == before.0 {
                    worst_entry = (f64::INFINITY, format!("clone shares its cache with the original after {seq:?}"));
                }
            }
            nseq += 1;
        };
        // exhaustive length 1 and 2; length 3 exhaustive (thorough, <= 2 components) or sampled
        for &a in &reqs {
            run_seq(&[a], false, &mut rng);
            for &b in &reqs {
                let cl = rng.bool(0.5);
                run_seq(&[a, b], cl, &mut rng);
            }
        }
        let full3 = cfg.tier == Tier::Thorough && sys.n <= 2 && i % 2 == 0;
        if full3 {
            for &a in &reqs {
                for &b in &reqs {
                    for &c in &reqs {
                        run_seq(&[a, b, c], true, &mut rng);
                    }
                }
            }
            m.count("states_with_exhaustive_length_3", 1);
        } else {
            for _ in 0..cfg.tier.pick(1500, 4000) {
                let s3 = [*rng.choose(&reqs), *rng.choose(&reqs), *rng.choose(&reqs)];
                run_seq(&s3, true, &mut rng);
            }
        }
        for _ in 0..cfg.tier.pick(100, 300) {
            let len = 4 + rng.below(47);
            let seq: Vec<Req> = (0..len).map(|_| *rng.choose(&reqs)).collect();
            let cl = rng.bool(0.5);
            run_seq(&seq, cl, &mut rng);
        }
        drop(run_seq);
        m.count("key_sequences_executed", nseq);
        m.count("key_values_compared", ncmp);
        for &r in &reqs {
            if let Some((d, seq, v)) = worst.get(&r) {
                m.check("history:requested value equals first-evaluation value", &format!("{}|key|{}", sys.fam, r.0), case, *d, TOL, || {
                    json!({"info": info, "request": format!("{r:?}"), "history": format!("{seq:?}"), "value": v, "first-evaluation value": canon[&r]})
                });
            }
        }
        // a state derived from an evaluated one (update_temperature) must not inherit its history
        {
            let mut worst_d = (0.0f64, String::new());
            for _ in 0..cfg.tier.pick(10, 30) {
                let t2 = sys.ss.temperature() * rng.range(0.8, 1.25);
                let fresh2 = |r: Req| State::new_nvt(&sys.eos, t2, sys.ss.volume(), &sys.ss.moles()).ok().map(|s| eval(&s, r));
                let s = sys.fresh().unwrap();
                let len = rng.below(6);
                let seq: Vec<Req> = (0..len).map(|_| *rng.choose(&reqs)).collect();
                for &r in &seq {
                    eval(&s, r);
                }
                let Ok(d) = s.update_temperature(t2) else {
                    continue;
                };
                for _ in 0..4 {
                    let r = *rng.choose(&reqs);
                    let (Some(c), v) = (fresh2(r), eval(&d, r)) else {
                        continue;
                    };
                    let dv = dev(v, c, sys.scale(a0, r)) / sys.dilute(r);
                    ncmp_derived += 1;
                    if dv.is_nan() || dv > worst_d.0 {
                        worst_d = (if dv.is_nan() { f64::INFINITY } else { dv }, format!("{r:?} = {v} on update_temperature(T x {:.4}) after {seq:?}; fresh state: {c}", (t2 / sys.ss.temperature()).into_value()));
                    }
                }
                // ... and the source keeps its values
                let r = *rng.choose(&reqs);
                let dv = dev(eval(&s, r), canon[&r], sys.scale(a0, r)) / sys.dilute(r);
                if dv.is_nan() || dv > worst_d.0 {
                    worst_d = (if dv.is_nan() { f64::INFINITY } else { dv }, format!("source state changed by update_temperature: {r:?}"));
                }
            }
            m.check("history:a state derived by update_temperature equals a fresh state", &format!("{}|update_temperature", sys.fam), case, worst_d.0, TOL, || json!({"info": info, "worst": worst_d.1}));
        }
        m.count("derived_state_values_compared", ncmp_derived);
        m.check("history:every cache entry equals its first-evaluation value", &format!("{}|entries", sys.fam), case, worst_entry.0, TOL, || json!({"info": info, "worst": worst_entry.1}));
    });
}

// ---------------------------------------------------------------------------------------
// B. public getters

type Getter = (&'static str, fn(&S) -> Vec<f64>);

fn getters() -> Vec<Getter> {
    use Contributions::*;
    fn flat(a: ndarray::Array2<f64>) -> Vec<f64> {
        a.iter().cloned().collect()
    }
    vec![
        ("residual_helmholtz_energy", |s| vec![s.residual_helmholtz_energy().to_reduced()]),
        ("residual_entropy", |s| vec![s.residual_entropy().to_reduced()]),
        ("pressure(Residual)", |s| vec![s.pressure(Residual).to_reduced()]),
        ("pressure(Total)", |s| vec![s.pressure(Total).to_reduced()]),
        ("residual_chemical_potential", |s| s.residual_chemical_potential().to_reduced().to_vec()),
        ("compressibility", |s| vec![s.compressibility(Total)]),
        ("dp_dv", |s| vec![s.dp_dv(Total).to_reduced()]),
        ("dp_drho", |s| vec![s.dp_drho(Residual).to_reduced()]),
        ("dp_dt", |s| vec![s.dp_dt(Total).to_reduced()]),
        ("dp_dni", |s| s.dp_dni(Total).to_reduced().to_vec()),
        ("d2p_dv2", |s| vec![s.d2p_dv2(Total).to_reduced()]),
        ("d2p_drho2", |s| vec![s.d2p_drho2(Total).to_reduced()]),
        ("structure_factor", |s| vec![s.structure_factor()]),
        ("partial_molar_volume", |s| s.partial_molar_volume().to_reduced().to_vec()),
        ("dmu_dni(Residual)", |s| flat(s.dmu_dni(Residual).to_reduced())),
        ("dmu_dni(Total)", |s| flat(s.dmu_dni(Total).to_reduced())),
        ("isothermal_compressibility", |s| vec![s.isothermal_compressibility().to_reduced()]),
        ("ds_res_dt", |s| vec![s.ds_res_dt().to_reduced()]),
        ("d2s_res_dt2", |s| vec![s.d2s_res_dt2().to_reduced()]),
        ("dmu_res_dt", |s| s.dmu_res_dt().to_reduced().to_vec()),
        ("ln_phi", |s| s.ln_phi().to_vec()),
        ("dln_phi_dt", |s| s.dln_phi_dt().to_reduced().to_vec()),
        ("dln_phi_dp", |s| s.dln_phi_dp().to_reduced().to_vec()),
        ("dln_phi_dnj", |s| flat(s.dln_phi_dnj().to_reduced())),
        ("thermodynamic_factor", |s| flat(s.thermodynamic_factor())),
        ("residual_molar_isochoric_heat_capacity", |s| vec![s.residual_molar_isochoric_heat_capacity().to_reduced()]),
        ("dc_v_res_dt", |s| vec![s.dc_v_res_dt().to_reduced()]),
        ("residual_molar_isobaric_heat_capacity", |s| vec![s.residual_molar_isobaric_heat_capacity().to_reduced()]),
        ("residual_enthalpy", |s| vec![s.residual_enthalpy().to_reduced()]),
        ("residual_internal_energy", |s| vec![s.residual_internal_energy().to_reduced()]),
        ("residual_gibbs_energy", |s| vec![s.residual_gibbs_energy().to_reduced()]),
        ("chemical_potential", |s| s.chemical_potential(Total).to_reduced().to_vec()),
        ("dmu_dt", |s| s.dmu_dt(Total).to_reduced().to_vec()),
        ("molar_isochoric_heat_capacity", |s| vec![s.molar_isochoric_heat_capacity(Total).to_reduced()]),
        ("dc_v_dt", |s| vec![s.dc_v_dt(Total).to_reduced()]),
        ("molar_isobaric_heat_capacity", |s| vec![s.molar_isobaric_heat_capacity(Total).to_reduced()]),
        ("entropy", |s| vec![s.entropy(Total).to_reduced()]),
        ("partial_molar_entropy", |s| s.partial_molar_entropy().to_reduced().to_vec()),
        ("ds_dt", |s| vec![s.ds_dt(Total).to_reduced()]),
        ("d2s_dt2", |s| vec![s.d2s_dt2(Total).to_reduced()]),
        ("enthalpy", |s| vec![s.enthalpy(Total).to_reduced()]),
        ("partial_molar_enthalpy", |s| s.partial_molar_enthalpy().to_reduced().to_vec()),
        ("helmholtz_energy", |s| vec![s.helmholtz_energy(Total).to_reduced()]),
        ("internal_energy", |s| vec![s.internal_energy(Total).to_reduced()]),
        ("gibbs_energy", |s| vec![s.gibbs_energy(Total).to_reduced()]),
        ("joule_thomson", |s| vec![s.joule_thomson().to_reduced()]),
        ("isentropic_compressibility", |s| vec![s.isentropic_compressibility().to_reduced()]),
        ("isenthalpic_compressibility", |s| vec![s.isenthalpic_compressibility().to_reduced()]),
        ("thermal_expansivity", |s| vec![s.thermal_expansivity().to_reduced()]),
        ("grueneisen_parameter", |s| vec![s.grueneisen_parameter()]),
        ("pressure_contributions", |s| s.pressure_contributions().iter().map(|(_, p)| p.to_reduced()).collect()),
        ("residual_helmholtz_energy_contributions", |s| s.residual_helmholtz_energy_contributions().iter().map(|(_, p)| p.to_reduced()).collect()),
    ]
}

/// First-evaluation value of every getter and a measured round-off scale of each: the largest
/// change of the value when T or V move by 1e-14 relative (smooth change <= 1e-14 |g| x
/// conditioning, plus the round-off noise of the terms the getter is assembled from). Getters
/// that vanish by cancellation (dln_phi_dnj of a pure fluid) are judged against that scale.
fn getter_canon(sys: &Sys, gs: &[Getter]) -> Option<(Vec<Vec<f64>>, Vec<f64>)> {
    let mut canon: Vec<Vec<f64>> = Vec::with_capacity(gs.len());
    for g in gs {
        canon.push(g.1(&sys.fresh()?));
    }
    let mut noise = vec![0.0f64; gs.len()];
    for (ft, fv) in [(1.0 + 1e-14, 1.0), (1.0 - 1e-14, 1.0), (1.0, 1.0 + 1e-14), (1.0, 1.0 - 1e-14)] {
        for (k, g) in gs.iter().enumerate() {
            let s = State::new_nvt(&sys.eos, sys.ss.temperature() * ft, sys.ss.volume() * fv, &sys.ss.moles()).ok()?;
            let v = g.1(&s);
            for (a, b) in v.iter().zip(&canon[k]) {
                if a.is_finite() && b.is_finite() {
                    noise[k] = noise[k].max((a - b).abs());
                }
            }
        }
    }
    // getters that are exactly zero by cancellation of O(1/N) terms (dln_phi_dnj and the
    // thermodynamic factor of a pure fluid) can come out as exactly 0 in all five evaluations:
    // the measured scale is then 0 although the terms carry round-off of ~1e-16 / N
    for (k, g) in gs.iter().enumerate() {
        let term = match g.0 {
            "dln_phi_dnj" => 1.0 / sys.ss.ntot,
            "thermodynamic_factor" => 1.0,
            _ => 0.0,
        };
        noise[k] = noise[k].max(1e-15 * term);
    }
    Some((canon, noise))
}

/// deviation of a getter result from its first-evaluation value in units of the allowance
/// 1e-8 max|g| + 1e3 x round-off scale, expressed so that the tolerance is 1e-8
fn gdev(v: &[f64], c: &[f64], noise: f64) -> f64 {
    if v.len() != c.len() {
        return f64::NAN;
    }
    let sc = c.iter().chain(v.iter()).fold(0.0f64, |m, x| m.max(x.abs()));
    let allowed = 1e-8 * sc + 1e3 * noise;
    let mut w = 0.0f64;
    for (x, y) in v.iter().zip(c) {
        if x == y || (x.is_nan() && y.is_nan()) {
            continue;
        }
        if !(x.is_finite() && y.is_finite()) {
            return f64::NAN;
        }
        w = w.max((x - y).abs());
    }
    if w == 0.0 {
        0.0
    } else {
        1e-8 * w / allowed.max(1e-300)
    }
}

fn getter_histories(m: &mut Monitor, cfg: &Config) {
    let col = Collections::load();
    let gs = getters();
    let n = cfg.tier.pick(400, 20_000);
    let idx: Vec<u64> = (0..n).collect();
    par_cases(m, &idx, |m, _, &i| {
        let mut rng = Rng::derive(cfg.seed, "c11-getters", i);
        let Some(sys) = sample_sys(&col, &mut rng, &[1, 2, 2, 3, 4]) else {
            return;
        };
        let Some((canon, noise)) = getter_canon(&sys, &gs) else {
            return;
        };
        // ill-conditioned combinations (division by a vanishing dp/dv etc.) are not judged
        let usable: Vec<usize> = (0..gs.len()).filter(|&k| canon[k].iter().all(|v| v.is_finite())).collect();
        if usable.len() < 20 {
            m.skip("getters", "fewer than 20 finite getters at this state");
            return;
        }
        m.case(sys.fam, sys.ss.hash(&format!("g{}", sys.label)), true);
        let case = 2_000_000 + i * 100;
        let info = json!({"model": sys.label, "state": sys.ss.json()});
        let mut worst: HashMap<usize, (f64, Vec<&'static str>)> = HashMap::new();
        let mut ncmp = 0u64;
        for _ in 0..cfg.tier.pick(20, 40) {
            let len = 1 + rng.below(50);
            let mut s = sys.fresh().unwrap();
            let mut hist: Vec<&'static str> = vec![];
            for _ in 0..len {
                if rng.bool(0.08) {
                    s = s.clone();
                    hist.push("<clone>");
                }
                let k = *rng.choose(&usable);
                let v = gs[k].1(&s);
                hist.push(gs[k].0);
                let d = gdev(&v, &canon[k], noise[k]);
                ncmp += 1;
                let e = worst.entry(k).or_insert((0.0, vec![]));
                if d.is_nan() || d > e.0 {
                    *e = (if d.is_nan() { f64::INFINITY } else { d }, hist.clone());
                }
            }
        }
        m.count("getter_values_compared", ncmp);
        for (k, (d, hist)) in worst {
            // combinations that divide by small differences amplify the last-bit differences
            m.check("getters:value after a random history equals first-evaluation value", &format!("{}|getter|{}", sys.fam, gs[k].0), case + k as u64, d, 1e-8, || json!({"info": info, "getter": gs[k].0, "history": hist, "first-evaluation value": canon[k], "round-off scale": noise[k]}));
        }
    });
}

// ---------------------------------------------------------------------------------------
// C. thread schedules

static YIELD_CALLS: AtomicU64 = AtomicU64::new(0);

fn install_yield_hook() {
    verif::set_yield_hook(Some(Box::new(|_site| {
        thread_local! { static X: std::cell::Cell<u64> = std::cell::Cell::new(0); }
        YIELD_CALLS.fetch_add(1, Ordering::Relaxed);
        let r = X.with(|x| {
            let mut v = x.get();
            if v == 0 {
                v = 0x9E37_79B9_7F4A_7C15 ^ (verif::thread_id().wrapping_mul(0xD1B5_4A32_D192_ED03));
            }
            v ^= v << 13;
            v ^= v >> 7;
            v ^= v << 17;
            x.set(v);
            v
        });
        match r % 16 {
            0..=3 => std::thread::yield_now(),
            4 => {
                let spins = (r >> 8) % 2000;
                for _ in 0..spins {
                    std::hint::spin_loop();
                }
            }
            5 => std::thread::sleep(std::time::Duration::from_micros((r >> 8) % 30)),
            _ => {}
        }
    })));
}

fn storms(m: &mut Monitor, cfg: &Config) {
    let col = Collections::load();
    let gs = getters();
    let n = cfg.tier.pick(1200, 20_000);
    install_yield_hook();
    verif::cache_trace_take();
    verif::cache_trace_enable(true);
    let mut interleavings: HashSet<u64> = HashSet::new();
    let mut switches = 0u64;
    let mut events = 0u64;
    let mut double_miss = 0u64;
    for i in 0..n {
        let mut rng = Rng::derive(cfg.seed, "c11-storm", i);
        let Some(sys) = sample_sys(&col, &mut rng, &[1, 2, 2, 3]) else {
            continue;
        };
        let reqs = requests(sys.n);
        let key_level = rng.bool(0.6);
        let nthreads = 2 + rng.below(15);
        let case = 5_000_000 + i;
        // canonical values
        let mut canon_req: HashMap<Req, f64> = HashMap::new();
        let mut canon_get: Vec<Vec<f64>> = vec![];
        let mut noise_get: Vec<f64> = vec![];
        let mut ok = true;
        for &r in &reqs {
            match sys.fresh() {
                Some(s) => {
                    canon_req.insert(r, eval(&s, r));
                }
                None => ok = false,
            }
        }
        if !ok || !canon_req.values().all(|v| v.is_finite()) {
            continue;
        }
        let a0 = canon_req[&(0, -2, -2, false)];
        let mut canon_key: HashMap<(u8, i32, i32), (f64, Req)> = HashMap::new();
        for &r in &reqs {
            canon_key.entry(cache_key(r)).or_insert((canon_req[&r], r));
        }
        if !key_level {
            let Some((c, nz)) = getter_canon(&sys, &gs) else {
                continue;
            };
            canon_get = c;
            noise_get = nz;
        }
        let usable: Vec<usize> = (0..canon_get.len()).filter(|&k| canon_get[k].iter().all(|v| v.is_finite())).collect();
        if !key_level && usable.len() < 20 {
            continue;
        }
        // per-thread programs
        let programs: Vec<Vec<usize>> = (0..nthreads)
            .map(|_| {
                let len = 3 + rng.below(48);
                (0..len).map(|_| if key_level { rng.below(reqs.len()) } else { *rng.choose(&usable) }).collect()
            })
            .collect();
        let shared = Arc::new(sys.fresh().unwrap());
        let sid = shared.verif_cache_snapshot().0;
        verif::cache_trace_take();
        let barrier = Arc::new(Barrier::new(nthreads));
        // (thread id, results)
        let results: Vec<(u64, Vec<Vec<f64>>)> = std::thread::scope(|sc| {
            let hs: Vec<_> = programs
                .iter()
                .map(|prog| {
                    let st = shared.clone();
                    let b = barrier.clone();
                    let reqs = &reqs;
                    let gs = &gs;
                    sc.spawn(move || {
                        b.wait();
                        let out: Vec<Vec<f64>> = prog.iter().map(|&k| if key_level { vec![eval(&st, reqs[k])] } else { gs[k].1(&st) }).collect();
                        (verif::thread_id(), out)
                    })
                })
                .collect();
            hs.into_iter().map(|h| h.join().unwrap()).collect()
        });
        let trace: Vec<_> = verif::cache_trace_take().into_iter().filter(|e| e.state == sid).collect();
        m.case(if key_level { "storm-keys" } else { "storm-getters" }, sys.ss.hash(&format!("{}{}{}", sys.label, nthreads, i)), true);
        let info = json!({"model": sys.label, "state": sys.ss.json(), "threads": nthreads, "level": if key_level { "keys" } else { "getters" }, "program lengths": programs.iter().map(|p| p.len()).collect::<Vec<_>>()});
        // (1) client boundary: every value returned to a thread equals the canonical value
        let mut worst = (0.0f64, String::new());
        for (t, (_, out)) in results.iter().enumerate() {
            for (j, v) in out.iter().enumerate() {
                let k = programs[t][j];
                let d = if key_level { dev(v[0], canon_req[&reqs[k]], sys.scale(a0, reqs[k])) / sys.dilute(reqs[k]) } else { gdev(v, &canon_get[k], noise_get[k]) };
                if d.is_nan() || d > worst.0 {
                    worst = (if d.is_nan() { f64::INFINITY } else { d }, if key_level { format!("thread {t} op {j}: {:?} = {}", reqs[k], v[0]) } else { format!("thread {t} op {j}: {}", gs[k].0) });
                }
            }
        }
        m.check("schedule:values returned to the threads equal first-evaluation values", &format!("{}|storm|{}", sys.fam, if key_level { "keys" } else { "getters" }), case, worst.0, if key_level { TOL } else { 1e-8 }, || json!({"info": info, "worst": worst.1}));
        // (2) trace specification over the recorded cache events of the shared state
        let mut bad: Option<String> = None;
        let mut last_seq = None;
        let mut seen: HashMap<(u8, i32, i32), f64> = HashMap::new();
        let mut order_hash = 0xcbf2_9ce4_8422_2325u64;
        let mut last_thread = None;
        let mut wtrace = 0.0f64;
        for e in &trace {
            if let Some(l) = last_seq {
                if e.seq <= l {
                    bad.get_or_insert(format!("sequence numbers not increasing at {}", e.seq));
                }
            }
            last_seq = Some(e.seq);
            if let Some(&(c, r)) = canon_key.get(&e.key) {
                let d = dev(e.value, c, sys.scale(a0, r)) / sys.dilute(r);
                if d.is_nan() || d > wtrace {
                    wtrace = if d.is_nan() { f64::INFINITY } else { d };
                }
            } else {
                bad.get_or_insert(format!("event on a key that no request maps to: {:?}", e.key));
            }
            match seen.get(&e.key) {
                Some(&prev) => {
                    if !e.hit {
                        double_miss += 1;
                    }
                    // third derivatives and truly mixed second derivatives are never stored as
                    // by-products of another request: once present they are bitwise stable
                    if (e.key.0 == 3 || (e.key.0 == 2 && e.key.1 != e.key.2)) && e.value.to_bits() != prev.to_bits() {
                        bad.get_or_insert(format!("key {:?} returned {} and later {}", e.key, prev, e.value));
                    }
                }
                None => {
                    seen.insert(e.key, e.value);
                }
            }
            order_hash = (order_hash ^ e.thread).wrapping_mul(0x0000_0100_0000_01B3);
            if last_thread.is_some() && last_thread != Some(e.thread) {
                switches += 1;
            }
            last_thread = Some(e.thread);
        }
        events += trace.len() as u64;
        interleavings.insert(order_hash);
        // (3) linkage client <-> trace for key-level storms: per thread, the events are exactly its calls
        if key_level {
            for (t, (tid, out)) in results.iter().enumerate() {
                let evs: Vec<_> = trace.iter().filter(|e| e.thread == *tid).collect();
                if evs.len() != out.len() {
                    bad.get_or_insert(format!("thread {t}: {} calls but {} cache events", out.len(), evs.len()));
                    continue;
                }
                for (j, e) in evs.iter().enumerate() {
                    let r = reqs[programs[t][j]];
                    if e.key != cache_key(r) || e.value.to_bits() != out[j][0].to_bits() {
                        bad.get_or_insert(format!("thread {t} op {j}: request {r:?} returned {} but the cache event is {:?} = {}", out[j][0], e.key, e.value));
                    }
                }
            }
        }
        m.check("schedule:every cache event carries the first-evaluation value of its key", &format!("{}|trace values", sys.fam), case, wtrace, TOL, || json!({"info": info}));
        m.check_bool("schedule:trace is a valid history of one cache (order, stable keys, one event per call)", &format!("{}|trace spec", sys.fam), case, bad.is_none(), || json!({"info": info, "problem": bad}));
    }
    verif::cache_trace_enable(false);
    verif::set_yield_hook(None);
    m.count("storm_cache_events_checked", events);
    m.count("storm_distinct_interleavings", interleavings.len() as u64);
    m.count("storm_thread_switches_in_traces", switches);
    m.count("storm_duplicate_computations", double_miss);
    m.count("storm_yield_hook_calls", YIELD_CALLS.load(Ordering::Relaxed));
    m.gate(interleavings.len() >= 100, "fewer than 100 distinct interleavings observed");
    m.gate(switches >= 1000, "fewer than 1000 thread switches inside the traces");
}

// ---------------------------------------------------------------------------------------
// D. par_pure vs pure

fn par_pure(m: &mut Monitor, cfg: &Config) {
    let cases = shipped_pure_cases();
    let n = cfg.tier.pick(400, 8000);
    // one after the other: every call owns a thread pool of up to 16 threads, and the pools of
    // finished calls wind down asynchronously
    for i in 0..n {
        if i % 64 == 0 {
            // let terminated pools release their threads (each holds several memory mappings)
            let t0 = std::time::Instant::now();
            while live_threads() > 64 && t0.elapsed().as_secs() < 10 {
                std::thread::sleep(std::time::Duration::from_millis(5));
            }
        }
        let mut rng = Rng::derive(cfg.seed, "c11-par", i);
        let pc = &cases[rng.below(cases.len())];
        if !pc.must_succeed {
            continue;
        }
        let Ok(eos) = pc.spec.build() else {
            continue;
        };
        let Some(tc) = pure_tc(&eos) else {
            continue;
        };
        let np = 3 + rng.below(58);
        let threads = 1 + rng.below(16);
        let chunk = 1 + rng.below(np + 3);
        let tmin = Temperature::from_reduced(tc * rng.range(pc.tr_min.max(0.5), 0.9));
        let tcq = Some(Temperature::from_reduced(tc));
        let Ok(seq) = PhaseDiagram::pure(&eos, tmin, np, tcq, SolverOptions::default()) else {
            continue;
        };
        let Ok(pool) = rayon::ThreadPoolBuilder::new().num_threads(threads).build() else {
            m.skip("par_pure", "thread pool could not be created");
            continue;
        };
        let case = 8_000_000 + i;
        let info = json!({"file": pc.file, "name": pc.name, "npoints": np, "threads": threads, "chunksize": chunk, "T_min/T_c": tmin.to_reduced() / tc});
        let par = match PhaseDiagram::par_pure(&eos, tmin, np, chunk, pool, tcq, SolverOptions::default()) {
            Ok(p) => p,
            Err(e) => {
                m.check_bool("par_pure:same states in the same order as pure", &format!("{}|par_pure error", pc.family), case, false, || json!({"info": info, "error": e.to_string()}));
                continue;
            }
        };
        m.case("par_pure", hash_f64s(&pc.name, &[np as f64, threads as f64, chunk as f64, tmin.to_reduced()]), true);
        if par.states.len() != seq.states.len() {
            // a point that fails with one starting value and not with the other is a solver
            // robustness matter (C04/C12), reported under its own signature
            m.check_bool("par_pure:same states in the same order as pure", &format!("par_pure number of points|{}|{}", pc.file, pc.name), case, false, || json!({"info": info, "pure": seq.states.len(), "par_pure": par.states.len()}));
            continue;
        }
        let mut worst = 0.0f64;
        let mut wk = 0;
        let mut collapse = false;
        for (k, (a, b)) in seq.states.iter().zip(par.states.iter()).enumerate() {
            let d = crate::c12::pe_dev(a, b);
            if crate::c12::near_trivial(a) != crate::c12::near_trivial(b) {
                collapse = true;
            }
            if d.is_nan() || d > worst {
                worst = if d.is_nan() { f64::INFINITY } else { d };
                wk = k;
            }
        }
        let sig = if collapse { "near-critical collapse|par_pure vs pure".to_string() } else { format!("{}|par_pure states", pc.family) };
        m.check("par_pure:same states in the same order as pure", &sig, case, worst, 1e-7, || {
            json!({"info": info, "point": wk, "pure": crate::c12::pe_json(&seq.states[wk]), "par_pure": crate::c12::pe_json(&par.states[wk])})
        });
    }
    m.count("threads_alive_after_par_pure", live_threads());
}

fn live_threads() -> u64 {
    std::fs::read_to_string("/proc/self/status")
        .ok()
        .and_then(|s| s.lines().find_map(|l| l.strip_prefix("Threads:").and_then(|v| v.trim().parse().ok())))
        .unwrap_or(0)
}

#[allow(dead_code)]
fn _unused(_: Value) {}
