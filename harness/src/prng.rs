//! Deterministic PRNG (SplitMix64 seeding + xoshiro256**). Every random choice of
//! the harness derives from VERIF_SEED through `Rng::derive`.

#[derive(Clone, Debug)]
pub struct Rng {
    s: [u64; 4],
}

fn splitmix(x: &mut u64) -> u64 {
    *x = x.wrapping_add(0x9E3779B97F4A7C15);
    let mut z = *x;
    z = (z ^ (z >> 30)).wrapping_mul(0xBF58476D1CE4E5B9);
    z = (z ^ (z >> 27)).wrapping_mul(0x94D049BB133111EB);
    z ^ (z >> 31)
}

pub fn hash_str(s: &str) -> u64 {
    // FNV-1a
    let mut h: u64 = 0xcbf29ce484222325;
    for b in s.bytes() {
        h ^= b as u64;
        h = h.wrapping_mul(0x100000001b3);
    }
    h
}

pub fn hash_f64s(tag: &str, xs: &[f64]) -> u64 {
    let mut h = hash_str(tag);
    for x in xs {
        h ^= x.to_bits();
        h = h.wrapping_mul(0x100000001b3);
        h ^= h >> 29;
    }
    h
}

impl Rng {
    pub fn new(seed: u64) -> Self {
        let mut x = seed;
        let s = [
            splitmix(&mut x),
            splitmix(&mut x),
            splitmix(&mut x),
            splitmix(&mut x),
        ];
        Rng { s }
    }

    /// Independent stream for a named sub-task / case index.
    pub fn derive(seed: u64, tag: &str, idx: u64) -> Self {
        let mut x = seed ^ hash_str(tag).rotate_left(17) ^ idx.wrapping_mul(0xD6E8FEB86659FD93);
        let _ = splitmix(&mut x);
        Rng::new(x)
    }

    pub fn next_u64(&mut self) -> u64 {
        let result = self.s[1].wrapping_mul(5).rotate_left(7).wrapping_mul(9);
        let t = self.s[1] << 17;
        self.s[2] ^= self.s[0];
        self.s[3] ^= self.s[1];
        self.s[1] ^= self.s[2];
        self.s[0] ^= self.s[3];
        self.s[2] ^= t;
        self.s[3] = self.s[3].rotate_left(45);
        result
    }

    /// uniform in [0,1)
    pub fn f(&mut self) -> f64 {
        (self.next_u64() >> 11) as f64 / (1u64 << 53) as f64
    }

    pub fn range(&mut self, lo: f64, hi: f64) -> f64 {
        lo + (hi - lo) * self.f()
    }

    pub fn log_range(&mut self, lo: f64, hi: f64) -> f64 {
        (lo.ln() + (hi.ln() - lo.ln()) * self.f()).exp()
    }

    /// uniform integer in [0, n)
    pub fn below(&mut self, n: usize) -> usize {
        if n == 0 {
            return 0;
        }
        (self.next_u64() % n as u64) as usize
    }

    pub fn bool(&mut self, p: f64) -> bool {
        self.f() < p
    }

    pub fn choose<'a, T>(&mut self, xs: &'a [T]) -> &'a T {
        &xs[self.below(xs.len())]
    }

    pub fn shuffle<T>(&mut self, xs: &mut [T]) {
        for i in (1..xs.len()).rev() {
            let j = self.below(i + 1);
            xs.swap(i, j);
        }
    }

    pub fn permutation(&mut self, n: usize) -> Vec<usize> {
        let mut p: Vec<usize> = (0..n).collect();
        self.shuffle(&mut p);
        p
    }

    /// standard normal (Box-Muller)
    pub fn normal(&mut self) -> f64 {
        let u1 = (1.0 - self.f()).max(1e-300);
        let u2 = self.f();
        (-2.0 * u1.ln()).sqrt() * (2.0 * std::f64::consts::PI * u2).cos()
    }

    /// point in the open simplex (flat Dirichlet); with probability `p_edge`
    /// one entry is pushed towards `edge` (near-degenerate composition).
    pub fn simplex(&mut self, n: usize, p_edge: f64, edge: f64) -> Vec<f64> {
        if n == 1 {
            return vec![1.0];
        }
        let mut x: Vec<f64> = (0..n).map(|_| -(1.0 - self.f()).max(1e-300).ln()).collect();
        let s: f64 = x.iter().sum();
        x.iter_mut().for_each(|v| *v /= s);
        // keep away from exact zero
        x.iter_mut().for_each(|v| *v = v.max(1e-3));
        if self.bool(p_edge) {
            let i = self.below(n);
            x[i] = edge;
        }
        let s: f64 = x.iter().sum();
        x.iter_mut().for_each(|v| *v /= s);
        x
    }
}
