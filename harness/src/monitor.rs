//! Verdict bookkeeping shared by all checks: per-clause counters, worst deviations,
//! distinct non-trivial case hashes, witnesses, known-findings matching, evidence
//! and replay files, exit codes.
use serde_json::{json, Map, Value};
use std::collections::{BTreeMap, HashSet};
use std::path::PathBuf;
use std::time::Instant;

#[derive(Clone, Copy, PartialEq, Eq, Debug)]
pub enum Tier {
    Quick,
    Thorough,
}

impl Tier {
    pub fn name(self) -> &'static str {
        match self {
            Tier::Quick => "quick",
            Tier::Thorough => "thorough",
        }
    }
    /// pick by tier
    pub fn pick<T>(self, quick: T, thorough: T) -> T {
        match self {
            Tier::Quick => quick,
            Tier::Thorough => thorough,
        }
    }
}

#[derive(Clone, Debug, Default)]
pub struct ClauseStat {
    pub checked: u64,
    pub held: u64,
    pub violated: u64,
    pub known: u64,
    pub skipped: BTreeMap<String, u64>,
    pub worst: f64,
    pub worst_at: String,
    pub tol: f64,
}

#[derive(Clone, Debug)]
pub struct Violation {
    pub clause: String,
    pub signature: String,
    pub case: u64,
    pub deviation: f64,
    pub tol: f64,
    pub detail: Value,
}

#[derive(Clone, Debug)]
pub struct Config {
    pub id: &'static str,
    pub tier: Tier,
    pub seed: u64,
    pub only_case: Option<u64>,
    pub verif_dir: PathBuf,
    pub repo_dir: PathBuf,
}

pub struct Monitor {
    pub cfg: Config,
    pub clauses: BTreeMap<String, ClauseStat>,
    pub evaluations: u64,
    pub distinct: HashSet<u64>,
    pub families: BTreeMap<String, u64>,
    pub samples: Vec<Value>,
    /// (clause, signature) -> (count, first witnesses)
    pub violations: BTreeMap<(String, String), (u64, Vec<Violation>)>,
    pub notes: BTreeMap<String, Value>,
    pub inconclusive: Vec<String>,
    pub max_samples: usize,
    start: Instant,
}

pub fn scaled_err(a: f64, b: f64, scale: f64) -> f64 {
    if !a.is_finite() || !b.is_finite() {
        return f64::INFINITY;
    }
    (a - b).abs() / a.abs().max(b.abs()).max(scale.abs()).max(f64::MIN_POSITIVE)
}

impl Monitor {
    pub fn new(cfg: Config) -> Self {
        Monitor {
            cfg,
            clauses: BTreeMap::new(),
            evaluations: 0,
            distinct: HashSet::new(),
            families: BTreeMap::new(),
            samples: Vec::new(),
            violations: BTreeMap::new(),
            notes: BTreeMap::new(),
            inconclusive: Vec::new(),
            max_samples: 5,
            start: Instant::now(),
        }
    }

    /// An empty monitor with the same configuration, for use in a worker.
    pub fn fork(&self) -> Monitor {
        let mut m = Monitor::new(self.cfg.clone());
        m.max_samples = self.max_samples;
        m.start = self.start;
        m
    }

    pub fn absorb(&mut self, o: Monitor) {
        for (k, v) in o.clauses {
            let e = self.clauses.entry(k).or_default();
            e.checked += v.checked;
            e.held += v.held;
            e.violated += v.violated;
            e.known += v.known;
            for (r, c) in v.skipped {
                *e.skipped.entry(r).or_default() += c;
            }
            if v.worst > e.worst || (v.worst.is_nan() && !e.worst.is_nan()) {
                e.worst = v.worst;
                e.worst_at = v.worst_at;
            }
            if v.tol != 0.0 {
                e.tol = v.tol;
            }
        }
        self.evaluations += o.evaluations;
        self.distinct.extend(o.distinct);
        for (k, v) in o.families {
            *self.families.entry(k).or_default() += v;
        }
        for s in o.samples {
            if self.samples.len() < self.max_samples {
                self.samples.push(s);
            }
        }
        for (k, (n, ws)) in o.violations {
            let e = self.violations.entry(k).or_insert((0, Vec::new()));
            e.0 += n;
            for w in ws {
                if e.1.len() < 2 {
                    e.1.push(w);
                }
            }
        }
        self.inconclusive.extend(o.inconclusive);
        for (k, v) in o.notes {
            // numeric notes are summed, others overwritten
            match (self.notes.get(&k).and_then(|x| x.as_f64()), v.as_f64()) {
                (Some(a), Some(b)) if v.is_u64() || v.is_i64() => {
                    self.notes.insert(k, json!((a + b) as u64));
                }
                _ => {
                    self.notes.insert(k, v);
                }
            }
        }
    }

    pub fn want(&self, case: u64) -> bool {
        self.cfg.only_case.map_or(true, |c| c == case)
    }

    /// Register one generated case. `hash` identifies it; it is counted as
    /// distinct non-trivial only if `nontrivial`.
    pub fn case(&mut self, family: &str, hash: u64, nontrivial: bool) {
        self.evaluations += 1;
        *self.families.entry(family.to_string()).or_default() += 1;
        if nontrivial {
            self.distinct.insert(hash);
        }
    }

    pub fn sample(&mut self, v: Value) {
        if self.samples.len() < self.max_samples {
            self.samples.push(v);
        }
    }

    pub fn count(&mut self, key: &str, n: u64) {
        let cur = self.notes.get(key).and_then(|v| v.as_u64()).unwrap_or(0);
        self.notes.insert(key.to_string(), json!(cur + n));
    }

    pub fn note(&mut self, key: &str, v: Value) {
        self.notes.insert(key.to_string(), v);
    }

    pub fn skip(&mut self, clause: &str, reason: &str) {
        let e = self.clauses.entry(clause.to_string()).or_default();
        *e.skipped.entry(reason.to_string()).or_default() += 1;
    }

    /// Oracle evaluation: deviation `dev` (already scaled) against tolerance `tol`.
    /// NaN deviation counts as a violation. Returns true if held.
    pub fn check<F: FnOnce() -> Value>(
        &mut self,
        clause: &str,
        signature: &str,
        case: u64,
        dev: f64,
        tol: f64,
        detail: F,
    ) -> bool {
        // replay mode: the whole workload is re-executed (same seed, same code path) but
        // only the oracle evaluations of the requested case are judged
        if !self.want(case) {
            return true;
        }
        let e = self.clauses.entry(clause.to_string()).or_default();
        e.checked += 1;
        e.tol = tol;
        let bad = !(dev <= tol);
        if dev > e.worst || (dev.is_nan() && !e.worst.is_nan()) {
            e.worst = dev;
            e.worst_at = format!("case {} {}", case, signature);
        }
        if bad {
            e.violated += 1;
            let e = self
                .violations
                .entry((clause.to_string(), signature.to_string()))
                .or_insert((0, Vec::new()));
            e.0 += 1;
            if e.1.len() < 2 {
                e.1.push(Violation {
                    clause: clause.to_string(),
                    signature: signature.to_string(),
                    case,
                    deviation: dev,
                    tol,
                    detail: detail(),
                });
            }
            false
        } else {
            e.held += 1;
            true
        }
    }

    /// Boolean oracle.
    pub fn check_bool<F: FnOnce() -> Value>(
        &mut self,
        clause: &str,
        signature: &str,
        case: u64,
        ok: bool,
        detail: F,
    ) -> bool {
        self.check(clause, signature, case, if ok { 0.0 } else { 1.0 }, 0.5, detail)
    }

    pub fn gate(&mut self, ok: bool, what: &str) {
        // a replay judges one case only; coverage gates do not apply to it
        if !ok && self.cfg.only_case.is_none() {
            self.inconclusive.push(what.to_string());
        }
    }

    pub fn clause_checked(&self, clause: &str) -> u64 {
        self.clauses.get(clause).map_or(0, |c| c.checked)
    }

    pub fn total_checked(&self) -> u64 {
        self.clauses.values().map(|c| c.checked).sum()
    }

    /// Write evidence, print verdict lines, return the process exit code.
    pub fn finish(mut self, rule: &str, exhaustive: bool, assumptions: &[&str]) -> i32 {
        let id = self.cfg.id;
        let wall = self.start.elapsed().as_secs_f64();
        let known = KnownFindings::load(&self.cfg.verif_dir);

        // classify violations
        let mut unknown: Vec<(u64, Violation)> = Vec::new();
        let mut known_seen: BTreeMap<String, (String, u64)> = BTreeMap::new();
        let mut known_clause: BTreeMap<String, u64> = BTreeMap::new();
        for ((clause, sig), (n, ws)) in std::mem::take(&mut self.violations) {
            if let Some(k) = known.matches(id, &sig) {
                let e = known_seen
                    .entry(k.id.clone())
                    .or_insert((k.what.clone(), 0));
                e.1 += n;
                *known_clause.entry(clause.clone()).or_default() += n;
            } else if let Some(w) = ws.into_iter().next() {
                unknown.push((n, w));
            }
        }
        for (c, n) in &known_clause {
            if let Some(e) = self.clauses.get_mut(c) {
                e.known += n;
            }
        }
        let unknown_total: u64 = unknown.iter().map(|u| u.0).sum();
        let groups: Vec<Value> = unknown
            .iter()
            .take(500)
            .map(|(n, v)| json!({"clause": v.clause, "signature": v.signature, "occurrences": n, "first_deviation": fnum(v.deviation), "tolerance": v.tol}))
            .collect();

        // hook counters
        let hooks: Map<String, Value> = feos_core::verif::counters()
            .into_iter()
            .map(|(k, v)| (k.to_string(), json!(v)))
            .collect();

        // replay files
        let replay_dir = self.cfg.verif_dir.join("replays");
        let _ = std::fs::create_dir_all(&replay_dir);
        let mut lines = Vec::new();
        for (k, (n, v)) in unknown.iter().enumerate().take(300) {
            let h = crate::prng::hash_str(&format!("{}{}{}", v.clause, v.signature, v.case));
            let path = replay_dir.join(format!("{}-{:016x}.json", id, h));
            let body = json!({
                "property": id, "tier": self.cfg.tier.name(), "seed": self.cfg.seed,
                "case": v.case, "clause": v.clause, "signature": v.signature,
                "deviation": fnum(v.deviation), "tolerance": v.tol, "detail": v.detail,
            });
            let _ = std::fs::write(&path, serde_json::to_string_pretty(&body).unwrap());
            if k >= 40 {
                continue;
            }
            lines.push(format!(
                "VIOLATION property={} replay={} clause={} dev={:e} tol={:e} sig={} occurrences={}",
                id,
                path.display(),
                v.clause,
                v.deviation,
                v.tol,
                v.signature,
                n
            ));
        }

        let clauses: Map<String, Value> = self
            .clauses
            .iter()
            .map(|(k, c)| {
                (
                    k.clone(),
                    json!({
                        "checked": c.checked, "held": c.held, "violated": c.violated,
                        "violated_known_finding": c.known,
                        "skipped": c.skipped, "worst_deviation": fnum(c.worst),
                        "worst_at": c.worst_at, "tolerance": c.tol,
                    }),
                )
            })
            .collect();

        let nviol = unknown_total;
        let verdict = if !unknown.is_empty() {
            "violated"
        } else if !self.inconclusive.is_empty() {
            "inconclusive"
        } else {
            "held"
        };
        if self.samples.is_empty() {
            self.samples.push(json!({"note": "no sample recorded"}));
        }
        let mut coverage = json!({
            "evaluations": if self.evaluations > 0 { self.evaluations } else { self.total_checked() },
            "distinct_nontrivial": self.distinct.len(),
            "rule": rule,
            "samples": self.samples,
            "exhaustive": exhaustive,
            "oracle_evaluations": self.total_checked(),
            "clauses": clauses,
            "families": self.families,
            "hook_events": hooks,
            "known_findings_observed": known_seen.iter().map(|(k,(w,n))| json!({"id":k,"what":w,"witnesses":n})).collect::<Vec<_>>(),
            "inconclusive_reasons": self.inconclusive,
            "violation_groups": groups,
            "verdict": verdict,
        });
        if let Value::Object(m) = &mut coverage {
            for (k, v) in &self.notes {
                m.insert(k.clone(), v.clone());
            }
        }
        let evidence = json!({
            "property_id": id,
            "tier": self.cfg.tier.name(),
            "seed": self.cfg.seed,
            "level": "exploration",
            "coverage": coverage,
            "assumptions": assumptions,
            "wall_s": (wall * 1000.0).round() / 1000.0,
            "violations": nviol,
        });
        if self.cfg.only_case.is_none() {
            let edir = self.cfg.verif_dir.join("evidence");
            let _ = std::fs::create_dir_all(&edir);
            let path = edir.join(format!("{}.json", id));
            let tmp = edir.join(format!("{}.json.tmp", id));
            std::fs::write(&tmp, serde_json::to_string_pretty(&evidence).unwrap()).unwrap();
            std::fs::rename(&tmp, &path).unwrap();
        }

        // summary
        println!(
            "[{}] tier={} seed={} evaluations={} distinct_nontrivial={} oracle_evaluations={} wall={:.1}s",
            id,
            self.cfg.tier.name(),
            self.cfg.seed,
            self.evaluations,
            self.distinct.len(),
            self.total_checked(),
            wall
        );
        for (k, c) in &self.clauses {
            println!(
                "  clause {:<44} checked={:<8} violated={:<6} worst={:<10.3e} tol={:.1e}{}",
                k,
                c.checked,
                c.violated,
                c.worst,
                c.tol,
                if c.skipped.is_empty() {
                    String::new()
                } else {
                    format!(" skipped={:?}", c.skipped)
                }
            );
        }
        for (k, (what, n)) in &known_seen {
            println!("KNOWN-FINDING: property={} {} {} (witnesses: {})", id, k, what, n);
        }
        for l in &lines {
            println!("{}", l);
        }
        if !unknown.is_empty() {
            if unknown.len() > 40 {
                println!("  (+{} further violation signatures not printed)", unknown.len() - 40);
            }
            return 1;
        }
        if !self.inconclusive.is_empty() {
            for r in &self.inconclusive {
                println!("INCONCLUSIVE property={} reason={}", id, r);
            }
            return 2;
        }
        println!("HELD property={}", id);
        0
    }
}

pub fn fnum(x: f64) -> Value {
    if x.is_finite() {
        json!(x)
    } else {
        json!(format!("{}", x))
    }
}

pub struct KnownFinding {
    pub id: String,
    pub property: String,
    pub signature: Option<String>,
    pub signature_prefix: Option<String>,
    pub what: String,
}

pub struct KnownFindings {
    pub findings: Vec<KnownFinding>,
}

impl KnownFindings {
    pub fn load(verif_dir: &std::path::Path) -> Self {
        let path = verif_dir.join("known_findings.json");
        let mut findings = Vec::new();
        if let Ok(s) = std::fs::read_to_string(&path) {
            let v: Value = serde_json::from_str(&s).expect("known_findings.json must parse");
            if let Some(arr) = v.get("findings").and_then(|f| f.as_array()) {
                for f in arr {
                    findings.push(KnownFinding {
                        id: f["id"].as_str().unwrap_or("").to_string(),
                        property: f["property"].as_str().unwrap_or("").to_string(),
                        signature: f.get("signature").and_then(|s| s.as_str()).map(String::from),
                        signature_prefix: f
                            .get("signature_prefix")
                            .and_then(|s| s.as_str())
                            .map(String::from),
                        what: f["what"].as_str().unwrap_or("").to_string(),
                    });
                }
            }
        }
        KnownFindings { findings }
    }

    pub fn matches(&self, property: &str, signature: &str) -> Option<&KnownFinding> {
        self.findings.iter().find(|f| {
            f.property == property
                && (f.signature.as_deref() == Some(signature)
                    || f.signature_prefix
                        .as_deref()
                        .map_or(false, |p| signature.starts_with(p)))
        })
    }
}

/// Run `f` over `cases` in parallel, each worker with a forked monitor, and merge.
pub fn par_cases<T: Sync, F: Fn(&mut Monitor, u64, &T) + Sync>(m: &mut Monitor, cases: &[T], f: F) {
    use rayon::prelude::*;
    let parent = &*m;
    let merged = cases
        .par_iter()
        .enumerate()
        .fold(
            || parent.fork(),
            |mut acc, (i, c)| {
                // a panic inside the library (an `unwrap` on a solver error, say) must not tear
                // the whole run down: the case is counted as skipped, with the message
                if let Err(msg) = no_panic(|| f(&mut acc, i as u64, c)) {
                    let short: String = msg.chars().take(90).collect();
                    acc.skip("workload", &format!("library panicked: {short}"));
                    acc.count("library_panics_in_workload", 1);
                }
                acc
            },
        )
        .reduce(
            || parent.fork(),
            |mut a, b| {
                a.absorb(b);
                a
            },
        );
    m.absorb(merged);
}

/// Run library code that must not panic; a panic is returned as Err(message) instead of
/// tearing down the worker (the default panic message is suppressed).
pub fn no_panic<T>(f: impl FnOnce() -> T) -> Result<T, String> {
    use std::sync::Once;
    static HOOK: Once = Once::new();
    HOOK.call_once(|| {
        let default = std::panic::take_hook();
        std::panic::set_hook(Box::new(move |info| {
            if std::env::var("FV_SHOW_PANICS").is_ok() {
                default(info)
            }
        }));
    });
    std::panic::catch_unwind(std::panic::AssertUnwindSafe(f)).map_err(|e| {
        e.downcast_ref::<String>()
            .cloned()
            .or_else(|| e.downcast_ref::<&str>().map(|s| s.to_string()))
            .unwrap_or_else(|| "panic".to_string())
    })
}
