//! C05, three-phase part: heteroazeotropes (VLLE) of partially miscible binaries at given
//! temperature and at given pressure, and the VLLE / LLE diagrams built on them.
use crate::monitor::*;
use crate::prng::{hash_f64s, Rng};
use crate::zoo::*;
use feos_core::{Contributions, PhaseDiagram, PhaseEquilibrium, ReferenceSystem, SolverOptions, State};
use ndarray::arr1;
use quantity::*;
use serde_json::{json, Value};

fn p_dev(a: f64, b: f64) -> f64 {
    ((a - b).abs() - 1e-11).max(0.0) / a.abs().max(b.abs())
}

/// mu_res/kT + ln rho_i of every component
fn lnf(s: &State<Model>) -> Vec<f64> {
    let t = s.temperature.to_reduced();
    let mu = s.residual_chemical_potential().to_reduced();
    let rho = s.partial_density.to_reduced();
    (0..mu.len()).map(|i| mu[i] / t + rho[i].ln()).collect()
}

fn phase_json(s: &State<Model>) -> Value {
    json!({"T": s.temperature.to_reduced(), "p": s.pressure(Contributions::Total).to_reduced(), "rho": s.density.to_reduced(), "x": s.molefracs.to_vec()})
}

/// conditions on a three-phase equilibrium; `t_spec` / `p_spec`: the specified variable
fn check_three_phase(m: &mut Monitor, sys: &str, how: &str, case: u64, pe: &PhaseEquilibrium<Model, 3>, t_spec: Option<f64>, p_spec: Option<f64>, info: &Value) {
    let ph = [pe.vapor(), pe.liquid1(), pe.liquid2()];
    let sig = |c: &str| format!("hetero {how}|{c}");
    let det = || json!({"info": info, "system": sys, "vapor": phase_json(ph[0]), "liquid1": phase_json(ph[1]), "liquid2": phase_json(ph[2])});
    let t0 = ph[0].temperature;
    m.check_bool("hetero:same temperature (exact)", &sig("T"), case, ph.iter().all(|s| s.temperature == t0), det);
    if let Some(t) = t_spec {
        m.check_bool("hetero:specified temperature kept (exact)", &sig("T spec"), case, ph.iter().all(|s| s.temperature.to_reduced() == t), det);
    }
    let p: Vec<f64> = ph.iter().map(|s| s.pressure(Contributions::Total).to_reduced()).collect();
    let wp = p_dev(p[0], p[1]).max(p_dev(p[0], p[2])).max(p_dev(p[1], p[2]));
    m.check("hetero:same pressure", &sig("p"), case, wp, 1e-6, det);
    if let Some(ps) = p_spec {
        let w = p.iter().map(|&x| p_dev(x, ps)).fold(0.0, f64::max);
        m.check("hetero:specified pressure reproduced", &sig("p spec"), case, w, 1e-6, det);
    }
    let f: Vec<Vec<f64>> = ph.iter().map(|s| lnf(s)).collect();
    let mut w = 0.0f64;
    for i in 0..f[0].len() {
        for (a, b) in [(0, 1), (0, 2), (1, 2)] {
            let d = (f[a][i] - f[b][i]).abs();
            w = if d.is_nan() { f64::INFINITY } else { w.max(d) };
        }
    }
    // Newton on the 7 equilibrium conditions, tolerance 1e-8 on the residual norm
    m.check("hetero:isofugacity in all three phases", &sig("fugacity"), case, w, 1e-5, det);
    let distinct = |a: &State<Model>, b: &State<Model>| a.partial_density.to_reduced().iter().zip(b.partial_density.to_reduced().iter()).any(|(x, y)| (x / y - 1.0).abs() > 1e-5);
    m.check_bool("hetero:phases are not copies of each other", &sig("trivial"), case, distinct(ph[0], ph[1]) && distinct(ph[0], ph[2]) && distinct(ph[1], ph[2]), det);
}

struct Sys {
    name: String,
    eos: std::sync::Arc<Model>,
    /// initial liquid compositions (mole fraction of water in the water-rich / organic-rich liquid)
    x_init: (f64, f64),
    t_range: (f64, f64),
}

fn systems(rng: &mut Rng) -> Vec<Sys> {
    let g2 = shipped("pcsaft", "gross2002.json");
    let g1 = shipped("pcsaft", "gross2001.json");
    let water = find(&g2, "water").record.clone();
    let mut v = vec![];
    // water + partially miscible alcohols (shipped records, no k_ij)
    for alc in ["1-butanol", "1-pentanol", "1-hexanol"] {
        if let Some(a) = g2.iter().find(|s| s.name == alc) {
            let spec = Spec::new(Kind::PcSaft, vec![water.clone(), a.record.clone()]);
            if let Ok(eos) = spec.build() {
                v.push(Sys { name: format!("water+{alc}"), eos, x_init: (0.98, 0.45), t_range: (330.0, 375.0) });
            }
        }
    }
    // water + hydrocarbons with a random k_ij
    for hc in ["hexane", "heptane", "octane", "cyclohexane", "benzene", "toluene"] {
        if let Some(a) = g1.iter().find(|s| s.name == hc) {
            let k = rng.range(0.0, 0.1);
            let spec = Spec::new(Kind::PcSaft, vec![water.clone(), a.record.clone()]).with_binary(scalar_matrix(2, |_, _| json!({"k_ij": k}), json!({"k_ij": 0.0})));
            if let Ok(eos) = spec.build() {
                v.push(Sys { name: format!("water+{hc} k_ij={k:.4}"), eos, x_init: (0.9999, 0.001), t_range: (300.0, 400.0) });
            }
        }
    }
    v
}

pub fn run(m: &mut Monitor, cfg: &Config) {
    let n = cfg.tier.pick(400, 12_000);
    let idx: Vec<u64> = (0..n).collect();
    par_cases(m, &idx, |m, _, &i| {
        let mut rng = Rng::derive(cfg.seed, "c05-hetero", i);
        let syss = systems(&mut rng);
        if syss.is_empty() {
            return;
        }
        let sys = &syss[rng.below(syss.len())];
        let t = rng.range(sys.t_range.0, sys.t_range.1);
        let temp = Temperature::from_reduced(t);
        let case = 60_000_000 + i * 100;
        let opts = (SolverOptions::default(), SolverOptions::default());
        let info = json!({"system": sys.name, "T": t});
        // ---- at given temperature
        let Ok(Ok(h)) = no_panic(|| PhaseEquilibrium::heteroazeotrope(&sys.eos, temp, sys.x_init, None, SolverOptions::default(), opts)) else {
            m.skip("hetero", "heteroazeotrope(T) failed (allowed)");
            return;
        };
        m.case("hetero-T", hash_f64s(&sys.name, &[t]), true);
        check_three_phase(m, &sys.name, "T", case, &h, Some(t), None, &info);
        // ---- at given pressure: the heteroazeotropic pressure found above, scaled, with a
        // temperature guess nearby; the solution must reproduce the specified pressure
        let p_h = h.vapor().pressure(Contributions::Total);
        let p = p_h * rng.range(0.6, 1.6);
        let t_init = Temperature::from_reduced(t * rng.range(0.97, 1.03));
        let x_init = (h.liquid1().molefracs[0], h.liquid2().molefracs[0]);
        let info_p = json!({"system": sys.name, "p": p.to_reduced(), "T_init": t_init.to_reduced(), "x_init": [x_init.0, x_init.1]});
        match no_panic(|| PhaseEquilibrium::heteroazeotrope(&sys.eos, p, x_init, Some(t_init), SolverOptions::default(), opts)) {
            Ok(Ok(hp)) => {
                m.case("hetero-p", hash_f64s(&sys.name, &[p.to_reduced()]), true);
                check_three_phase(m, &sys.name, "p", case + 1, &hp, None, Some(p.to_reduced()), &info_p);
            }
            Ok(Err(_)) => m.skip("hetero", "heteroazeotrope(p) failed (allowed)"),
            Err(msg) => {
                m.check_bool("hetero:no panic", "hetero p|panic", case + 1, false, || json!({"info": info_p, "panic": msg}));
            }
        }
        // ---- diagrams built on the heteroazeotrope (every 4th case): VLLE diagram at given T
        // and at given p, LLE branch included
        if i % 4 == 0 {
            let np = 5 + rng.below(20);
            let by_t = rng.bool(0.5);
            let r = if by_t {
                no_panic(|| PhaseDiagram::binary_vlle(&sys.eos, temp, sys.x_init, None, None, Some(np), Some(np), opts))
            } else {
                no_panic(|| PhaseDiagram::binary_vlle(&sys.eos, p_h, x_init, Some(Temperature::from_reduced(t * 0.8)), Some(temp), Some(np), Some(np), opts))
            };
            if let Ok(Ok(d)) = r {
                m.case("hetero-diagram", hash_f64s(&sys.name, &[t, np as f64, by_t as u8 as f64]), true);
                let how = if by_t { "vlle diagram T" } else { "vlle diagram p" };
                let mut k = 0u64;
                let lle_states = d.lle.as_ref().map(|l| l.states.clone()).unwrap_or_default();
                for s in d.vle1.states.iter().chain(d.vle2.states.iter()).chain(lle_states.iter()) {
                    k += 1;
                    // pure end points have a vanishing partial density
                    if s.vapor().molefracs.iter().chain(s.liquid().molefracs.iter()).any(|x| *x < 1e-12) {
                        continue;
                    }
                    let dinfo = json!({"system": sys.name, "diagram": how, "T": t, "npoints": np, "state": k});
                    crate::c05::check_two_phase(m, &format!("hetero {how}"), case + 2 + k, s, 1e-5, &dinfo);
                    if by_t {
                        m.check_bool("hetero:diagram states at the specified temperature", &format!("hetero {how}|T spec"), case + 2 + k, s.vapor().temperature.to_reduced() == t && s.liquid().temperature.to_reduced() == t, || dinfo.clone());
                    } else {
                        let ps = p_h.to_reduced();
                        let w = p_dev(s.vapor().pressure(Contributions::Total).to_reduced(), ps).max(p_dev(s.liquid().pressure(Contributions::Total).to_reduced(), ps));
                        m.check("hetero:diagram states at the specified pressure", &format!("hetero {how}|p spec"), case + 2 + k, w, 1e-6, || dinfo.clone());
                    }
                }
            } else {
                m.skip("hetero", "binary_vlle failed (allowed)");
            }
        }
        // ---- a flash inside the liquid-liquid gap, guided by the two liquids of the heteroazeotrope
        // at a different pressure: must return an equilibrium at the flash's own T and p
        if i % 3 == 0 {
            let xa = h.liquid1().molefracs[0];
            let xb = h.liquid2().molefracs[0];
            let z = xa + (xb - xa) * rng.range(0.3, 0.7);
            let feed = Moles::from_reduced(arr1(&[z, 1.0 - z]));
            let pf = p_h * rng.range(1.5, 5.0);
            let tf = Temperature::from_reduced(t * rng.range(0.96, 1.0));
            // initial equilibrium: the unguided flash at the heteroazeotrope's temperature
            let Ok(Ok(init)) = no_panic(|| PhaseEquilibrium::tp_flash(&sys.eos, temp, pf, &feed, None, SolverOptions::default(), None)) else {
                return;
            };
            let finfo = json!({"system": sys.name, "T flash": tf.to_reduced(), "T of the initial equilibrium": t, "p": pf.to_reduced(), "z_water": z});
            if let Ok(Ok(f)) = no_panic(|| PhaseEquilibrium::tp_flash(&sys.eos, tf, pf, &feed, Some(&init), SolverOptions::default(), None)) {
                m.case("hetero-flash", hash_f64s(&sys.name, &[tf.to_reduced(), pf.to_reduced(), z]), true);
                crate::c05::check_two_phase(m, "hetero lle flash", case + 90, &f, 1e-5, &finfo);
                m.check_bool("flash:specified temperature kept (exact)", "hetero lle flash|T spec", case + 90, f.vapor().temperature == tf && f.liquid().temperature == tf, || json!({"info": finfo, "T returned": f.vapor().temperature.to_reduced()}));
                let w = p_dev(f.vapor().pressure(Contributions::Total).to_reduced(), pf.to_reduced()).max(p_dev(f.liquid().pressure(Contributions::Total).to_reduced(), pf.to_reduced()));
                m.check("flash:specified pressure reproduced", "hetero lle flash|p spec", case + 90, w, 1e-6, || finfo.clone());
            }
        }
    });
}
