//! fv — runtime-monitoring harness for the feos properties C01..C20.
//! usage: fv <ID> [--tier quick|thorough] [--seed N] [--case N] [--replay file]
mod c01;
mod c02;
mod c03;
mod c04;
mod c05;
mod c05_hetero;
mod c06;
mod c07;
mod c08;
mod c09;
mod c10;
mod c11;
mod c11san;
mod c12;
mod c13;
mod c14;
mod c15;
mod c16;
mod c17;
mod c18;
mod c19;
mod c20;
mod fd;
mod monitor;
mod prng;
mod stream;
mod zoo;

use monitor::{Config, Tier};
use std::path::PathBuf;

fn main() {
    let args: Vec<String> = std::env::args().collect();
    if args.len() < 2 {
        eprintln!("usage: fv <ID> [--tier quick|thorough] [--seed N] [--case N] [--replay file]");
        std::process::exit(2);
    }
    let id = args[1].to_uppercase();
    let mut tier = match std::env::var("VERIF_TIER").as_deref() {
        Ok("thorough") => Tier::Thorough,
        _ => Tier::Quick,
    };
    let mut seed: u64 = std::env::var("VERIF_SEED")
        .ok()
        .and_then(|s| s.parse::<i64>().ok().map(|v| v as u64).or_else(|| s.parse::<u64>().ok()))
        .unwrap_or(1);
    let mut only_case = None;
    let mut i = 2;
    while i < args.len() {
        match args[i].as_str() {
            "--tier" => {
                tier = if args[i + 1] == "thorough" {
                    Tier::Thorough
                } else {
                    Tier::Quick
                };
                i += 1;
            }
            "--seed" => {
                seed = args[i + 1].parse().expect("seed");
                i += 1;
            }
            "--case" => {
                only_case = Some(args[i + 1].parse().expect("case"));
                i += 1;
            }
            "--replay" => {
                let s = std::fs::read_to_string(&args[i + 1]).expect("replay file");
                let v: serde_json::Value = serde_json::from_str(&s).expect("replay json");
                seed = v["seed"].as_u64().unwrap_or(seed);
                tier = if v["tier"].as_str() == Some("thorough") {
                    Tier::Thorough
                } else {
                    Tier::Quick
                };
                only_case = v["case"].as_u64();
                i += 1;
            }
            _ => {}
        }
        i += 1;
    }
    let verif_dir = PathBuf::from(std::env::var("FV_VERIF").unwrap_or_else(|_| "/verif".into()));
    let repo_dir = PathBuf::from(std::env::var("FV_REPO").unwrap_or_else(|_| "/repo".into()));
    let mk = |id: &'static str| Config {
        id,
        tier,
        seed,
        only_case,
        verif_dir: verif_dir.clone(),
        repo_dir: repo_dir.clone(),
    };
    let code = match id.as_str() {
        "C01" => c01::run(mk("C01")),
        "C02" => c02::run(mk("C02")),
        "C03" => c03::run(mk("C03")),
        "C04" => c04::run(mk("C04")),
        "C05" => c05::run(mk("C05")),
        "C06" => c06::run(mk("C06")),
        "C07" => c07::run(mk("C07")),
        "C08" => c08::run(mk("C08")),
        "C09" => c09::run(mk("C09")),
        "C10" => c10::run(mk("C10")),
        "C11" => c11::run(mk("C11")),
        "C12" => c12::run(mk("C12")),
        "C13" => c13::run(mk("C13")),
        "C14" => c14::run(mk("C14")),
        "C15" => c15::run(mk("C15")),
        "C16" => c16::run(mk("C16")),
        "C17" => c17::run(mk("C17")),
        "C18" => c18::run(mk("C18")),
        "C19" => c19::run(mk("C19")),
        "C20" => c20::run(mk("C20")),
        _ => {
            eprintln!("unknown property {id}");
            2
        }
    };
    std::process::exit(code);
}
