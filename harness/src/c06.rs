//! C06 — critical points and spinodals satisfy their defining conditions.
use crate::c04::shipped_pure_cases;
use crate::monitor::*;
use crate::prng::{hash_f64s, Rng};
use crate::zoo::*;
use feos_core::verif::{self, Site};
use feos_core::{Contributions, PhaseEquilibrium, ReferenceSystem, SolverOptions, State};
use nalgebra::{DMatrix, SymmetricEigen};
use ndarray::Array1;
use quantity::*;
use serde_json::{json, Value};

const TOL_PURE: f64 = 1e-6;
const TOL_MIX: f64 = 1e-4;
/// the cubic form is a finite-difference third derivative taken in the harness: its own error
/// reaches 2e-4 for strongly polar pairs (1 case in 1.2e5); seeded slips give >= 3e-2
const TOL_CUBIC: f64 = 1e-3;

/// scaled derivatives of the pressure at a state: (V dp/dV / p_scale, V^2 d2p/dV2 / p_scale)
/// with p_scale = rho k T (the pressure itself can be small)
fn pure_criticality(s: &St) -> (f64, f64, f64) {
    let v = s.volume.to_reduced();
    let t = s.temperature.to_reduced();
    let rho = s.density.to_reduced();
    let ps = rho * t;
    (
        v * s.dp_dv(Contributions::Total).to_reduced() / ps,
        v * v * s.d2p_dv2(Contributions::Total).to_reduced() / ps,
        s.pressure(Contributions::Total).to_reduced(),
    )
}

/// independent recomputation of the mixture criticality conditions from the public
/// getters: smallest eigenvalue of q_ij = sqrt(N_i N_j) d2(A/kT)/dN_i dN_j and the third
/// directional derivative along its eigenvector (finite difference of the quadratic form)
/// second smallest eigenvalue of the scaled composition Hessian (see mixture_criticality)
fn second_eigenvalue(s: &St) -> Option<f64> {
    let n = s.moles.to_reduced();
    let nc = n.len();
    if nc < 2 {
        return None;
    }
    let t = s.temperature.to_reduced();
    let d = s.dmu_dni(Contributions::Total).to_reduced();
    let q = DMatrix::from_fn(nc, nc, |i, j| d[[i, j]] / t * (n[i] * n[j]).sqrt());
    let mut ev: Vec<f64> = SymmetricEigen::new(q).eigenvalues.iter().cloned().collect();
    ev.sort_by(|a, b| a.partial_cmp(b).unwrap_or(std::cmp::Ordering::Equal));
    ev.get(1).cloned()
}

fn mixture_criticality(s: &St) -> Option<(f64, f64, Vec<f64>)> {
    let n = s.moles.to_reduced();
    let nc = n.len();
    let t = s.temperature.to_reduced();
    let v = s.volume.to_reduced();
    let hess = |moles: &Array1<f64>| -> Option<DMatrix<f64>> {
        let st = state_tvn(&s.eos, t, v, moles)?;
        let d = st.dmu_dni(Contributions::Total).to_reduced();
        Some(DMatrix::from_fn(nc, nc, |i, j| d[[i, j]] / t))
    };
    let h0 = hess(&n)?;
    let q = DMatrix::from_fn(nc, nc, |i, j| h0[(i, j)] * (n[i] * n[j]).sqrt());
    let eig = SymmetricEigen::new(q);
    let (k, lam) = eig
        .eigenvalues
        .iter()
        .enumerate()
        .min_by(|a, b| a.1.partial_cmp(b.1).unwrap())?;
    let u: Vec<f64> = eig.eigenvectors.column(k).iter().cloned().collect();
    let dn: Vec<f64> = (0..nc).map(|i| u[i] * n[i].sqrt()).collect();
    let g = |sgn: f64, step: f64| -> Option<f64> {
        let m2 = Array1::from_shape_fn(nc, |i| n[i] + sgn * step * dn[i]);
        if m2.iter().any(|x| *x <= 0.0) {
            return None;
        }
        let h = hess(&m2)?;
        let mut acc = 0.0;
        for i in 0..nc {
            for j in 0..nc {
                acc += dn[i] * h[(i, j)] * dn[j];
            }
        }
        Some(acc)
    };
    let d = |step: f64| Some((g(1.0, step)? - g(-1.0, step)?) / (2.0 * step));
    let h = 1e-3;
    let c = (4.0 * d(0.5 * h)? - d(h)?) / 3.0;
    let scale: f64 = (0..nc).map(|i| u[i].abs().powi(3) / n[i].sqrt()).sum();
    Some((*lam, c / scale.max(1e-300), u))
}

pub fn run(cfg: Config) -> i32 {
    let mut m = Monitor::new(cfg.clone());
    pure_records(&mut m, &cfg);
    pr_triples(&mut m, &cfg);
    mixtures(&mut m, &cfg);
    m.gate(m.clause_checked("pure:dp/dV=0") >= 500, "fewer than 500 pure critical points");
    m.gate(m.clause_checked("pr:Tc equals input") >= 50, "fewer than 50 PR triples");
    m.gate(m.clause_checked("mixture:smallest eigenvalue=0") >= 50, "fewer than 50 mixture critical points");
    m.gate(m.clause_checked("spinodal:dp/dV=0 (pure)") >= 200, "fewer than 200 pure spinodals");
    m.gate(m.clause_checked("binary:given T echoed") + m.clause_checked("binary:given p reproduced") >= 20, "fewer than 20 binary critical points at given T/p");
    m.finish(
        "critical points of every pure record of the shipped PC-SAFT / SAFT-VR Mie / SAFT-VRQ Mie collections (unguided, with initial temperatures in [0.5,1.6] T_c and with the trial ladder forced through failpoints), random Peng-Robinson triples, binary/ternary mixtures (PC-SAFT, PR, SAFT-VR Mie) at random compositions incl. critical_point_binary at given T or p; spinodals of pure fluids on T in [0.5,0.99] T_c and of mixtures; distinct by (record / model, composition, T)",
        false,
        &[
            "mixture criticality is recomputed independently of critical_point.rs from State::dmu_dni: smallest eigenpair by nalgebra::SymmetricEigen, cubic form by finite differences of the quadratic form along the eigenvector",
            "Peng-Robinson: the implementation uses the 5-digit textbook constants 0.45724/0.07780, so (T_c,p_c) are reproduced to ~4e-5, tolerance 2e-4",
        ],
    )
}

fn check_pure_cp(m: &mut Monitor, fam: &str, case: u64, s: &St, info: &Value) {
    let (d1, d2, p) = pure_criticality(s);
    let rec = format!(
        "{}|{}",
        info["file"].as_str().unwrap_or(""),
        info["name"].as_str().unwrap_or("")
    );
    let sig = |c: &str| if c == "p>0" { format!("{fam}|{c}|{rec}") } else { format!("{fam}|{c}") };
    m.check("pure:dp/dV=0", &sig("dp/dV"), case, d1.abs(), TOL_PURE, || info.clone());
    m.check("pure:d2p/dV2=0", &sig("d2p/dV2"), case, d2.abs(), TOL_PURE, || info.clone());
    m.check_bool("pure:p>0", &sig("p>0"), case, p > 0.0, || info.clone());
}

fn pure_records(m: &mut Monitor, cfg: &Config) {
    let cases = shipped_pure_cases();
    let nsp = cfg.tier.pick(6, 40);
    par_cases(m, &cases, |m, ci, pc| {
        let Ok(eos) = pc.spec.build() else {
            return;
        };
        let mut rng = Rng::derive(cfg.seed, "c06-pure", ci);
        let info = json!({"file": pc.file, "name": pc.name});
        let case = ci * 100;
        let unguided = State::critical_point(&eos, None, None, SolverOptions::default());
        let Some(tc) = pure_tc(&eos) else {
            m.skip("pure", "no critical point found");
            return;
        };
        if let Ok(s) = &unguided {
            m.case(pc.family, hash_f64s(&format!("{}{}", pc.file, pc.name), &[0.0]), true);
            if m.samples.len() < 2 {
                m.sample(json!({"file": pc.file, "name": pc.name, "Tc": s.temperature.to_reduced(), "rho_c": s.density.to_reduced()}));
            }
            check_pure_cp(m, pc.family, case, s, &info);
        } else {
            m.skip("pure", "unguided critical point not found");
        }
        // guided by an initial temperature in [0.5,1.6] of the vapour-liquid critical temperature
        for k in 0..2 {
            let t0 = tc * rng.range(0.5, 1.6);
            if let Ok(s) = State::critical_point(&eos, None, Some(Temperature::from_reduced(t0)), SolverOptions::default()) {
                m.case(pc.family, hash_f64s(&format!("{}{}", pc.file, pc.name), &[t0]), true);
                let info2 = json!({"file": pc.file, "name": pc.name, "initial_temperature": t0});
                check_pure_cp(m, pc.family, case + 1 + k, &s, &info2);
                let ts = s.temperature.to_reduced();
                // the same point as the vapour-liquid critical point when it converged near it
                if (ts / tc - 1.0).abs() < 0.02 {
                    m.check("pure:guided equals unguided", &format!("{}|guided", pc.family), case + 1 + k, (ts / tc - 1.0).abs(), 1e-6, || info2.clone());
                } else {
                    m.count("other_critical_point_reached", 1);
                }
            }
        }
        // trial ladder forced to its later rungs
        for (k, fp) in [vec![Site::FailCritPointTrial0], vec![Site::FailCritPointTrial0, Site::FailCritPointTrial1]].iter().enumerate() {
            for f in fp {
                verif::arm(*f);
            }
            let r = State::critical_point(&eos, None, None, SolverOptions::default());
            verif::disarm_all();
            if let Ok(s) = r {
                m.count(&format!("ladder_rung_{}_ok", k + 1), 1);
                let info2 = json!({"file": pc.file, "name": pc.name, "forced_rung": k + 1});
                check_pure_cp(m, pc.family, case + 10 + k as u64, &s, &info2);
            }
        }
        // spinodals
        for k in 0..nsp {
            let tr = rng.range(0.5, 0.99);
            let t = tr * tc;
            let Ok([sv, sl]) = State::spinodal(&eos, Temperature::from_reduced(t), None, SolverOptions::default()) else {
                m.skip("spinodal", "not found (allowed)");
                continue;
            };
            // State::spinodal uses the unguided critical point for the liquid start; if that is
            // not the vapour-liquid one the pair is not a vapour/liquid spinodal pair
            let cp_ok = unguided.as_ref().map_or(false, |s| (s.temperature.to_reduced() / tc - 1.0).abs() < 1e-3);
            if !cp_ok {
                m.skip("spinodal", "default critical point is not the vapour-liquid one");
                continue;
            }
            let c2 = case + 20 + k as u64;
            let info2 = json!({"file": pc.file, "name": pc.name, "T/Tc": tr});
            m.case("spinodal", hash_f64s(&format!("{}{}", pc.file, pc.name), &[tr]), true);
            let rc = unguided.as_ref().unwrap().density.to_reduced();
            for s in [&sv, &sl] {
                let (d1, _, _) = pure_criticality(s);
                m.check("spinodal:dp/dV=0 (pure)", &format!("{}|spinodal", pc.family), c2, d1.abs(), 1e-6, || info2.clone());
            }
            let (rv, rl) = (sv.density.to_reduced(), sl.density.to_reduced());
            // failure mode seen on the unchanged tree: the liquid start (mirror image of the
            // vapour spinodal about the critical density) falls back onto the vapour spinodal
            let mode = if (rl / rv - 1.0).abs() < 1e-6 { "both branches are the vapour spinodal" } else { "other" };
            // the recorded defect (F19) is confined to low reduced temperatures (deterministic scan of
            // all shipped PC-SAFT records on a 0.01 grid: nothing above 0.79 T_c); the known-finding
            // key covers only that range, so the same symptom closer to T_c is still reported
            let bucket = if tr < 0.85 { "T/Tc<0.85" } else { "T/Tc>=0.85" };
            m.check_bool("spinodal:brackets critical density", &format!("spinodal bracket|{}|{}|{}", pc.family, mode, bucket), c2, rv < rc && rc < rl, || json!({"file": pc.file, "name": pc.name, "T/Tc": tr, "rho_sp_v": rv, "rho_sp_l": rl, "rho_c": rc}));
            if let Ok(vle) = PhaseEquilibrium::pure(&eos, Temperature::from_reduced(t), None, SolverOptions::default()) {
                let ok = vle.vapor().density.to_reduced() < rv && rl < vle.liquid().density.to_reduced();
                m.check_bool("spinodal:inside binodal", &format!("{}|spinodal inside binodal", pc.family), c2, ok, || info2.clone());
            }
        }
    });
}

fn pr_triples(m: &mut Monitor, cfg: &Config) {
    let n = cfg.tier.pick(1500, 100_000);
    let idx: Vec<u64> = (0..n).collect();
    par_cases(m, &idx, |m, _, &i| {
        let mut rng = Rng::derive(cfg.seed, "c06-pr", i);
        let spec = random_pr(&mut rng, 1);
        let Ok(eos) = spec.build() else {
            return;
        };
        let r = &spec.pure[0]["model_record"];
        let (tc, pc) = (r["tc"].as_f64().unwrap(), r["pc"].as_f64().unwrap());
        let t0 = if rng.bool(0.5) { None } else { Some(Temperature::from_reduced(tc * rng.range(0.5, 1.6))) };
        let Ok(s) = State::critical_point(&eos, None, t0, SolverOptions::default()) else {
            m.skip("pr", "critical point not found (allowed)");
            return;
        };
        let case = 2_000_000 + i;
        m.case("pr", hash_f64s("pr", &[tc, pc]), true);
        let info = json!({"model": spec});
        check_pure_cp(m, "pr", case, &s, &info);
        let ts = s.temperature.to_reduced();
        let ps = s.pressure(Contributions::Total).convert_to(PASCAL);
        m.check("pr:Tc equals input", "pr|Tc", case, (ts / tc - 1.0).abs(), 2e-4, || json!({"model": spec, "Tc_found": ts}));
        m.check("pr:pc equals input", "pr|pc", case, (ps / pc - 1.0).abs(), 2e-4, || json!({"model": spec, "pc_found": ps}));
    });
}

fn mixtures(m: &mut Monitor, cfg: &Config) {
    let col = Collections::load();
    let n = cfg.tier.pick(1200, 120_000);
    let idx: Vec<u64> = (0..n).collect();
    par_cases(m, &idx, |m, _, &i| {
        let mut rng = Rng::derive(cfg.seed, "c06-mix", i);
        let fam = *rng.choose(&["pcsaft", "pr", "saftvrmie", "pcsaft-polar"]);
        let nc = 2 + rng.below(2);
        let Some(spec) = random_spec(&col, fam, nc, &mut rng) else {
            return;
        };
        let Ok(eos) = spec.build() else {
            return;
        };
        let x = rng.simplex(nc, 0.0, 0.1);
        // keep away from the pure limits
        let x: Vec<f64> = {
            let y: Vec<f64> = x.iter().map(|v| v.max(0.05)).collect();
            let s: f64 = y.iter().sum();
            y.iter().map(|v| v / s).collect()
        };
        let moles = Moles::from_reduced(Array1::from_vec(x.clone()));
        let case = 3_000_000 + i * 10;
        let info = json!({"model": spec, "x": x});
        let sig = |c: &str| format!("{fam}|{c}");
        if let Ok(s) = State::critical_point(&eos, Some(&moles), None, SolverOptions::default()) {
            if let Some((lam, c, _)) = mixture_criticality(&s) {
                m.case(&format!("mix:{fam}"), hash_f64s(&spec.label(), &x), true);
                if m.samples.len() < 4 {
                    m.sample(json!({"model": spec.label(), "x": x, "Tc": s.temperature.to_reduced(), "lambda_min": lam, "cubic_form_scaled": c}));
                }
                // stationary points far below any fluid temperature of the mixture (T < 0.3 min eps/k;
                // SAFT-VR Mie returns them at large negative pressure, the mixture analogue of finding
                // F18): neither the library's nor the harness's third derivatives mean anything there
                let t_floor = 0.3 * spec.pure.iter().filter_map(|r| r["model_record"].get("epsilon_k").or_else(|| r["model_record"].get("tc")).and_then(|v| v.as_f64())).fold(f64::INFINITY, f64::min);
                if s.temperature.to_reduced() < t_floor {
                    m.count("mixture_stationary_points_below_0.3_eps_over_k", 1);
                    m.skip("mixture:cubic form=0", "stationary point below 0.3 eps/k (unphysical region, cf. F18): not judged");
                    return;
                }
                m.check("mixture:smallest eigenvalue=0", &sig("eigenvalue"), case, lam.abs(), TOL_MIX, || info.clone());
                if c.is_nan() {
                    // the recomputation evaluates neighbouring compositions; a NaN there (SAFT-VR Mie
                    // cross-association, finding F26 of C09) says nothing about the returned point
                    m.skip("mixture:cubic form=0", "recomputation not finite at a neighbouring composition (unresolved)");
                } else if second_eigenvalue(&s).map_or(false, |l2| l2.abs() < 1e-2) {
                    // two soft modes (second eigenvalue of the scaled Hessian below 1e-2): the direction of
                    // the cubic form is not determined by the smallest eigenvalue alone
                    m.skip("mixture:cubic form=0", "second eigenvalue also close to zero: critical direction ambiguous (unresolved)");
                } else {
                    m.check("mixture:cubic form=0", &sig("cubic form"), case, c.abs(), TOL_CUBIC, || json!({"info": info, "lambda_min": lam, "lambda_2": second_eigenvalue(&s), "cubic": c, "T": s.temperature.to_reduced(), "rho": s.density.to_reduced(), "p": s.pressure(Contributions::Total).to_reduced()}));
                }
                let pcrit = s.pressure(Contributions::Total).to_reduced();
                // positive pressure is only stated for pure substances; mixture critical points
                // at negative pressure (liquid-liquid type) are counted, and the vapour/liquid
                // spinodal clauses are not applied to them
                if pcrit <= 0.0 {
                    m.count("mixture_critical_points_at_nonpositive_pressure", 1);
                    return;
                }
                m.check_bool("mixture:composition kept", &sig("composition"), case, s.molefracs.iter().zip(&x).all(|(a, b)| (a - b).abs() < 1e-12), || info.clone());
                // spinodal of the mixture at a temperature below its critical temperature
                let t = s.temperature.to_reduced() * rng.range(0.6, 0.97);
                if let Ok([sv, sl]) = State::spinodal(&eos, Temperature::from_reduced(t), Some(&moles), SolverOptions::default()) {
                    for sp in [&sv, &sl] {
                        if let Some((lam, _, _)) = mixture_criticality(sp) {
                            m.check("spinodal:smallest eigenvalue=0 (mixture)", &sig("spinodal eigenvalue"), case + 1, lam.abs(), TOL_MIX, || json!({"info": info, "T": t, "rho_spinodal": sp.density.to_reduced(), "rho_max": max_density(&eos, &x), "eigenvalue": lam}));
                        }
                    }
                    let rc = s.density.to_reduced();
                    let (rv, rl) = (sv.density.to_reduced(), sl.density.to_reduced());
                    let mode = if (rl / rv - 1.0).abs() < 1e-6 { "both branches are the vapour spinodal" } else { "other" };
                    let bucket = if t / s.temperature.to_reduced() < 0.85 { "T/Tc<0.85" } else { "T/Tc>=0.85" };
                    // For a mixture at fixed composition the critical point is not the top of the
                    // spinodal curve, so both spinodal densities can lie on one side of the critical
                    // density close to T_c: bracketing is demanded of pure substances and only counted
                    // here. Two identical states, however, are not a pair of spinodal points.
                    if mode == "other" {
                        m.count(if rv < rc && rc < rl { "mixture_spinodals_bracket_critical_density" } else { "mixture_spinodals_on_one_side_of_critical_density" }, 1);
                    } else {
                        m.check_bool("spinodal:two distinct branches (mixture)", &format!("spinodal bracket (mixture)|{fam}|{mode}|{bucket}"), case + 1, false, || json!({"model": spec, "x": x, "T": t, "rho_sp_v": rv, "rho_sp_l": rl, "rho_c": rc}));
                    }
                }
            }
        } else {
            m.skip("mixture", "critical point not found (allowed)");
        }
        // binary critical point at given T or p
        if nc == 2 {
            let tcs: Vec<f64> = (0..2).filter_map(|k| spec.select(&[k]).build().ok().and_then(|e| pure_tc(&e))).collect();
            if tcs.len() == 2 {
                let (lo, hi) = (tcs[0].min(tcs[1]), tcs[0].max(tcs[1]));
                if hi / lo > 1.02 {
                    let t = lo + (hi - lo) * rng.range(0.15, 0.85);
                    let x0 = if rng.bool(0.5) { None } else { let a = rng.range(0.2, 0.8); Some([a, 1.0 - a]) };
                    if let Ok(s) = State::critical_point_binary(&eos, Temperature::from_reduced(t), None, x0, SolverOptions::default()) {
                        m.case(&format!("binary-T:{fam}"), hash_f64s(&spec.label(), &[t]), true);
                        m.check("binary:given T echoed", &sig("binary T"), case + 2, (s.temperature.to_reduced() / t - 1.0).abs(), 1e-14, || info.clone());
                        if let Some((lam, c, _)) = mixture_criticality(&s) {
                            m.check("binary:criticality at given T", &sig("binary T criticality"), case + 2, lam.abs().max(c.abs() * (TOL_MIX / TOL_CUBIC)), TOL_MIX, || json!({"model": spec, "T": t, "lambda": lam, "cubic": c, "x": s.molefracs.to_vec()}));
                        }
                        // and at the pressure of that point
                        let p = s.pressure(Contributions::Total);
                        if let Ok(s2) = State::critical_point_binary(&eos, p, Some(Temperature::from_reduced(t * rng.range(0.9, 1.1))), Some([s.molefracs[0], s.molefracs[1]]), SolverOptions::default()) {
                            m.case(&format!("binary-p:{fam}"), hash_f64s(&spec.label(), &[p.to_reduced()]), true);
                            let p2 = s2.pressure(Contributions::Total).to_reduced();
                            m.check("binary:given p reproduced", &sig("binary p"), case + 3, (p2 / p.to_reduced() - 1.0).abs(), 1e-7, || info.clone());
                            if let Some((lam, c, _)) = mixture_criticality(&s2) {
                                m.check("binary:criticality at given p", &sig("binary p criticality"), case + 3, lam.abs().max(c.abs() * (TOL_MIX / TOL_CUBIC)), TOL_MIX, || json!({"model": spec, "lambda": lam, "cubic": c}));
                            }
                        }
                    } else {
                        m.skip("binary", "not found (allowed)");
                    }
                }
            }
        }
    });
}
