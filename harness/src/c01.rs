//! C01 — state properties are exact derivatives of the model's Helmholtz energy.
//! Oracle: every AD derivative getter vs Richardson finite differences (with measured
//! error bars) of the next-lower-order getter on neighbouring states of the same model.
use crate::fd::*;
use crate::monitor::*;
use crate::prng::Rng;
use crate::stream::*;
use crate::zoo::*;
use feos::ideal_gas::{IdealGasModel, Joback, JobackRecord};
use feos_core::parameter::{Parameter, PureRecord};
use feos_core::{Contributions, DensityInitialization, EquationOfState, ReferenceSystem, State};
use ndarray::Array1;
use quantity::*;
use serde_json::json;
use std::sync::Arc;

pub const TOL: f64 = 1e-6;
pub const TOL_CALORIC: f64 = 1e-5;
/// finite differences whose own error bar exceeds this (scaled) are "unresolved"
pub const UNRESOLVED: f64 = 1e-4;
const HS: [f64; 3] = [1e-3, 1e-4, 4e-3];

pub type Eos = EquationOfState<IdealGasModel, Model>;

/// reduced residual observables of one state
pub struct Obs {
    pub a: f64,
    pub p: f64,
    pub s: f64,
    pub mu: Vec<f64>,
    pub dp_dv: f64,
    pub ds_dt: f64,
}

pub fn obs(s: &St) -> Obs {
    Obs {
        a: s.residual_helmholtz_energy().to_reduced(),
        p: s.pressure(Contributions::Residual).to_reduced(),
        s: s.residual_entropy().to_reduced(),
        mu: s.residual_chemical_potential().to_reduced().to_vec(),
        dp_dv: s.dp_dv(Contributions::Residual).to_reduced(),
        ds_dt: s.ds_res_dt().to_reduced(),
    }
}

fn obs_vec(s: &St) -> Vec<f64> {
    let o = obs(s);
    let mut v = vec![o.a, o.p, o.s, o.ds_dt, o.dp_dv];
    v.extend(o.mu);
    v
}

/// natural magnitude of the residual energy terms of a state (reduced units)
pub fn energy_scale(s: &St) -> f64 {
    let o = obs(s);
    let v = s.volume.to_reduced();
    let t = s.temperature.to_reduced();
    let n = s.moles.to_reduced();
    let mun: f64 = o.mu.iter().zip(n.iter()).map(|(m, n)| (m * n).abs()).sum();
    o.a.abs().max((o.p * v).abs()).max((o.s * t).abs()).max(mun)
}

pub fn joback_for(n: usize, rng: &mut Rng) -> Arc<IdealGasModel> {
    let recs: Vec<PureRecord<JobackRecord>> = (0..n)
        .map(|_| {
            PureRecord::new(
                Default::default(),
                1.0,
                JobackRecord::new(
                    rng.range(20.0, 60.0),
                    rng.range(0.01, 0.2),
                    // non-negative higher coefficients: c_p stays positive and the enthalpy
                    // monotone at every temperature the workloads reach
                    rng.range(0.0, 2e-5),
                    rng.range(0.0, 2e-9),
                    0.0,
                ),
            )
        })
        .collect();
    Arc::new(IdealGasModel::Joback(Arc::new(
        Joback::from_records(recs, None).unwrap(),
    )))
}

pub fn run(cfg: Config) -> i32 {
    let mut m = Monitor::new(cfg.clone());
    let (reps, nstates) = cfg.tier.pick((8, 24), (60, 100));
    let stream = build_stream(
        cfg.seed,
        "c01",
        EOS_FAMILIES,
        &[1, 2, 3],
        reps,
        nstates,
        true,
        0.4,
        3.0,
    );
    m.note("models", json!(stream.len()));
    par_cases(&mut m, &stream, |m, ci, sc| {
        for (si, ss) in sc.states.iter().enumerate() {
            let case = ci * 10_000 + si as u64;
            check_state(m, case, &sc.mc, ss);
            if si % 4 == 0 {
                check_caloric(m, case, &sc.mc, ss, cfg.seed);
            }
        }
    });
    // gates
    let fams: Vec<String> = m.families.keys().cloned().collect();
    for f in EOS_FAMILIES {
        m.gate(
            fams.iter().any(|x| x == f),
            &format!("family {f} produced no case"),
        );
    }
    m.gate(m.distinct.len() >= 200, "fewer than 200 distinct non-trivial states");
    m.gate(
        m.clause_checked("caloric:cp") >= 20,
        "fewer than 20 caloric cases",
    );
    m.finish(
        "states (T in [0.4,3] T_c-scale, density log-uniform/uniform in (1e-6,0.9) rho_max, open-simplex composition incl. dilute components, N in [1e-3,1e3]) of random models of every family (shipped + perturbed records, pure/binary/ternary, k_ij, EoS and functionals); non-trivial = |A_res| > 1e-9 N k T; distinct by hash of (model label, T, rho, x, N); an oracle evaluation whose finite difference has an error bar above 1e-4 is counted as skipped ('fd unresolved'), not as checked",
        false,
        &[
            "finite-difference error model: central/forward differences with one Richardson step at several step sizes; error bar = truncation estimate + measured function noise / step; deviation counted beyond 3 error bars",
            "verif hooks do not alter results (no floating-point code)",
            "rustc/LLVM IEEE-754 semantics",
        ],
    )
}

#[derive(Clone, Copy)]
struct Ctx<'a> {
    fam: &'a str,
    case: u64,
    mc: &'a ModelCase,
    ss: &'a StateSpec,
    tol: f64,
}

impl Ctx<'_> {
    /// one oracle evaluation
    #[allow(clippy::too_many_arguments)]
    fn chk(&self, m: &mut Monitor, name: &str, ad: f64, ests: &[Est], i: usize, sign: f64, scale: f64) {
        self.chk_sig(m, name, "", ad, ests, i, sign, scale)
    }
    #[allow(clippy::too_many_arguments)]
    fn chk_sig(&self, m: &mut Monitor, name: &str, extra: &str, ad: f64, ests: &[Est], i: usize, sign: f64, scale: f64) {
        let Some(j) = judge(ad, ests, i, sign, scale) else {
            m.skip(name, "no finite-difference estimate");
            return;
        };
        if j.relerr > UNRESOLVED {
            m.skip(name, "fd unresolved");
            return;
        }
        let sig = if extra.is_empty() {
            format!("{}|{}", self.fam, name)
        } else {
            format!("{}|{}|{}", self.fam, name, extra)
        };
        let (model, ss) = (&self.mc.spec, self.ss);
        m.check(name, &sig, self.case, j.dev, self.tol, || {
            json!({"clause": name, "contribution": extra, "model": model, "state": ss.json(), "ad": fnum(ad), "fd": fnum(j.fd), "fd_error_bar_scaled": fnum(j.relerr)})
        });
    }
}

fn check_state(m: &mut Monitor, case: u64, mc: &ModelCase, ss: &StateSpec) {
    let eos = &mc.eos;
    let Some(st) = make_state(eos, ss) else {
        m.skip("state", "invalid");
        return;
    };
    let t = ss.t;
    let v = ss.volume().to_reduced();
    let n: Array1<f64> = ss.moles().to_reduced();
    let ntot = ss.ntot;
    let o = obs(&st);
    if !o.a.is_finite() {
        // a model that cannot be evaluated at this state (outside its range): not a C01 matter
        m.skip("state", &format!("non-finite A ({})", mc.family));
        return;
    }
    let nontrivial = o.a.abs() > 1e-9 * ntot * t;
    m.case(&mc.family, ss.hash(&mc.label()), nontrivial);
    if !nontrivial {
        m.skip("state", "trivial");
        return;
    }
    if !model_smooth_at(&mc.spec, t) {
        m.skip("state", "model not differentiable here (PR alpha kink)");
        return;
    }
    let sa = energy_scale(&st);
    let cx = Ctx {
        fam: mc.family.as_str(),
        case,
        mc,
        ss,
        // round-off model: residual properties lose ~1e-16/eta relative precision at
        // low packing fraction (ln(1+eps) cancellation), amplified by 1/h
        // (functionals carry the cancelling ideal-chain / hard-chain terms: x10)
        tol: TOL * (1e-2 / ss.eta_frac).max(1.0) * if mc.family.ends_with("functional") { 10.0 } else { 1.0 },
    };
    if m.samples.len() < 3 {
        m.sample(json!({"model": mc.label(), "state": ss.json(), "A_res_over_NkT": o.a/(ntot*t)}));
    }
    // floors: 1e-3 of the natural scale of each quantity
    let fl = 1e-3;

    // ---- temperature direction
    let d = ests_rel(|tt| state_tvn(eos, tt, v, &n).map(|s| obs_vec(&s)), t, &HS);
    if !d.is_empty() {
        let ds_dt = st.ds_res_dt().to_reduced();
        let d2s = st.d2s_res_dt2().to_reduced();
        let dp_dt = st.dp_dt(Contributions::Residual).to_reduced();
        let dmu_dt = st.dmu_res_dt().to_reduced();
        cx.chk(m, "T:S=-dA/dT", o.s, &d, 0, -1.0, fl * sa / t);
        cx.chk(m, "T:dp/dT", dp_dt, &d, 1, 1.0, fl * sa / (v * t));
        cx.chk(m, "T:dS/dT", ds_dt, &d, 2, 1.0, fl * sa / (t * t));
        cx.chk(m, "T:d2S/dT2", d2s, &d, 3, 1.0, fl * sa / (t * t * t));
        for i in 0..mc.n {
            cx.chk(m, "T:dmu/dT", dmu_dt[i], &d, 5 + i, 1.0, fl * sa / (ntot * t));
        }
    } else {
        m.skip("T", "neighbour state failed");
    }

    // ---- volume direction
    let d = ests_rel(|vv| state_tvn(eos, t, vv, &n).map(|s| obs_vec(&s)), v, &HS);
    if !d.is_empty() {
        let d2p = st.d2p_dv2(Contributions::Residual).to_reduced();
        cx.chk(m, "V:p=-dA/dV", o.p, &d, 0, -1.0, fl * sa / v);
        cx.chk(m, "V:dp/dV", o.dp_dv, &d, 1, 1.0, fl * sa / (v * v));
        cx.chk(m, "V:d2p/dV2", d2p, &d, 4, 1.0, fl * sa / (v * v * v));
    } else {
        m.skip("V", "neighbour state failed");
    }

    // ---- mole number directions
    let dp_dn = st.dp_dni(Contributions::Residual).to_reduced();
    let dmu_dn = st.dmu_dni(Contributions::Residual).to_reduced();
    for k in 0..mc.n {
        // a dilute component in a dilute gas: the response of the residual Helmholtz
        // energy to N_k is below the round-off of its dominant terms
        if ss.eta_frac * ss.x[k] < if mc.family.ends_with("functional") { 1e-6 } else { 1e-7 } {
            m.skip("N", "fd unresolved (dilute component at low density)");
            continue;
        }
        let f_n = |nk: f64| {
            let mut nn = n.clone();
            nn[k] = nk;
            state_tvn(eos, t, v, &nn).map(|s| obs_vec(&s))
        };
        let d = ests_n(f_n, n[k], ntot);
        if !d.is_empty() {
            // dilute component: the response to N_k is a small difference of large terms
            let cxk = Ctx {
                tol: cx.tol * (1e-5 / ss.x[k]).max(1.0),
                ..cx
            };
            cxk.chk(m, "N:mu=dA/dN", o.mu[k], &d, 0, 1.0, fl * sa / ntot);
            cxk.chk(m, "N:dp/dN", dp_dn[k], &d, 1, 1.0, fl * sa / (v * ntot));
            for i in 0..mc.n {
                cxk.chk(m, "N:dmu/dN", dmu_dn[[i, k]], &d, 5 + i, 1.0, fl * sa / (ntot * ntot));
            }
        } else {
            m.skip("N", "neighbour state failed");
        }
    }

    // ---- per-contribution first derivatives (localisation). Single contributions are
    // only meaningful above the round-off / solver-tolerance floor of the total
    if ss.eta_frac < 1e-3 {
        return;
    }
    let contrib_a = |s: &St| -> Vec<f64> {
        s.residual_helmholtz_energy_contributions()
            .iter()
            .map(|(_, a)| a.to_reduced())
            .collect()
    };
    let names: Vec<String> = st
        .residual_helmholtz_energy_contributions()
        .iter()
        .map(|(n, _)| n.clone())
        .collect();
    let d = ests_rel(|vv| state_tvn(eos, t, vv, &n).map(|s| contrib_a(&s)), v, &HS);
    if !d.is_empty() {
        let pc = st.pressure_contributions();
        for (j, name) in names.iter().enumerate() {
            // pressure_contributions has the ideal gas as first entry
            let ad = pc[j + 1].1.to_reduced();
            cx.chk_sig(m, "V:p per contribution", name, ad, &d, j, -1.0, 1e-2 * sa / v);
        }
    }
    let k = (case % mc.n as u64) as usize;
    // single contributions (ideal chain, hard chain functional) are singular in the
    // amount of a dilute component (N_k ln rho_k); only their sum is smooth. The
    // per-contribution check therefore uses steps relative to N_k only.
    if ss.x[k] > 1e-3 {
        let f_nk = |nk: f64| {
            let mut nn = n.clone();
            nn[k] = nk;
            state_tvn(eos, t, v, &nn).map(|s| contrib_a(&s))
        };
        let d = ests_rel(f_nk, n[k], &[1e-3, 1e-4, 1e-2]);
        if !d.is_empty() {
            let mc_ = st.residual_chemical_potential_contributions(k);
            for (j, name) in names.iter().enumerate() {
                let ad = mc_[j].1.to_reduced();
                cx.chk_sig(m, "N:mu per contribution", name, ad, &d, j, 1.0, 1e-2 * sa / ntot);
            }
        }
    }
}

/// caloric and fugacity-coefficient derivatives at constant pressure, by re-solving
/// (T,p,N) states around a mechanically stable state.
fn check_caloric(m: &mut Monitor, case: u64, mc: &ModelCase, ss: &StateSpec, seed: u64) {
    if matches!(mc.spec.kind, Kind::Fmt) || !model_smooth_at(&mc.spec, ss.t) {
        return;
    }
    let mut rng = Rng::derive(seed, "c01-joback", case);
    let ig = joback_for(mc.n, &mut rng);
    let eos: Arc<Eos> = Arc::new(EquationOfState::new(ig, mc.eos.clone()));
    let Ok(st) = State::new_nvt(&eos, ss.temperature(), ss.volume(), &ss.moles()) else {
        return;
    };
    let c = Contributions::Total;
    let t = ss.t;
    let v = ss.volume().to_reduced();
    let ntot = ss.ntot;
    let p = st.pressure(c).to_reduced();
    let dpdv = st.dp_dv(c).to_reduced();
    // mechanically stable, positive pressure, comfortably away from the spinodal
    if !(p.is_finite() && p > 0.0 && dpdv < 0.0 && -dpdv * v > 0.1 * ntot * t / v) {
        m.skip("caloric", "not a stable single-phase state");
        return;
    }
    let cx = Ctx {
        fam: mc.family.as_str(),
        case,
        mc,
        ss,
        tol: TOL_CALORIC * (1e-2 / ss.eta_frac).max(1.0),
    };
    let n = ss.moles();
    let rho0 = st.density;
    let npt = |tt: f64, pp: f64, nn: &Moles<Array1<f64>>| {
        State::new_npt(
            &eos,
            Temperature::from_reduced(tt),
            Pressure::from_reduced(pp),
            nn,
            DensityInitialization::InitialDensity(rho0),
        )
        .ok()
        // reject re-solves that jumped to another branch
        .filter(|s| ((s.density / rho0).into_value() - 1.0).abs() < 0.1)
    };
    let ncomp = mc.n;
    // observables at (T,p): h, s, ln phi_i
    let f_tp = |s: &State<Eos>| -> Vec<f64> {
        let mut o = vec![
            s.molar_enthalpy(c).to_reduced(),
            s.molar_entropy(c).to_reduced(),
        ];
        o.extend(s.ln_phi().iter());
        o
    };
    let hs = [1e-3, 1e-2, 1e-4];
    let cp = st.molar_isobaric_heat_capacity(c).to_reduced();
    let cv = st.molar_isochoric_heat_capacity(c).to_reduced();
    let d_t = ests_rel(|tt| npt(tt, p, &n).map(|s| f_tp(&s)), t, &hs);
    if !d_t.is_empty() {
        cx.chk(m, "caloric:cp", cp, &d_t, 0, 1.0, 1.0);
        let ds: Vec<Est> = d_t
            .iter()
            .map(|e| Est {
                d: vec![t * e.d[1]],
                err: vec![t * e.err[1]],
            })
            .collect();
        cx.chk(m, "caloric:cp=T ds/dT|p", cp, &ds, 0, 1.0, 1.0);
        let dlnphi_dt = st.dln_phi_dt().to_reduced();
        for i in 0..ncomp {
            cx.chk(m, "caloric:dlnphi/dT|p", dlnphi_dt[i], &d_t, 2 + i, 1.0, 0.1 / t);
        }
    } else {
        m.skip("caloric", "T re-solve failed");
    }
    let d_p = ests_rel(|pp| npt(t, pp, &n).map(|s| f_tp(&s)), p, &hs);
    if !d_p.is_empty() {
        let dlnphi_dp = st.dln_phi_dp().to_reduced();
        for i in 0..ncomp {
            cx.chk(m, "caloric:dlnphi/dp|T", dlnphi_dp[i], &d_p, 2 + i, 1.0, 1e-2 / p);
        }
        // Joule-Thomson: mu_JT = -(dh/dp|T)/cp
        let jt = st.joule_thomson().to_reduced();
        let e: Vec<Est> = d_p
            .iter()
            .map(|e| Est {
                d: vec![-e.d[0] / cp],
                err: vec![(e.err[0] / cp).abs()],
            })
            .collect();
        cx.chk(m, "caloric:joule_thomson", jt, &e, 0, 1.0, 1e-2 * t / p);
    } else {
        m.skip("caloric", "p re-solve failed");
    }
    // cv by FD of u at constant V
    let f_u = |tt: f64| {
        State::new_nvt(&eos, Temperature::from_reduced(tt), st.volume, &n)
            .ok()
            .map(|s| vec![s.molar_internal_energy(c).to_reduced()])
    };
    let d_u = ests_rel(f_u, t, &hs);
    if !d_u.is_empty() {
        cx.chk(m, "caloric:cv", cv, &d_u, 0, 1.0, 1.0);
    }
    // speed of sound: w^2 = cp/cv * (-V^2/(N MW)) dp/dV|T from the finite-difference
    // ingredients with the smallest error bars (relative errors add)
    let d_v = ests_rel(
        |vv| {
            State::new_nvt(&eos, st.temperature, Volume::from_reduced(vv), &n)
                .ok()
                .map(|s| vec![s.pressure(c).to_reduced()])
        },
        v,
        &hs,
    );
    let best = |e: &[Est]| -> Option<(f64, f64)> {
        e.iter()
            .filter(|e| e.d[0].is_finite() && e.err[0].is_finite())
            .min_by(|a, b| a.err[0].partial_cmp(&b.err[0]).unwrap())
            .map(|e| (e.d[0], e.err[0]))
    };
    if let (Some((cpf, ecp)), Some((cvf, ecv)), Some((dpf, edp))) =
        (best(&d_t), best(&d_u), best(&d_v))
    {
        let w = st.speed_of_sound().to_reduced();
        let mw = st.total_molar_weight().to_reduced();
        let w2 = (cpf / cvf) * (-(v * v) * dpf) / (ntot * mw);
        if w2 > 0.0 && w.is_finite() {
            let wref = w2.sqrt();
            let rel = 0.5 * ((ecp / cpf).abs() + (ecv / cvf).abs() + (edp / dpf).abs());
            let e = vec![Est {
                d: vec![wref],
                err: vec![rel * wref],
            }];
            cx.chk(m, "caloric:speed_of_sound", w, &e, 0, 1.0, 0.0);
        }
    }
    // composition derivative at constant T,p
    if ncomp > 1 {
        let dln = st.dln_phi_dnj().to_reduced();
        let nr = n.to_reduced();
        let j = (case % ncomp as u64) as usize;
        let d = ests_n(
            |nj| {
                let mut nn = nr.clone();
                nn[j] = nj;
                npt(t, p, &Moles::from_reduced(nn)).map(|s| s.ln_phi().to_vec())
            },
            nr[j],
            ntot,
        );
        if !d.is_empty() {
            for i in 0..ncomp {
                cx.chk(m, "caloric:dlnphi/dN|T,p", dln[[i, j]], &d, i, 1.0, 0.1 / ntot);
            }
        }
    }
}
