//! C01 — state properties are exact derivatives of the model's Helmholtz energy.
//! Oracle: every AD derivative getter vs Richardson finite difference of the
//! next-lower-order getter on neighbouring states of the same model.
use crate::fd::{best_dev, deriv, deriv_n, deriv_n_multi, deriv_t_or_v, serr};
use crate::monitor::*;
use crate::prng::Rng;
use crate::stream::*;
use crate::zoo::*;
use feos::ideal_gas::{IdealGasModel, Joback, JobackRecord};
use feos_core::parameter::{Parameter, PureRecord};
use feos_core::{Contributions, DensityInitialization, EquationOfState, ReferenceSystem, State};
use ndarray::Array1;
use quantity::*;
use serde_json::json;
use std::sync::Arc;

pub const H: f64 = 1e-3;
pub const TOL: f64 = 1e-6;
pub const TOL_CALORIC: f64 = 1e-5;

pub type Eos = EquationOfState<IdealGasModel, Model>;

/// reduced residual observables of one state
pub struct Obs {
    pub a: f64,
    pub p: f64,
    pub s: f64,
    pub mu: Vec<f64>,
    pub dp_dv: f64,
    pub ds_dt: f64,
}

pub fn obs(s: &St) -> Obs {
    Obs {
        a: s.residual_helmholtz_energy().to_reduced(),
        p: s.pressure(Contributions::Residual).to_reduced(),
        s: s.residual_entropy().to_reduced(),
        mu: s.residual_chemical_potential().to_reduced().to_vec(),
        dp_dv: s.dp_dv(Contributions::Residual).to_reduced(),
        ds_dt: s.ds_res_dt().to_reduced(),
    }
}

fn obs_vec(s: &St) -> Vec<f64> {
    let o = obs(s);
    let mut v = vec![o.a, o.p, o.s, o.ds_dt, o.dp_dv];
    v.extend(o.mu);
    v
}

/// natural magnitude of the residual energy terms of a state (reduced units)
pub fn energy_scale(s: &St) -> f64 {
    let o = obs(s);
    let v = s.volume.to_reduced();
    let t = s.temperature.to_reduced();
    let n = s.moles.to_reduced();
    let mun: f64 = o.mu.iter().zip(n.iter()).map(|(m, n)| (m * n).abs()).sum();
    o.a.abs().max((o.p * v).abs()).max((o.s * t).abs()).max(mun)
}

pub fn joback_for(n: usize, rng: &mut Rng) -> Arc<IdealGasModel> {
    let recs: Vec<PureRecord<JobackRecord>> = (0..n)
        .map(|_| {
            PureRecord::new(
                Default::default(),
                1.0,
                JobackRecord::new(
                    rng.range(20.0, 60.0),
                    rng.range(0.01, 0.2),
                    rng.range(-1e-4, 1e-4),
                    rng.range(-1e-8, 1e-8),
                    0.0,
                ),
            )
        })
        .collect();
    Arc::new(IdealGasModel::Joback(Arc::new(
        Joback::from_records(recs, None).unwrap(),
    )))
}

pub fn run(cfg: Config) -> i32 {
    let mut m = Monitor::new(cfg.clone());
    let (reps, nstates) = stream_sizes(cfg.tier);
    let stream = build_stream(
        cfg.seed,
        "c01",
        EOS_FAMILIES,
        &[1, 2, 3],
        reps,
        nstates,
        true,
        0.4,
        3.0,
    );
    m.note("models", json!(stream.len()));
    par_cases(&mut m, &stream, |m, ci, sc| {
        for (si, ss) in sc.states.iter().enumerate() {
            let case = ci * 10_000 + si as u64;
            check_state(m, case, &sc.mc, ss);
            if si % 4 == 0 {
                check_caloric(m, case, &sc.mc, ss, cfg.seed);
            }
        }
    });
    // gates
    let fams: Vec<String> = m.families.keys().cloned().collect();
    for f in EOS_FAMILIES {
        m.gate(
            fams.iter().any(|x| x == f),
            &format!("family {f} produced no case"),
        );
    }
    m.gate(m.distinct.len() >= 200, "fewer than 200 distinct non-trivial states");
    m.gate(
        m.clause_checked("caloric:cp") >= 20,
        "fewer than 20 caloric cases",
    );
    m.finish(
        "states (T in [0.4,3] T_c-scale, density log-uniform/uniform in (1e-6,0.9) rho_max, open-simplex composition, N in [1e-3,1e3]) of random models of every family (shipped + perturbed records, pure/binary/ternary, k_ij); non-trivial = |A_res| > 1e-9 N k T; distinct by hash of (model label, T, rho, x, N)",
        false,
        &[
            "finite-difference error model: central difference + one Richardson step at relative step 1e-3 (truncation ~1e-12, round-off ~1e-11 of the natural scale)",
            "verif hooks do not alter results (no floating-point code)",
            "rustc/LLVM IEEE-754 semantics",
        ],
    )
}

fn check_state(m: &mut Monitor, case: u64, mc: &ModelCase, ss: &StateSpec) {
    let eos = &mc.eos;
    let Some(st) = make_state(eos, ss) else {
        m.skip("state", "invalid");
        return;
    };
    let t = ss.t;
    let v = ss.volume().to_reduced();
    let n: Array1<f64> = ss.moles().to_reduced();
    let ntot = ss.ntot;
    let o = obs(&st);
    if !o.a.is_finite() {
        // a model that cannot be evaluated at this state (e.g. outside its range): not a C01 matter
        m.skip("state", &format!("non-finite A ({})", mc.family));
        return;
    }
    let nontrivial = o.a.abs() > 1e-9 * ntot * t;
    m.case(&mc.family, ss.hash(&mc.label()), nontrivial);
    if !nontrivial {
        m.skip("state", "trivial");
        return;
    }
    let sa = energy_scale(&st);
    let fam = mc.family.as_str();
    // finite-difference noise model: residual properties lose ~1e-16/eta relative
    // precision at low packing fraction (ln(1+eps) cancellation), divided by h
    let tol = TOL * (1e-2 / ss.eta_frac).max(1.0);
    let detail = |clause: &str, ad: f64, fd: f64| {
        let model = mc.spec.clone();
        let ss = ss.clone();
        let clause = clause.to_string();
        move || json!({"clause": clause, "model": model, "state": ss.json(), "ad": fnum(ad), "fd": fnum(fd)})
    };
    if m.samples.len() < 3 {
        m.sample(json!({"model": mc.label(), "state": ss.json(), "A_res_over_NkT": o.a/(ntot*t)}));
    }

    // one oracle evaluation: AD value vs the best of several FD estimates
    let c = |m: &mut Monitor, name: &str, ad: f64, ests: &[Vec<f64>], i: usize, sign: f64, scale: f64| {
        let (dev, fd) = best_dev(ad, ests, i, sign, scale * 1e-3);
        let sig = format!("{fam}|{name}");
        m.check(name, &sig, case, dev, tol, detail(name, ad, fd));
    };

    // ---- temperature direction
    let f_t = |tt: f64| state_tvn(eos, tt, v, &n).map(|s| obs_vec(&s));
    let d = deriv_t_or_v(f_t, t);
    if !d.is_empty() {
        let ds_dt = st.ds_res_dt().to_reduced();
        let d2s = st.d2s_res_dt2().to_reduced();
        let dp_dt = st.dp_dt(Contributions::Residual).to_reduced();
        let dmu_dt = st.dmu_res_dt().to_reduced();
        c(m, "T:S=-dA/dT", o.s, &d, 0, -1.0, sa / t);
        c(m, "T:dp/dT", dp_dt, &d, 1, 1.0, sa / (v * t));
        c(m, "T:dS/dT", ds_dt, &d, 2, 1.0, sa / (t * t));
        c(m, "T:d2S/dT2", d2s, &d, 3, 1.0, sa / (t * t * t));
        for i in 0..mc.n {
            c(m, "T:dmu/dT", dmu_dt[i], &d, 5 + i, 1.0, sa / (ntot * t));
        }
    } else {
        m.skip("T", "neighbour state failed");
    }

    // ---- volume direction
    let f_v = |vv: f64| state_tvn(eos, t, vv, &n).map(|s| obs_vec(&s));
    let d = deriv_t_or_v(f_v, v);
    if !d.is_empty() {
        let d2p = st.d2p_dv2(Contributions::Residual).to_reduced();
        c(m, "V:p=-dA/dV", o.p, &d, 0, -1.0, sa / v);
        c(m, "V:dp/dV", o.dp_dv, &d, 1, 1.0, sa / (v * v));
        c(m, "V:d2p/dV2", d2p, &d, 4, 1.0, sa / (v * v * v));
    } else {
        m.skip("V", "neighbour state failed");
    }

    // ---- mole number directions
    let dp_dn = st.dp_dni(Contributions::Residual).to_reduced();
    let dmu_dn = st.dmu_dni(Contributions::Residual).to_reduced();
    for k in 0..mc.n {
        let f_n = |nk: f64| {
            let mut nn = n.clone();
            nn[k] = nk;
            state_tvn(eos, t, v, &nn).map(|s| obs_vec(&s))
        };
        let d = deriv_n_multi(f_n, n[k], ntot);
        if !d.is_empty() {
            c(m, "N:mu=dA/dN", o.mu[k], &d, 0, 1.0, sa / ntot);
            c(m, "N:dp/dN", dp_dn[k], &d, 1, 1.0, sa / (v * ntot));
            for i in 0..mc.n {
                c(m, "N:dmu/dN", dmu_dn[[i, k]], &d, 5 + i, 1.0, sa / (ntot * ntot));
            }
        } else {
            m.skip("N", "neighbour state failed");
        }
    }

    // ---- per-contribution first derivatives (localisation)
    let contrib_a = |s: &St| -> Vec<f64> {
        s.residual_helmholtz_energy_contributions()
            .iter()
            .map(|(_, a)| a.to_reduced())
            .collect()
    };
    let names: Vec<String> = st
        .residual_helmholtz_energy_contributions()
        .iter()
        .map(|(n, _)| n.clone())
        .collect();
    let d = deriv_t_or_v(|vv| state_tvn(eos, t, vv, &n).map(|s| contrib_a(&s)), v);
    if !d.is_empty() {
        let pc = st.pressure_contributions();
        for (j, name) in names.iter().enumerate() {
            // pressure_contributions has the ideal gas as first entry
            let ad = pc[j + 1].1.to_reduced();
            let cl = "V:p per contribution";
            let (dev, fd) = best_dev(ad, &d, j, -1.0, sa / v * 1e-2);
            let sig = format!("{fam}|{cl}|{name}");
            m.check(cl, &sig, case, dev, tol, detail(&format!("{cl} {name}"), ad, fd));
        }
    }
    let k = (case % mc.n as u64) as usize;
    // single contributions (ideal chain, hard chain functional) are singular in the
    // amount of a dilute component (N_k ln rho_k); only their sum is smooth. The
    // per-contribution check therefore uses steps relative to N_k only.
    let f_nk = |nk: f64| {
        let mut nn = n.clone();
        nn[k] = nk;
        state_tvn(eos, t, v, &nn).map(|s| contrib_a(&s))
    };
    let d: Vec<Vec<f64>> = [1e-3, 1e-4].iter().filter_map(|&h| deriv(&f_nk, n[k], h)).collect();
    if !d.is_empty() && ss.x[k] > 1e-3 {
        let mc_ = st.residual_chemical_potential_contributions(k);
        for (j, name) in names.iter().enumerate() {
            let ad = mc_[j].1.to_reduced();
            let cl = "N:mu per contribution";
            let (dev, fd) = best_dev(ad, &d, j, 1.0, sa / ntot * 1e-2);
            let sig = format!("{fam}|{cl}|{name}");
            m.check(cl, &sig, case, dev, tol, detail(&format!("{cl} {name}"), ad, fd));
        }
    }
}

/// caloric and fugacity-coefficient derivatives at constant pressure, by re-solving
/// (T,p,N) states around a mechanically stable state.
fn check_caloric(m: &mut Monitor, case: u64, mc: &ModelCase, ss: &StateSpec, seed: u64) {
    let mut rng = Rng::derive(seed, "c01-joback", case);
    let ig = joback_for(mc.n, &mut rng);
    let eos: Arc<Eos> = Arc::new(EquationOfState::new(ig, mc.eos.clone()));
    let Ok(st) = State::new_nvt(&eos, ss.temperature(), ss.volume(), &ss.moles()) else {
        return;
    };
    let c = Contributions::Total;
    let t = ss.t;
    let v = ss.volume().to_reduced();
    let ntot = ss.ntot;
    let p = st.pressure(c).to_reduced();
    let dpdv = st.dp_dv(c).to_reduced();
    // mechanically stable, positive pressure, comfortably away from the spinodal
    if !(p.is_finite() && p > 0.0 && dpdv < 0.0 && -dpdv * v > 0.1 * ntot * t / v) {
        m.skip("caloric", "not a stable single-phase state");
        return;
    }
    let fam = mc.family.as_str();
    let n = ss.moles();
    let rho0 = st.density;
    let npt = |tt: f64, pp: f64, nn: &Moles<Array1<f64>>| {
        State::new_npt(
            &eos,
            Temperature::from_reduced(tt),
            Pressure::from_reduced(pp),
            nn,
            DensityInitialization::InitialDensity(rho0),
        )
        .ok()
        // reject re-solves that jumped to another branch
        .filter(|s| ((s.density / rho0).into_value() - 1.0).abs() < 0.05)
    };
    let detail = |clause: &str, ad: f64, fd: f64| {
        let model = mc.spec.clone();
        let ss = ss.clone();
        let clause = clause.to_string();
        move || json!({"clause": clause, "model": model, "state": ss.json(), "ad": fnum(ad), "fd": fnum(fd)})
    };
    let tol = TOL_CALORIC * (1e-2 / ss.eta_frac).max(1.0);
    let chk = |m: &mut Monitor, name: &str, ad: f64, ests: &[Vec<f64>], i: usize, sign: f64, scale: f64| {
        let (dev, fd) = best_dev(ad, ests, i, sign, scale);
        let sig = format!("{fam}|{name}");
        m.check(name, &sig, case, dev, tol, detail(name, ad, fd));
    };
    let steps = [1e-3, 1e-2, 1e-4];
    let multi = |f: &dyn Fn(f64) -> Option<Vec<f64>>, x: f64| -> Vec<Vec<f64>> {
        steps.iter().filter_map(|&h| deriv(f, x, h)).collect()
    };
    let ncomp = mc.n;
    // observables at (T,p): h, s, ln phi_i
    let f_tp = |s: &State<Eos>| -> Vec<f64> {
        let mut o = vec![
            s.molar_enthalpy(c).to_reduced(),
            s.molar_entropy(c).to_reduced(),
        ];
        o.extend(s.ln_phi().iter());
        o
    };
    let cp = st.molar_isobaric_heat_capacity(c).to_reduced();
    let cv = st.molar_isochoric_heat_capacity(c).to_reduced();
    let d_t = multi(&|tt| npt(tt, p, &n).map(|s| f_tp(&s)), t);
    if !d_t.is_empty() {
        chk(m, "caloric:cp", cp, &d_t, 0, 1.0, 1.0);
        let ds: Vec<Vec<f64>> = d_t.iter().map(|d| vec![t * d[1]]).collect();
        chk(m, "caloric:cp=T ds/dT|p", cp, &ds, 0, 1.0, 1.0);
        let dlnphi_dt = st.dln_phi_dt().to_reduced();
        for i in 0..ncomp {
            chk(m, "caloric:dlnphi/dT|p", dlnphi_dt[i], &d_t, 2 + i, 1.0, 0.1 / t);
        }
    } else {
        m.skip("caloric", "T re-solve failed");
    }
    let d_p = multi(&|pp| npt(t, pp, &n).map(|s| f_tp(&s)), p);
    if !d_p.is_empty() {
        let dlnphi_dp = st.dln_phi_dp().to_reduced();
        for i in 0..ncomp {
            chk(m, "caloric:dlnphi/dp|T", dlnphi_dp[i], &d_p, 2 + i, 1.0, 1e-2 / p);
        }
        // Joule-Thomson: mu_JT = -(dh/dp|T)/cp
        let jt = st.joule_thomson().to_reduced();
        let e: Vec<Vec<f64>> = d_p.iter().map(|d| vec![-d[0] / cp]).collect();
        chk(m, "caloric:joule_thomson", jt, &e, 0, 1.0, 1e-2 * t / p);
    } else {
        m.skip("caloric", "p re-solve failed");
    }
    // cv by FD of u at constant V
    let f_u = |tt: f64| {
        State::new_nvt(&eos, Temperature::from_reduced(tt), st.volume, &n)
            .ok()
            .map(|s| vec![s.molar_internal_energy(c).to_reduced()])
    };
    let d_u = multi(&f_u, t);
    if !d_u.is_empty() {
        chk(m, "caloric:cv", cv, &d_u, 0, 1.0, 1.0);
    }
    // speed of sound: w^2 = cp/cv * (-V^2/(N MW)) dp/dV|T with FD ingredients
    let d_v = multi(
        &|vv| {
            State::new_nvt(&eos, st.temperature, Volume::from_reduced(vv), &n)
                .ok()
                .map(|s| vec![s.pressure(c).to_reduced()])
        },
        v,
    );
    if !d_t.is_empty() && !d_u.is_empty() && !d_v.is_empty() && matches!(mc.spec.kind, Kind::Fmt) == false {
        let w = st.speed_of_sound().to_reduced();
        let mw = st.total_molar_weight().to_reduced();
        let mut e = Vec::new();
        for a in &d_t {
            for b in &d_u {
                for cc in &d_v {
                    let w2 = (a[0] / b[0]) * (-(v * v) * cc[0]) / (ntot * mw);
                    if w2 > 0.0 {
                        e.push(vec![w2.sqrt()]);
                    }
                }
            }
        }
        if !e.is_empty() && w.is_finite() {
            chk(m, "caloric:speed_of_sound", w, &e, 0, 1.0, 0.0);
        }
    }
    // composition derivative at constant T,p
    if ncomp > 1 {
        let dln = st.dln_phi_dnj().to_reduced();
        let nr = n.to_reduced();
        let j = (case % ncomp as u64) as usize;
        let d = deriv_n_multi(
            |nj| {
                let mut nn = nr.clone();
                nn[j] = nj;
                npt(t, p, &Moles::from_reduced(nn)).map(|s| s.ln_phi().to_vec())
            },
            nr[j],
            ntot,
        );
        if !d.is_empty() {
            for i in 0..ncomp {
                chk(m, "caloric:dlnphi/dN|T,p", dln[[i, j]], &d, i, 1.0, 0.1 / ntot);
            }
        }
    }
}
