//! C19 — DFT results obey the Gibbs adsorption relation and their reported derivatives.
//!
//! Pores (slit / cylinder / sphere x LJ93 / Steele / SimpleLJ93 / hard wall x sizes) at bulk
//! states between 1 % and 30 % of the saturated-vapour resp. critical density: the profile
//! is solved at the state and re-solved at neighbouring bulk densities / temperatures
//! (starting from the base profile, Newton to 1e-13); centred differences with a Richardson
//! step and a measured error bar (fd.rs) are compared with
//!   * the Gibbs adsorption relation  dOmega/drho_j = - sum_i N_i dmu_i/drho_j,
//!   * DFTProfile::dn_dmu (chain rule with the bulk dmu_i/drho_j), its symmetry,
//!   * DFTProfile::dn_dp  (chain rule with the bulk dp/drho at fixed composition),
//!   * DFTProfile::dn_dt  (re-solved along the isobar),
//!   * the (partial molar) enthalpy of adsorption vs its definition from these;
//! p -> 0: N/p -> Henry coefficient, -T^2 dlnH/dT -> ideal-gas enthalpy of adsorption.
//! Planar interfaces: gamma(T) decreasing with the mean-field exponent towards T_c,
//! independent of box length / resolution beyond a measured discretisation error model,
//! pDGT within a band of the DFT value.
use crate::c18::*;
use crate::fd::*;
use crate::monitor::*;
use crate::prng::{hash_str, Rng};
use crate::with_functional;
use feos_core::{Contributions, DensityInitialization, ReferenceSystem, State};
use feos_dft::adsorption::{Pore1D, PoreProfile1D, PoreSpecification};
use feos_dft::interface::PlanarInterface;
use feos_dft::{DFTSolver, Geometry, PdgtFunctionalProperties};
use ndarray::{Array1, Array2};
use quantity::*;
use serde::Serialize;
use serde_json::{json, Value};
use std::panic::{catch_unwind, AssertUnwindSafe};
use std::sync::Arc;

// tolerances: deviation beyond three FD error bars, scaled (see fd::judge)
/// Gibbs adsorption relation; limited by the consistency of Omega (evaluated with the
/// Euler-Lagrange equation inserted) with the discretised functional: exact in Cartesian
/// geometry, O(grid) in curved geometries
/// measured: Cartesian <= 5e-9; spherical first order in the grid spacing, <= 0.04 dr / A
/// (3.7e-3 at n = 256, 2.3e-4 at n = 4096), judged relative to the model 1e-6 + 1.0 dr / A (worst 0.22 over the thorough run);
/// cylindrical <= 9e-6 for hard walls, but 2-9 % (independent of the grid) for attractive walls
const TOL_GIBBS_CARTESIAN: f64 = 1e-4;
const TOL_GIBBS_SPHERICAL: f64 = 10.0;
/// spherical: refining the grid 4x must reduce the deviation (first order: to 1/4)
const TOL_GIBBS_REFINEMENT: f64 = 0.6;
const TOL_GIBBS_CYLINDRICAL: f64 = 1e-3;
/// implicit derivatives vs re-solved profiles
const TOL_DN_DMU: f64 = 1e-4;
const TOL_DN_DP: f64 = 1e-4;
const TOL_DN_DT: f64 = 1e-4;
/// cylindrical geometry: the discretised Euler-Lagrange operator is nearly singular (C18,
/// finding F19), re-solved neighbours and GMRES both wander along the soft mode
/// (measured up to 1.5e-3); the clauses are kept but are weak there
const TOL_IMPLICIT_CYLINDRICAL: f64 = 0.1;
/// |dN_0/dmu_1 - dN_1/dmu_0| / sqrt(dN_0/dmu_0 dN_1/dmu_1): Cartesian <= 7e-10 measured;
/// spherical first order (<= 7e-4 dr / A), judged relative to 1e-8 + 0.5 dr / A; cylindrical
/// ~1e-3 independent of the grid
const TOL_SYMMETRY: f64 = 1e-7;
const TOL_SYMMETRY_SPHERICAL: f64 = 1.0;
const TOL_SYMMETRY_CYLINDRICAL: f64 = 1e-5;
const TOL_H_ADS_DEF: f64 = 1e-8;
const TOL_H_ADS_FD: f64 = 1e-3;
const TOL_HENRY: f64 = 1e-4;
const TOL_H_IG: f64 = 1e-5;
/// FD estimates with a relative error bar above this are reported as unresolved
const FD_RESOLVED: f64 = 1e-5;
// planar
const TOL_PDGT: f64 = 0.15;
/// gamma(n, L) vs gamma(4096, 300 A): measured <= 4e-7 whenever the small box converges
const TOL_BOX: f64 = 1e-4;

#[derive(Clone, Debug, Serialize)]
enum Work {
    /// derivatives at one pore / bulk state
    Pore { pore: PoreDesc, bulk: BulkDesc },
    /// Henry limit at temperature tr T_c
    Henry { pore: PoreDesc, tr: f64 },
    /// gamma(T) sweep
    Sweep,
    /// gamma at (n, l) vs the reference (4096, 300 A)
    Box { tr: f64, samples: Vec<(usize, f64)> },
}

#[derive(Clone, Debug, Serialize)]
struct Case {
    fluid: Fluid,
    work: Work,
}

fn pore_fluids() -> Vec<Fluid> {
    vec![
        Fluid::pc(&["methane"], None),
        Fluid::pc(&["propane"], None),
        Fluid::pc(&["methane"], Some(0)),
        Fluid::Pets { sigma: 3.7, eps: 120.0 },
        Fluid::gc(&["propane"]),
        Fluid::pc(&["methane", "ethane"], None),
        Fluid::pc(&["carbon dioxide"], Some(1)),
    ]
}

fn planar_fluids() -> Vec<Fluid> {
    vec![
        Fluid::pc(&["propane"], None),
        Fluid::pc(&["methane"], None),
        Fluid::pc(&["butane"], Some(0)),
        Fluid::Pets { sigma: 3.7, eps: 120.0 },
        Fluid::gc(&["propane"]),
    ]
}

fn build_cases(seed: u64, tier: Tier) -> Vec<Case> {
    let (n_pore, n_henry, n_box) = tier.pick((140, 60, 10), (2000, 600, 60));
    let pf = pore_fluids();
    let mut cases = Vec::new();
    for i in 0..n_pore {
        let mut rng = Rng::derive(seed, "c19-pore", i as u64);
        let mut pore = PoreDesc::random(&mut rng);
        pore.n_grid = *rng.choose(&[256, 512, 1024]);
        if let Some(n) = std::env::var("FV_NGRID").ok().and_then(|s| s.parse().ok()) {
            pore.n_grid = n; // calibration runs: same cases on another grid
        }
        let tr = if rng.bool(0.4) { rng.range(0.6, 0.98) } else { rng.range(1.02, 1.5) };
        let bulk = BulkDesc { tr, frac: rng.log_range(0.01, 0.3), x0: rng.range(0.15, 0.85) };
        cases.push(Case { fluid: pf[i % pf.len()].clone(), work: Work::Pore { pore, bulk } });
    }
    for i in 0..n_henry {
        let mut rng = Rng::derive(seed, "c19-henry", i as u64);
        let pore = PoreDesc::random(&mut rng);
        cases.push(Case { fluid: pf[i % pf.len()].clone(), work: Work::Henry { pore, tr: rng.range(0.6, 1.5) } });
    }
    let qf = planar_fluids();
    for f in &qf {
        cases.push(Case { fluid: f.clone(), work: Work::Sweep });
    }
    for i in 0..n_box {
        let mut rng = Rng::derive(seed, "c19-box", i as u64);
        let samples = (0..6).map(|_| (*rng.choose(&[256usize, 512, 1024, 2048, 4096]), rng.range(60.0, 300.0))).collect();
        cases.push(Case { fluid: qf[i % qf.len()].clone(), work: Work::Box { tr: rng.range(0.5, 0.95), samples } });
    }
    cases
}

// ---------------------------------------------------------------------------------------
// pores
// ---------------------------------------------------------------------------------------

fn newton(tol: f64) -> DFTSolver {
    DFTSolver::new(None).newton(Some(false), Some(30), Some(300), Some(tol))
}

/// converged profile at `state`, started from `init` (Newton only) or from scratch
/// (Anderson, then Newton on a fresh profile so that the bulk state is the specified one)
fn solve_pore<F: Dft>(pore: &Pore1D, state: &State<F>, init: Option<&Density<Array2<f64>>>, tol: f64) -> Option<PoreProfile1D<F>> {
    solve_pore_why(pore, state, init, tol).ok()
}

fn solve_pore_why<F: Dft>(pore: &Pore1D, state: &State<F>, init: Option<&Density<Array2<f64>>>, tol: f64) -> Result<PoreProfile1D<F>, &'static str> {
    catch_unwind(AssertUnwindSafe(|| {
        let start = match init {
            Some(d) => d.clone(),
            None => {
                let mut p = pore.initialize(state, None, None).map_err(|_| "initialize failed")?;
                let pre = DFTSolver::new(None)
                    .anderson_mixing(Some(true), Some(100), Some(1e-5), None, None)
                    .anderson_mixing(Some(false), Some(300), Some(1e-9), None, None);
                if p.solve_inplace(Some(&pre), false).is_err() {
                    // slower but more robust start
                    p = pore.initialize(state, None, None).map_err(|_| "initialize failed")?;
                    let pre = DFTSolver::new(None).picard_iteration(Some(true), Some(500), Some(1e-7), None);
                    p.solve_inplace(Some(&pre), false).map_err(|_| "anderson and picard start failed")?;
                }
                p.profile.density.clone()
            }
        };
        let mut p = pore.initialize(state, Some(&start), None).map_err(|_| "initialize failed")?;
        p.solve_inplace(Some(&newton(tol)), false).map_err(|_| "newton failed")?;
        let n = p.profile.moles().to_reduced();
        let o = p.grand_potential.ok_or("no grand potential")?.to_reduced();
        if n.iter().all(|x| x.is_finite()) && o.is_finite() {
            Ok(p)
        } else {
            Err("non-finite N or Omega")
        }
    }))
    .unwrap_or(Err("panic"))
}

fn state_rho<F: Dft>(f: &Arc<F>, t: f64, rho: &Array1<f64>) -> Option<State<F>> {
    if rho.iter().any(|r| !(*r > 0.0)) {
        return None;
    }
    State::new_nvt(f, Temperature::from_reduced(t), Volume::from_reduced(1.0), &Moles::from_reduced(rho.clone())).ok()
}

fn gibbs_tol(g: Geometry) -> f64 {
    match g {
        Geometry::Cartesian => TOL_GIBBS_CARTESIAN,
        Geometry::Spherical => TOL_GIBBS_SPHERICAL,
        Geometry::Cylindrical => TOL_GIBBS_CYLINDRICAL,
    }
}

/// judge `ad` against FD estimates; unresolved FD -> skip
#[allow(clippy::too_many_arguments)]
/// (`model`: error model the deviation is divided by, 1 where the relation is exact)
fn fd_check(m: &mut Monitor, clause: &str, sig: &str, case: u64, ad: f64, ests: &[Est], i: usize, scale: f64, tol: f64, model: f64, det: &dyn Fn(f64, f64) -> Value) {
    match judge(ad, ests, i, 1.0, scale) {
        None => m.skip(clause, "fd not available"),
        Some(j) if j.relerr > FD_RESOLVED => m.skip(clause, "fd unresolved"),
        Some(j) => {
            // measured raw deviation (without error-bar allowance) for calibration
            let raw = serr(ad, j.fd, scale);
            for k in 1..=9 {
                if raw > 10f64.powi(-k) {
                    m.count(&format!("raw deviation > 1e-{k}: {clause}"), 1);
                    break;
                }
            }
            m.check(clause, sig, case, j.dev / model, tol, || det(ad, j.fd));
        }
    }
}

/// raw scaled deviation of dOmega/drho_0 from -sum_i N_i dmu_i/drho_0 and its FD error bar
fn gibbs_raw<F: Dft>(f: &Arc<F>, pd: &PoreDesc, state: &State<F>, n0: &Array1<f64>, init: &Density<Array2<f64>>, dmu_drho: &Array2<f64>) -> Option<(f64, f64)> {
    let pore = pd.build();
    let t = state.temperature.to_reduced();
    let rho0 = state.partial_density.to_reduced();
    let g = |x0: f64| -> Option<Vec<f64>> {
        let mut r = rho0.clone();
        r[0] = x0;
        let st = state_rho(f, t, &r)?;
        Some(vec![solve_pore(&pore, &st, Some(init), 1e-13)?.grand_potential?.to_reduced()])
    };
    let ests = ests_rel(g, rho0[0], &[1e-3, 4e-3]);
    let nc = rho0.len();
    let ad: f64 = -(0..nc).map(|i| n0[i] * dmu_drho[[i, 0]]).sum::<f64>();
    let scale: f64 = (0..nc).map(|i| (n0[i] * dmu_drho[[i, 0]]).abs()).sum();
    let j = judge(ad, &ests, 0, 1.0, scale)?;
    Some((serr(ad, j.fd, scale), j.relerr))
}

fn pore_case<F: Dft>(m: &mut Monitor, idx: u64, c: &Case, f: &Arc<F>, pd: &PoreDesc, bd: &BulkDesc) {
    let tag = c.fluid.tag();
    let geo = pd.geometry();
    let gname = geo_name(geo);
    let sys = format!("{tag} {}", pd.tag());
    let Some(state) = bulk_state(f, bd) else {
        m.skip("pore", "no bulk state");
        return;
    };
    let pore = pd.build();
    let t = state.temperature.to_reduced();
    let rho0 = state.partial_density.to_reduced();
    let nc = rho0.len();
    let base = match solve_pore_why(&pore, &state, None, 1e-13) {
        Ok(b) => b,
        Err(why) => {
            m.skip("pore", &format!("base profile not converged: {why}"));
            return;
        }
    };
    let n0 = base.profile.moles().to_reduced();
    let omega0 = base.grand_potential.unwrap().to_reduced();
    m.case(&format!("{tag} pore {gname} {}", pd.pot.name()), hash_str(&format!("{:?}", c)), n0.sum() > 0.0);
    if idx % 30 == 0 {
        m.sample(json!({"case": c, "N": n0.to_vec(), "Omega": omega0, "T": t, "rho_bulk": rho0.to_vec()}));
    }
    let init = base.profile.density.clone();

    // implicit derivatives of the library
    let lib = catch_unwind(AssertUnwindSafe(|| -> Option<(Array2<f64>, Array1<f64>, Array1<f64>)> {
        Some((
            base.profile.dn_dmu().ok()?.to_reduced(),
            base.profile.dn_dp().ok()?.to_reduced(),
            base.profile.dn_dt().ok()?.to_reduced(),
        ))
    }));
    let Ok(Some((dn_dmu, dn_dp, dn_dt))) = lib else {
        m.check_bool("implicit derivatives available", &format!("{sys}|implicit derivatives failed"), idx, false, || json!({"case": c}));
        return;
    };
    m.check_bool("implicit derivatives available", &format!("{sys}|implicit derivatives failed"), idx, true, || json!(null));

    // bulk derivatives (reduced: K A^3, K, 1/A^3)
    let vol = state.volume.to_reduced();
    let dmu_drho = state.dmu_dni(Contributions::Total).to_reduced() * vol;
    let x = &rho0 / rho0.sum();
    let dp_drho = state.dp_drho(Contributions::Total).to_reduced();

    // observation: [Omega, N_0, ..] at bulk partial densities rho
    let obs = |rho: &Array1<f64>, tt: f64| -> Option<Vec<f64>> {
        let st = state_rho(f, tt, rho)?;
        let p = solve_pore(&pore, &st, Some(&init), 1e-13)?;
        let mut v = vec![p.grand_potential?.to_reduced()];
        v.extend(p.profile.moles().to_reduced().iter());
        Some(v)
    };
    let det = |what: String, extra: Value| {
        let c = c.clone();
        move |ad: f64, fd: f64| json!({"case": c, "what": what, "library": fnum(ad), "re-solved finite difference": fnum(fd), "context": extra})
    };
    let nscale = n0.iter().cloned().fold(0.0, f64::max);

    // --- derivatives w.r.t. the bulk partial density of component j (T, other densities fixed)
    let mut dn_drho_fd: Vec<Option<Judgement>> = Vec::new();
    for j in 0..nc {
        let g = |xj: f64| {
            let mut r = rho0.clone();
            r[j] = xj;
            obs(&r, t)
        };
        let ests = ests_rel(g, rho0[j], &[1e-3, 4e-3, 2.5e-4]);
        if ests.is_empty() {
            m.skip("gibbs adsorption", "neighbouring profiles not converged");
            dn_drho_fd.push(None);
            continue;
        }
        // Gibbs: dOmega/drho_j = - sum_i N_i dmu_i/drho_j
        let ad: f64 = -(0..nc).map(|i| n0[i] * dmu_drho[[i, j]]).sum::<f64>();
        let scale: f64 = (0..nc).map(|i| (n0[i] * dmu_drho[[i, j]]).abs()).sum();
        // spherical geometry: the deviation is judged relative to the first-order error model
        let dr = pd.size / pd.n_grid as f64;
        let model = if matches!(geo, Geometry::Spherical) { 1e-6 + 1.0 * dr } else { 1.0 };
        fd_check(
            m,
            &format!("gibbs adsorption ({gname})"),
            &format!("gibbs|{gname}|{sys}"),
            idx,
            ad,
            &ests,
            0,
            scale,
            gibbs_tol(geo),
            model,
            &det(format!("dOmega/drho_{j} vs -sum_i N_i dmu_i/drho_{j}"), json!({"N": n0.to_vec()})),
        );
        // dN_i/drho_j = sum_k dn_dmu[k,i] dmu_k/drho_j
        for i in 0..nc {
            let ad: f64 = (0..nc).map(|k| dn_dmu[[k, i]] * dmu_drho[[k, j]]).sum();
            fd_check(
                m,
                &format!("dn_dmu vs re-solved profiles ({gname})"),
                &format!("dn_dmu|{gname}|{sys}"),
                idx,
                ad,
                &ests,
                1 + i,
                nscale / rho0[j] * 1e-2,
                if matches!(geo, Geometry::Cylindrical) { TOL_IMPLICIT_CYLINDRICAL } else { TOL_DN_DMU },
                1.0,
                &det(format!("dN_{i}/drho_{j} vs sum_k dn_dmu[k,{i}] dmu_k/drho_{j}"), json!({"dn_dmu": dn_dmu.iter().cloned().collect::<Vec<_>>()})),
            );
        }
        dn_drho_fd.push(if nc == 1 { judge(0.0, &ests, 1, 1.0, 0.0) } else { None });
        // pure fluid: the same direction is the pressure direction
        if nc == 1 {
            fd_check(
                m,
                &format!("dn_dp vs re-solved profiles ({gname})"),
                &format!("dn_dp|{gname}|{sys}"),
                idx,
                dn_dp[0] * dp_drho,
                &ests,
                1,
                nscale / rho0[0] * 1e-2,
                if matches!(geo, Geometry::Cylindrical) { TOL_IMPLICIT_CYLINDRICAL } else { TOL_DN_DP },
                1.0,
                &det("dN/drho vs dn_dp dp/drho".into(), json!({"dn_dp": dn_dp[0], "dp_drho": dp_drho})),
            );
        }
    }
    // spherical geometry: the Gibbs relation must be approached under grid refinement
    if matches!(geo, Geometry::Spherical) && pd.n_grid <= 512 {
        let coarse = gibbs_raw(f, pd, &state, &n0, &init, &dmu_drho);
        let fine_pd = PoreDesc { n_grid: 4 * pd.n_grid, ..pd.clone() };
        let fine = solve_pore(&fine_pd.build(), &state, None, 1e-13).and_then(|b| {
            let n = b.profile.moles().to_reduced();
            gibbs_raw(f, &fine_pd, &state, &n, &b.profile.density, &dmu_drho)
        });
        match (coarse, fine) {
            (Some((d1, e1)), Some((d4, e4))) if e1 + e4 < 0.05 * d1 && d1 > 1e-6 => {
                m.check(
                    "gibbs adsorption (spherical): deviation shrinks on a 4x finer grid",
                    &format!("gibbs|spherical-refinement|{sys}"),
                    idx,
                    d4 / d1,
                    TOL_GIBBS_REFINEMENT,
                    || json!({"case": c, "deviation at n": d1, "deviation at 4n": d4}),
                );
            }
            (Some(_), Some(_)) => m.skip("gibbs adsorption (spherical): deviation shrinks on a 4x finer grid", "deviation below resolution"),
            _ => m.skip("gibbs adsorption (spherical): deviation shrinks on a 4x finer grid", "profiles not converged"),
        }
    }

    // mixture: pressure direction = total density at fixed composition
    if nc > 1 {
        let rt = rho0.sum();
        let g = |r: f64| obs(&(&x * r), t);
        let ests = ests_rel(g, rt, &[1e-3, 4e-3, 2.5e-4]);
        if ests.is_empty() {
            m.skip("dn_dp vs re-solved profiles", "neighbouring profiles not converged");
        }
        for i in 0..nc {
            if !ests.is_empty() {
                fd_check(
                    m,
                    &format!("dn_dp vs re-solved profiles ({gname})"),
                    &format!("dn_dp|{gname}|{sys}"),
                    idx,
                    dn_dp[i] * dp_drho,
                    &ests,
                    1 + i,
                    nscale / rt * 1e-2,
                    if matches!(geo, Geometry::Cylindrical) { TOL_IMPLICIT_CYLINDRICAL } else { TOL_DN_DP },
                    1.0,
                    &det(format!("dN_{i}/drho (x fixed) vs dn_dp dp/drho"), json!({"dn_dp": dn_dp.to_vec(), "dp_drho": dp_drho})),
                );
            }
        }
        // Maxwell relation dN_i/dmu_k = dN_k/dmu_i
        let dev = (dn_dmu[[0, 1]] - dn_dmu[[1, 0]]).abs() / (dn_dmu[[0, 0]] * dn_dmu[[1, 1]]).abs().sqrt();
        let dr = pd.size / pd.n_grid as f64;
        let (dev, tol) = match geo {
            Geometry::Cartesian => (dev, TOL_SYMMETRY),
            Geometry::Spherical => (dev / (1e-8 + 0.5 * dr), TOL_SYMMETRY_SPHERICAL),
            Geometry::Cylindrical => (dev, TOL_SYMMETRY_CYLINDRICAL),
        };
        m.check(&format!("dn_dmu symmetric ({gname})"), &format!("dn_dmu-symmetry|{gname}|{sys}"), idx, dev, tol, || json!({"case": c, "dn_dmu": dn_dmu.iter().cloned().collect::<Vec<_>>()}));
    }

    // --- temperature derivative along the isobar at fixed composition
    let p0 = state.pressure(Contributions::Total);
    let moles = state.moles.clone();
    let rho_tot = state.density;
    let g = |tt: f64| -> Option<Vec<f64>> {
        let st = State::new_npt(f, Temperature::from_reduced(tt), p0, &moles, DensityInitialization::InitialDensity(rho_tot)).ok()?;
        let p = solve_pore(&pore, &st, Some(&init), 1e-13)?;
        Some(p.profile.moles().to_reduced().to_vec())
    };
    let ests_t = ests_rel(g, t, &[1e-3, 4e-3, 2.5e-4]);
    if ests_t.is_empty() {
        m.skip("dn_dt vs re-solved profiles", "neighbouring profiles not converged");
    } else {
        for i in 0..nc {
            fd_check(
                m,
                &format!("dn_dt vs re-solved profiles ({gname})"),
                &format!("dn_dt|{gname}|{sys}"),
                idx,
                dn_dt[i],
                &ests_t,
                i,
                nscale / t * 1e-3,
                if matches!(geo, Geometry::Cylindrical) { TOL_IMPLICIT_CYLINDRICAL } else { TOL_DN_DT },
                1.0,
                &det(format!("dN_{i}/dT (p, x fixed) vs dn_dt"), json!({"dn_dt": dn_dt.to_vec(), "T": t})),
            );
        }
    }

    // --- enthalpy of adsorption vs its definition: dn_dmu^T h = -T dn_dt
    let hp = catch_unwind(AssertUnwindSafe(|| base.partial_molar_enthalpy_of_adsorption().ok().map(|h| h.to_reduced())));
    let he = catch_unwind(AssertUnwindSafe(|| base.enthalpy_of_adsorption().ok().map(|h| h.to_reduced())));
    if let (Ok(Some(hp)), Ok(Some(he))) = (hp, he) {
        // residual of the defining linear system, scaled
        let mut dev: f64 = 0.0;
        for k in 0..nc {
            let lhs: f64 = (0..nc).map(|i| dn_dmu[[k, i]] * hp[i]).sum();
            let rhs = -t * dn_dt[k];
            let sc = (0..nc).map(|i| (dn_dmu[[k, i]] * hp[i]).abs()).sum::<f64>().max(rhs.abs());
            dev = dev.max(serr(lhs, rhs, 1e-9 * sc));
        }
        m.check("enthalpy of adsorption = definition", &format!("h_ads|definition|{sys}"), idx, dev, TOL_H_ADS_DEF, || {
            json!({"case": c, "partial_molar_enthalpy_of_adsorption": hp.to_vec(), "dn_dmu": dn_dmu.iter().cloned().collect::<Vec<_>>(), "dn_dt": dn_dt.to_vec(), "T": t})
        });
        let mix: f64 = (0..nc).map(|i| x[i] * hp[i]).sum();
        m.check("enthalpy of adsorption = definition", &format!("h_ads|sum x_i h_i|{sys}"), idx, serr(he, mix, 1e-9 * hp.iter().map(|h| h.abs()).fold(0.0, f64::max)), TOL_H_ADS_DEF, || {
            json!({"case": c, "enthalpy_of_adsorption": he, "sum x_i h_i": mix})
        });
        // pure fluid: against the re-solved profiles  h = -T (dN/dT)_p / (dN/dmu)_T
        if nc == 1 {
            if let (Some(Some(jr)), Some(jt)) = (dn_drho_fd.first(), judge(0.0, &ests_t, 0, 1.0, 0.0)) {
                let dn_dmu_fd = jr.fd / dmu_drho[[0, 0]];
                let h_fd = -t * jt.fd / dn_dmu_fd;
                // relative error bars of the two estimates (judge with ad = 0 scales by |fd|)
                let rel = 3.0 * (jr.relerr + jt.relerr);
                if jr.relerr > FD_RESOLVED || jt.relerr > FD_RESOLVED || !(h_fd.is_finite()) {
                    m.skip("enthalpy of adsorption vs re-solved profiles", "fd unresolved");
                } else {
                    let dev = ((hp[0] - h_fd).abs() / hp[0].abs().max(h_fd.abs()).max(1e-3 * t) - rel).max(0.0);
                    m.check(&format!("enthalpy of adsorption vs re-solved profiles ({gname})"), &format!("h_ads|fd|{gname}|{sys}"), idx, dev, if matches!(geo, Geometry::Cylindrical) { TOL_IMPLICIT_CYLINDRICAL } else { TOL_H_ADS_FD }, || {
                        json!({"case": c, "library": hp[0], "-T (dN/dT)_p / (dN/dmu)_T from re-solved profiles": h_fd})
                    });
                }
            }
        }
    } else {
        m.skip("enthalpy of adsorption = definition", "library returned an error");
    }
}

fn henry_case<F: Dft>(m: &mut Monitor, idx: u64, c: &Case, f: &Arc<F>, pd: &PoreDesc, tr: f64) {
    let tag = c.fluid.tag();
    let gname = geo_name(pd.geometry());
    let sys = format!("{tag} {}", pd.tag());
    let Some(tc) = critical_temperature(f) else {
        m.skip("henry", "no critical point");
        return;
    };
    let t = tc.to_reduced() * tr;
    let nc = f.components();
    let x = Array1::from_elem(nc, 1.0 / nc as f64);
    let pore = pd.build();
    // Henry coefficients need no solution: any profile at T
    let at = |tt: f64| -> Option<Array1<f64>> {
        let st = state_rho(f, tt, &(&x * 1e-7))?;
        catch_unwind(AssertUnwindSafe(|| {
            let p = pore.initialize(&st, None, None).ok()?;
            Some(p.henry_coefficients().to_reduced())
        }))
        .ok()
        .flatten()
    };
    let Some(h) = at(t) else {
        // the library refuses homosegmented chains (m != 1) by panicking
        m.skip("henry", "henry_coefficients not available (m != 1)");
        m.count("henry_coefficients panicked or failed (chain molecules)", 1);
        return;
    };
    m.case(&format!("{tag} henry {gname} {}", pd.pot.name()), hash_str(&format!("{:?}", c)), true);
    if !h.iter().all(|v| v.is_finite() && *v > 0.0) {
        m.check_bool("henry coefficient finite and positive", &format!("henry|finite|{sys}"), idx, false, || json!({"case": c, "H": h.iter().map(|v| fnum(*v)).collect::<Vec<_>>()}));
        return;
    }
    m.check_bool("henry coefficient finite and positive", &format!("henry|finite|{sys}"), idx, true, || json!(null));
    // bulk density so that the mean density in the pore stays ~2e-7 A^-3:  N = H p = H rho T
    let st0 = state_rho(f, t, &(&x * 1e-7));
    let vol = st0.and_then(|st| pore.initialize(&st, None, None).ok()).map(|p| p.profile.volume().to_reduced());
    let Some(vol) = vol else {
        m.skip("henry", "no profile");
        return;
    };
    let hmax = h.iter().cloned().fold(0.0, f64::max);
    let rho1 = (2e-7 * vol / (hmax * t)).min(2e-6);
    // N_i / p_i at rho and 2 rho, linear extrapolation to rho -> 0
    let ratio = |rho: f64| -> Option<Array1<f64>> {
        let st = state_rho(f, t, &(&x * rho))?;
        let p = solve_pore(&pore, &st, None, 1e-17).or_else(|| {
            // at these densities the ideal-gas start is already within Newton's reach
            catch_unwind(AssertUnwindSafe(|| {
                let mut p = pore.initialize(&st, None, None).ok()?;
                p.solve_inplace(Some(&newton(1e-17)), false).ok()?;
                Some(p)
            }))
            .ok()
            .flatten()
        })?;
        let pr = st.pressure(Contributions::Total).to_reduced();
        Some(p.profile.moles().to_reduced() / (&x * pr))
    };
    match (ratio(rho1), ratio(2.0 * rho1)) {
        (Some(r1), Some(r2)) => {
            for i in 0..nc {
                let lim = 2.0 * r1[i] - r2[i];
                // size of the first-order term = what the extrapolation removed; its square is the error
                let first = (r2[i] - r1[i]).abs() / lim.abs();
                if first > 3e-3 {
                    m.skip("N/p -> henry coefficient", "density expansion not converged");
                    continue;
                }
                let dev = (serr(lim, h[i], 0.0) - 10.0 * first * first).max(0.0);
                m.check("N/p -> henry coefficient", &format!("henry|limit|{gname}|{sys}"), idx, dev, TOL_HENRY, || {
                    json!({"case": c, "component": i, "henry_coefficient": h[i], "N/p extrapolated": lim, "N/p at rho": r1[i], "rho": rho1, "T": t})
                });
            }
        }
        _ => m.skip("N/p -> henry coefficient", "low-density profile not converged"),
    }
    // ideal-gas enthalpy of adsorption = -T^2 dlnH/dT
    let hig = catch_unwind(AssertUnwindSafe(|| {
        let st = state_rho(f, t, &(&x * 1e-7))?;
        let p = pore.initialize(&st, None, None).ok()?;
        Some(p.ideal_gas_enthalpy_of_adsorption().to_reduced())
    }));
    let Ok(Some(hig)) = hig else {
        m.skip("ideal gas enthalpy of adsorption", "library panicked / failed");
        return;
    };
    let g = |tt: f64| at(tt).map(|h| h.iter().map(|v| v.ln()).collect::<Vec<_>>());
    let ests = ests_rel(g, t, &[1e-3, 4e-3, 2.5e-4]);
    for i in 0..nc {
        match judge(hig[i], &ests, i, -t * t, 1e-2 * t) {
            None => m.skip("ideal gas enthalpy of adsorption", "fd not available"),
            Some(j) if j.relerr > FD_RESOLVED => m.skip("ideal gas enthalpy of adsorption", "fd unresolved"),
            Some(j) => {
                m.check("ideal gas enthalpy of adsorption", &format!("henry|enthalpy|{gname}|{sys}"), idx, j.dev, TOL_H_IG, || {
                    json!({"case": c, "component": i, "ideal_gas_enthalpy_of_adsorption": hig[i], "-T^2 dlnH/dT": j.fd, "T": t})
                });
            }
        }
    }
}

// ---------------------------------------------------------------------------------------
// planar interfaces
// ---------------------------------------------------------------------------------------

fn planar_solver() -> DFTSolver {
    DFTSolver::new(None)
        .anderson_mixing(Some(true), Some(100), Some(1e-5), None, None)
        .anderson_mixing(Some(false), Some(800), Some(1e-12), None, None)
}

fn gamma_at<F: Dft>(f: &Arc<F>, tr: f64, n: usize, l: f64) -> Option<f64> {
    let (vle, tc) = vle_at(f, tr)?;
    let s = planar_solver();
    catch_unwind(AssertUnwindSafe(|| {
        PlanarInterface::from_tanh(&vle, n, Length::from_reduced(l), tc, false)
            .solve(Some(&s))
            .ok()
            .and_then(|p| p.surface_tension)
            .map(|g| g.to_reduced())
    }))
    .ok()
    .flatten()
    .filter(|g| g.is_finite())
}

fn sweep<F: Dft>(m: &mut Monitor, idx: u64, c: &Case, f: &Arc<F>) {
    let tag = c.fluid.tag();
    let trs: Vec<f64> = (0..10).map(|k| 0.5 + 0.05 * k as f64).collect();
    let mut gs: Vec<(f64, f64)> = Vec::new();
    for &tr in &trs {
        // box grows with the interface width ~ (1 - T/T_c)^-1/2
        let l = (100.0 / (1.0 - tr).sqrt()).max(150.0);
        match gamma_at(f, tr, 2048, l) {
            Some(g) => {
                m.case(&format!("{tag} planar sweep"), hash_str(&format!("{:?}{tr}", c)), true);
                gs.push((tr, g));
            }
            None => m.skip("gamma decreases with T", "interface not converged"),
        }
        // pDGT
        if let (Some(&(_, g)), Some((vle, _))) = (gs.last().filter(|x| x.0 == tr), vle_at(f, tr)) {
            let pd = catch_unwind(AssertUnwindSafe(|| f.solve_pdgt(&vle, 198, 0, None).ok().map(|r| r.1.to_reduced())));
            match pd {
                Ok(Some(pg)) if pg.is_finite() => {
                    m.check("pDGT within band of DFT", &format!("pdgt|{tag}"), idx, (pg / g - 1.0).abs(), TOL_PDGT, || json!({"case": c, "T/Tc": tr, "gamma_dft": g, "gamma_pdgt": pg}));
                }
                _ => m.skip("pDGT within band of DFT", "pDGT failed"),
            }
        }
    }
    m.sample(json!({"case": c, "gamma(T/Tc)": gs}));
    for w in gs.windows(2) {
        let ((t1, g1), (t2, g2)) = (w[0], w[1]);
        m.check_bool("gamma positive and decreasing with T", &format!("gamma(T)|monotone|{tag}"), idx, g1 > g2 && g2 > 0.0, || json!({"case": c, "T/Tc": [t1, t2], "gamma": [g1, g2]}));
        // local exponent d ln gamma / d ln (1 - T/Tc): 1.5 at the (mean-field) critical point,
        // approached from below
        let mu = (g1 / g2).ln() / ((1.0 - t1) / (1.0 - t2)).ln();
        if t1 >= 0.849 {
            m.check("gamma vanishes with the mean-field exponent", &format!("gamma(T)|exponent|{tag}"), idx, (mu - 1.4).abs(), 0.2, || json!({"case": c, "T/Tc": [t1, t2], "gamma": [g1, g2], "exponent": mu}));
        }
    }
    if let (Some(a), Some(b)) = (gs.first(), gs.last()) {
        if a.0 < 0.51 && b.0 > 0.94 {
            m.check("gamma small near T_c", &format!("gamma(T)|vanishing|{tag}"), idx, b.1 / a.1, 0.1, || json!({"case": c, "gamma(0.5)": a.1, "gamma(0.95)": b.1}));
        }
    }
}

fn boxes<F: Dft>(m: &mut Monitor, idx: u64, c: &Case, f: &Arc<F>, tr: f64, samples: &[(usize, f64)]) {
    let tag = c.fluid.tag();
    let Some(gref) = gamma_at(f, tr, 4096, 300.0) else {
        m.skip("gamma independent of box and grid", "reference not converged");
        return;
    };
    for &(n, l) in samples {
        let Some(g) = gamma_at(f, tr, n, l) else {
            m.skip("gamma independent of box and grid", "not converged");
            continue;
        };
        m.case(&format!("{tag} planar box"), hash_str(&format!("{:?}{n}{l}", c)), true);
        m.check("gamma independent of box and grid", &format!("box|{tag}"), idx, (g / gref - 1.0).abs(), TOL_BOX, || {
            json!({"case": c, "n": n, "l": l, "gamma": g, "gamma_ref(4096, 300)": gref})
        });
    }
}

pub fn run(cfg: Config) -> i32 {
    std::panic::set_hook(Box::new(|_| {}));
    let mut m = Monitor::new(cfg.clone());
    let cases = build_cases(cfg.seed, cfg.tier);
    par_cases(&mut m, &cases, |m, idx, c| {
        let t0 = std::time::Instant::now();
        with_functional!(&c.fluid, f => match &c.work {
            Work::Pore { pore, bulk } => pore_case(m, idx, c, &f, pore, bulk),
            Work::Henry { pore, tr } => henry_case(m, idx, c, &f, pore, *tr),
            Work::Sweep => sweep(m, idx, c, &f),
            Work::Box { tr, samples } => boxes(m, idx, c, &f, *tr, samples),
        }, m.skip("pore", "functional could not be built"));
        let kind = match c.work {
            Work::Pore { .. } => "pore derivatives",
            Work::Henry { .. } => "henry",
            Work::Sweep => "gamma(T) sweep",
            Work::Box { .. } => "box/grid",
        };
        m.count(&format!("cpu ms: {kind}"), t0.elapsed().as_millis() as u64);
    });
    for g in ["cartesian", "spherical", "cylindrical"] {
        m.gate(m.clause_checked(&format!("gibbs adsorption ({g})")) >= 5, &format!("fewer than 5 Gibbs adsorption checks in {g} geometry"));
    }
    for what in ["dn_dmu", "dn_dp", "dn_dt"] {
        let n: u64 = ["cartesian", "spherical", "cylindrical"].iter().map(|g| m.clause_checked(&format!("{what} vs re-solved profiles ({g})"))).sum();
        m.gate(n >= 30, &format!("fewer than 30 {what} checks"));
    }
    m.gate(m.clause_checked("N/p -> henry coefficient") >= 10, "fewer than 10 Henry limits");
    m.gate(m.clause_checked("gamma positive and decreasing with T") >= 20, "fewer than 20 gamma(T) steps");
    m.finish(
        "pores: 7 fluids x random geometry / size / potential (incl. hard wall) / grid (256-1024) at T/T_c in [0.6,1.5], bulk density log-uniform in 1-30 % of saturated-vapour resp. critical density; derivatives by re-solving at rho(1+-h), T(1+-h) with h = 2.5e-4, 1e-3, 4e-3 (Richardson, measured noise); Henry limit at two densities with mean pore density ~2e-7 A^-3; planar: gamma(T) on T/T_c = 0.5(0.05)0.95 for 5 fluids, random (n, L) in {256..4096} x [60,300] A against (4096, 300 A); distinct by hash of the case description",
        false,
        &[
            "bulk derivatives dmu_i/drho_j, dp/drho, the isobar (State::new_npt) and partial molar volumes are taken from feos-core (checked by C01/C03)",
            "the Gibbs adsorption relation is judged per geometry: Omega is evaluated with the Euler-Lagrange equation inserted, which is consistent with the discretised functional only in Cartesian geometry",
            "the pDGT band and the discretisation error model of gamma are empirical (measured on the unchanged tree), not derived",
        ],
    )
}
