//! C13 — virial coefficients equal the low-density limit of (Z-1)/rho, obtained from
//! finite-density states of the same model; temperature derivatives vs finite differences.
use crate::fd::*;
use crate::monitor::*;
use crate::prng::Rng;
use crate::zoo::*;
use feos_core::{Contributions, ReferenceSystem, Residual};
use ndarray::Array1;
use quantity::*;
use serde_json::json;

const TOL_B: f64 = 1e-7;
const TOL_C: f64 = 1e-4;
const TOL_DT: f64 = 1e-6;

pub const FAMILIES: &[&str] = &[
    "pr",
    "pcsaft",
    "pcsaft-assoc",
    "pcsaft-crossassoc",
    "pcsaft-solvating",
    "pcsaft-polar",
    "epcsaft-noions",
    "gc-pcsaft",
    "pets",
    "uv-wca",
    "uv-bh",
    "uv-b3",
    "saftvrmie",
    "saftvrmie-crossassoc",
    "saftvrqmie",
];

struct Case {
    mc: ModelCase,
    /// refined family tag used in signatures (which contribution path is exercised)
    tag: String,
    ts: Vec<(f64, Vec<f64>)>,
}

fn refine_tag(mc: &ModelCase) -> String {
    let fam = mc.family.clone();
    let ms: Vec<f64> = mc
        .spec
        .pure
        .iter()
        .map(|p| p["model_record"]["m"].as_f64().unwrap_or(1.0))
        .collect();
    match mc.spec.kind {
        Kind::SaftVRMie => {
            let assoc = mc.spec.pure.iter().any(|p| p["model_record"].get("kappa_ab").is_some());
            let chain = ms.iter().any(|m| (*m - 1.0).abs() > 1e-12);
            format!(
                "{}{}{}",
                fam,
                if chain { "-chain" } else { "-monomer" },
                if assoc { "-assoc" } else { "" }
            )
        }
        Kind::SaftVRQMie | Kind::SaftVRQMieFunctional => {
            format!("{}{}", fam, if mc.n > 1 { "-mixture" } else { "-pure" })
        }
        Kind::PcSaft | Kind::PcSaftFunctional | Kind::EPcSaft => {
            // number of associating components decides analytic vs iterative association
            let nassoc = mc.spec.pure.iter().filter(|p| is_assoc(p)).count();
            let polar = mc.spec.pure.iter().any(|p| is_dipolar(p) || is_quadrupolar(p));
            format!(
                "{}{}{}",
                fam,
                match nassoc {
                    0 => "",
                    1 => "+assoc1",
                    _ => "+assocN",
                },
                if polar { "+polar" } else { "" }
            )
        }
        _ => fam,
    }
}

pub fn run(cfg: Config) -> i32 {
    use rayon::prelude::*;
    let mut m = Monitor::new(cfg.clone());
    let (reps, nts) = cfg.tier.pick((15, 10), (1200, 30));
    let col = Collections::load();
    let mut jobs = Vec::new();
    for (fi, fam) in FAMILIES.iter().enumerate() {
        for n in [1usize, 2, 3] {
            for r in 0..reps {
                jobs.push((fi, *fam, n, r));
            }
        }
    }
    let cases: Vec<Case> = jobs
        .par_iter()
        .flat_map(|&(fi, fam, n, r)| {
            let mut rng = Rng::derive(cfg.seed, "c13", (fi * 1000 + n * 100 + r) as u64);
            let mut out = Vec::new();
            let Some(spec) = random_spec(&col, fam, n, &mut rng) else {
                return out;
            };
            let Ok(mc) = ModelCase::new(fam, spec.clone()) else {
                return out;
            };
            let ts: Vec<(f64, Vec<f64>)> = (0..nts)
                .map(|_| {
                    let x = rng.simplex(mc.n, 0.1, 1e-4);
                    let tsc: f64 = x.iter().zip(&mc.tscale).map(|(x, t)| x * t).sum();
                    (tsc * rng.range(0.5, 3.0), x)
                })
                .collect();
            if let Some(fs) = functional_of(&spec, rng.below(3) as u8) {
                if let Ok(fmc) = ModelCase::with_tscale(&format!("{fam}-functional"), fs, mc.tscale.clone()) {
                    let tag = refine_tag(&fmc);
                    out.push(Case { mc: fmc, tag, ts: ts.clone() });
                }
            }
            let tag = refine_tag(&mc);
            out.push(Case { mc, tag, ts });
            out
        })
        .collect();
    par_cases(&mut m, &cases, |m, ci, c| {
        for (k, (t, x)) in c.ts.iter().enumerate() {
            check(m, ci * 1000 + k as u64, c, *t, x);
        }
    });
    for f in FAMILIES {
        m.gate(
            m.families.keys().any(|k| k.starts_with(f)),
            &format!("family {f} produced no case"),
        );
    }
    m.finish(
        "B, C, dB/dT, dC/dT of random pure/binary/ternary models of every non-electrolyte family (EoS and functionals) at T in [0.5,3] T_c-scale vs the low-density limit built from finite-density states of the same model (f=(Z-1)/rho at rho,2rho,4rho, rho=1e-5 and 1e-4 rho_max, Richardson-extrapolated; the difference of the two levels is the error bar) and vs finite differences in T; distinct by hash of (model, T, x); non-trivial: |B| > 1e-3 A^3",
        false,
        &[
            "the low-density reference has relative error <= 1e-9 (B) / 1e-5 (C) (truncation of the density expansion + round-off), measured where the implementation is known to be right",
        ],
    )
}

fn check(m: &mut Monitor, case: u64, c: &Case, t: f64, x: &[f64]) {
    let eos = &c.mc.eos;
    let tag = c.tag.as_str();
    if !model_smooth_at(&c.mc.spec, t) {
        m.skip("virial", "model not differentiable here (PR alpha kink)");
        return;
    }
    let xa = Array1::from_vec(x.to_vec());
    let moles = Moles::from_reduced(xa.clone());
    let temp = Temperature::from_reduced(t);
    let b = eos.second_virial_coefficient(temp, Some(&moles)).map(|v| v.to_reduced());
    let cc = eos.third_virial_coefficient(temp, Some(&moles)).map(|v| v.to_reduced());
    let dbdt = eos
        .second_virial_coefficient_temperature_derivative(temp, Some(&moles))
        .map(|v| v.to_reduced());
    let dcdt = eos
        .third_virial_coefficient_temperature_derivative(temp, Some(&moles))
        .map(|v| v.to_reduced());
    let (Ok(b), Ok(cc), Ok(dbdt), Ok(dcdt)) = (b, cc, dbdt, dcdt) else {
        m.skip("virial", "getter returned Err");
        return;
    };
    let rmax = max_density(eos, x);
    // (Z-1)/rho at density rho
    let f = |tt: f64, rho: f64| -> Option<f64> {
        let s = state_tvn(eos, tt, 1.0 / rho, &xa)?;
        let p = s.pressure(Contributions::Residual).to_reduced();
        let v = p / (rho * rho * tt);
        v.is_finite().then_some(v)
    };
    let lim = |tt: f64, rho: f64| -> Option<(f64, f64)> {
        let (f1, f2, f4) = (f(tt, rho)?, f(tt, 2.0 * rho)?, f(tt, 4.0 * rho)?);
        Some((
            (8.0 * f1 - 6.0 * f2 + f4) / 3.0,
            (-2.0 * f1 + 2.5 * f2 - 0.5 * f4) / rho,
        ))
    };
    // references at two density levels each; their difference is the error bar of the
    // extrapolation (strongly associating fluids have a tiny radius of convergence)
    let (Some((b_lim, _)), Some((b_lim2, _)), Some((_, c_lim)), Some((_, c_lim2))) = (
        lim(t, 1e-5 * rmax),
        lim(t, 1e-4 * rmax),
        lim(t, 1e-5 * rmax),
        lim(t, 1e-4 * rmax),
    ) else {
        m.skip("virial", "finite-density reference not available");
        return;
    };
    let b_bar = (b_lim - b_lim2).abs();
    let c_bar = (c_lim - c_lim2).abs();
    // the expansion (Z-1)/rho = B + C rho + .. must converge at the probe densities:
    // strongly associating fluids at low T are already saturated there
    let vb0 = 1.0 / rmax;
    let converged = (c_lim.abs().max(cc.abs()) * 1e-4 * rmax) < 0.1 * b_lim.abs().max(vb0);
    let nontrivial = b_lim.abs() > 1e-3;
    m.case(&c.mc.family, crate::prng::hash_f64s(&c.mc.label(), &[t, x[0]]), nontrivial);
    if m.samples.len() < 3 {
        m.sample(json!({"model": c.mc.label(), "T": t, "x": x, "B": fnum(b), "B_limit": b_lim, "C": fnum(cc), "C_limit": c_lim}));
    }
    let det = |what: &str, got: f64, want: f64| {
        let (model, what, x) = (c.mc.spec.clone(), what.to_string(), x.to_vec());
        move || json!({"what": what, "model": model, "T": t, "x": x, "returned": fnum(got), "reference": fnum(want)})
    };
    // all four must be finite
    for (nm, v) in [("B", b), ("C", cc), ("dB/dT", dbdt), ("dC/dT", dcdt)] {
        m.check_bool(&format!("finite:{nm}"), &format!("{tag}|finite:{nm}"), case, v.is_finite(), det(nm, v, f64::NAN));
    }
    // scales: B ~ sigma^3-like volume; use max(|B|, 1/rho_max)
    let vb = 1.0 / rmax;
    if b.is_finite() {
        let den = b.abs().max(b_lim.abs()).max(1e-2 * vb);
        if b_bar / den > 1e-4 || !converged {
            m.skip("limit:B", "reference unresolved");
        } else {
            let dev = ((b - b_lim).abs() - 3.0 * b_bar).max(0.0) / den;
            m.check("limit:B", &format!("{tag}|limit:B"), case, dev, TOL_B, det("B", b, b_lim));
        }
    }
    if cc.is_finite() {
        let den = cc.abs().max(c_lim.abs()).max(1e-2 * vb * vb);
        if c_bar / den > 1e-2 || !converged {
            m.skip("limit:C", "reference unresolved");
        } else {
            let dev = ((cc - c_lim).abs() - 3.0 * c_bar).max(0.0) / den;
            m.check("limit:C", &format!("{tag}|limit:C"), case, dev, TOL_C, det("C", cc, c_lim));
        }
    }
    // temperature derivatives vs finite differences of the coefficient itself
    let g = |tt: f64| -> Option<Vec<f64>> {
        let tq = Temperature::from_reduced(tt);
        let b = eos.second_virial_coefficient(tq, Some(&moles)).ok()?.to_reduced();
        let c = eos.third_virial_coefficient(tq, Some(&moles)).ok()?.to_reduced();
        (b.is_finite() && c.is_finite()).then_some(vec![b, c])
    };
    let d = ests_rel(g, t, &[1e-3, 1e-4, 4e-3]);
    if !d.is_empty() {
        for (i, nm, ad, sc) in [(0, "dB/dT", dbdt, vb / t), (1, "dC/dT", dcdt, vb * vb / t)] {
            if !ad.is_finite() {
                continue;
            }
            if let Some(j) = judge(ad, &d, i, 1.0, 1e-2 * sc) {
                if j.relerr > 1e-4 {
                    m.skip(&format!("fd:{nm}"), "fd unresolved");
                    continue;
                }
                m.check(&format!("fd:{nm}"), &format!("{tag}|fd:{nm}"), case, j.dev, TOL_DT, det(nm, ad, j.fd));
            }
        }
    } else {
        m.skip("fd", "coefficient not finite around T");
    }
}
