//! C04 — pure-component phase equilibria satisfy the equilibrium conditions and are found.
use crate::monitor::*;
use crate::prng::{hash_f64s, Rng};
use crate::zoo::*;
use feos_core::verif::{self, Site};
use feos_core::{
    Contributions, PhaseDiagram, PhaseEquilibrium, ReferenceSystem, SolverOptions, State,
};
use ndarray::arr1;
use quantity::*;
use serde_json::json;
use std::sync::Arc;

const TOL_MU: f64 = 1e-7;
const TOL_P: f64 = 1e-7;

pub struct PureCase {
    pub family: &'static str,
    pub file: String,
    pub name: String,
    pub spec: Spec,
    /// lowest reduced temperature of the success clause
    pub tr_min: f64,
    /// success clause applies (shipped collections); otherwise conditions only
    pub must_succeed: bool,
}

pub fn shipped_pure_cases() -> Vec<PureCase> {
    let mut v = Vec::new();
    for f in PCSAFT_PURE_FILES {
        for s in shipped("pcsaft", f) {
            v.push(PureCase {
                family: "pcsaft",
                file: f.to_string(),
                name: s.name.clone(),
                spec: Spec::new(Kind::PcSaft, vec![s.record]),
                tr_min: 0.45,
                must_succeed: true,
            });
        }
    }
    for s in shipped("saftvrmie", "lafitte2013.json") {
        v.push(PureCase {
            family: "saftvrmie",
            file: "lafitte2013.json".into(),
            name: s.name.clone(),
            spec: Spec::new(Kind::SaftVRMie, vec![s.record]),
            tr_min: 0.45,
            must_succeed: true,
        });
    }
    for f in ["aasen2019.json", "aasen2019_fh2.json", "hammer2023.json"] {
        for s in shipped("saftvrqmie", f) {
            let fh = s.record["model_record"]["fh"].as_u64().unwrap_or(0);
            // helium with second-order Feynman-Hibbs correction is excepted by the statement
            let excepted = s.name.contains("helium") && fh == 2;
            v.push(PureCase {
                family: "saftvrqmie",
                file: f.to_string(),
                name: s.name.clone(),
                spec: Spec::new(Kind::SaftVRQMie, vec![s.record]),
                tr_min: 0.6,
                must_succeed: !excepted,
            });
        }
    }
    v
}

pub fn reduced_grid(tier: Tier, tr_min: f64) -> Vec<f64> {
    let n = tier.pick(55, 217);
    (0..n)
        .map(|i| 0.45 + (0.99 - 0.45) * i as f64 / (n - 1) as f64)
        .filter(|t| *t >= tr_min - 1e-12)
        .collect()
}

/// deviations of the equilibrium conditions of a pure VLE: (mu, p relative to liquid
/// stiffness, p relative to vapour stiffness)
pub fn vle_conditions(vle: &PhaseEquilibrium<Model, 2>) -> (f64, f64, f64) {
    let (v, l) = (vle.vapor(), vle.liquid());
    let t = v.temperature.to_reduced();
    let (rv, rl) = (v.density.to_reduced(), l.density.to_reduced());
    let mu_v = v.residual_chemical_potential().to_reduced()[0] + t * rv.ln();
    let mu_l = l.residual_chemical_potential().to_reduced()[0] + t * rl.ln();
    let (pv, pl) = (
        v.pressure(Contributions::Total).to_reduced(),
        l.pressure(Contributions::Total).to_reduced(),
    );
    let dpl = l.dp_drho(Contributions::Total).to_reduced();
    let dpv = v.dp_drho(Contributions::Total).to_reduced();
    // the liquid pressure is a small difference of terms of size rho_l k T and cannot be
    // resolved better than ~1e-11 of that, however small the vapour pressure is
    (
        (mu_v - mu_l).abs() / t,
        (pv - pl).abs() / (rl * dpl).abs(),
        (pv - pl).abs() / (rv * dpv).abs().max(1e-3 * rl * t),
    )
}

pub fn run(cfg: Config) -> i32 {
    let mut m = Monitor::new(cfg.clone());
    let cases = shipped_pure_cases();
    m.note("records", json!(cases.len()));
    let tier = cfg.tier;
    par_cases(&mut m, &cases, |m, ci, pc| {
        let Ok(eos) = pc.spec.build() else {
            m.check_bool("record builds", &format!("build|{}|{}", pc.file, pc.name), ci, false, || json!({"file": pc.file, "name": pc.name}));
            return;
        };
        let Some(tc) = pure_tc(&eos) else {
            if pc.must_succeed {
                m.check_bool("success:critical point", &format!("success-tc|{}|{}", pc.file, pc.name), ci, false, || json!({"file": pc.file, "name": pc.name}));
            }
            return;
        };
        let grid = reduced_grid(tier, pc.tr_min);
        let mut rng = Rng::derive(cfg.seed, "c04", ci);
        let inverse_at = rng.below(grid.len());
        let fallback_at = rng.below(grid.len());
        for (k, tr) in grid.iter().enumerate() {
            let case = ci * 1000 + k as u64;
            let t = tr * tc;
            let temp = Temperature::from_reduced(t);
            verif::trace_begin();
            let r = PhaseEquilibrium::pure(&eos, temp, None, SolverOptions::default());
            let trace = verif::trace_end();
            let sig_s = format!("success|{}|{}|T/Tc={:.4}", pc.file, pc.name, tr);
            let vle = match r {
                Ok(v) => {
                    if pc.must_succeed {
                        m.check_bool("success:pure(T)", &sig_s, case, true, || json!({}));
                    }
                    v
                }
                Err(e) => {
                    if pc.must_succeed {
                        let (f, n, tr) = (pc.file.clone(), pc.name.clone(), *tr);
                        m.check_bool("success:pure(T)", &sig_s, case, false, move || json!({"file": f, "name": n, "T/Tc": tr, "T_K": t, "error": format!("{e}")}));
                    } else {
                        m.skip("conditions", "not converged (allowed)");
                    }
                    continue;
                }
            };
            let (v, l) = (vle.vapor(), vle.liquid());
            let (rv, rl) = (v.density.to_reduced(), l.density.to_reduced());
            m.case(pc.family, hash_f64s(&format!("{}{}", pc.file, pc.name), &[*tr]), rl / rv > 1.01);
            if m.samples.len() < 3 {
                m.sample(json!({"file": pc.file, "name": pc.name, "T/Tc": tr, "T_K": t, "p_sat_reduced": v.pressure(Contributions::Total).to_reduced(), "rho_v": rv, "rho_l": rl}));
            }
            let sig = |c: &str| format!("{}|{}", pc.family, c);
            let det = || {
                let (f, n, tr) = (pc.file.clone(), pc.name.clone(), *tr);
                move || json!({"file": f, "name": n, "T/Tc": tr, "T_K": t, "rho_v": rv, "rho_l": rl})
            };
            // trace specification: Ok is never preceded by a loop-exhausted event of the accepted stage
            let last_exh = trace.iter().rposition(|s| *s == Site::PureTExhausted);
            let last_conv = trace.iter().rposition(|s| *s == Site::PureTConverged);
            m.check_bool("trace:Ok after converged event", &sig("trace"), case, last_conv.is_some() && last_exh.map_or(true, |e| e < last_conv.unwrap()), det());
            m.check_bool("same temperature (exact)", &sig("T"), case, v.temperature.to_reduced() == t && l.temperature.to_reduced() == t, det());
            let (dmu, dpl, dpv) = vle_conditions(&vle);
            m.check("equal chemical potential", &sig("mu"), case, dmu, TOL_MU, det());
            m.check("equal pressure (liquid stiffness)", &sig("p_l"), case, dpl, TOL_P, det());
            m.check("equal pressure (vapour stiffness)", &sig("p_v"), case, dpv, TOL_P, det());
            m.check_bool("vapour less dense than liquid", &sig("rho order"), case, rv < rl && !PhaseEquilibrium::is_trivial_solution(v, l), det());
            // both phases mechanically stable
            m.check_bool("both phases mechanically stable", &format!("stability|{}|{}|T/Tc={:.4}", pc.file, pc.name, tr), case, v.dp_dv(Contributions::Total).to_reduced() < 0.0 && l.dp_dv(Contributions::Total).to_reduced() < 0.0, det());

            // inverse problem at one grid point per record
            if k == inverse_at {
                let p = v.pressure(Contributions::Total);
                match PhaseEquilibrium::pure(&eos, p, None, SolverOptions::default()) {
                    Ok(v2) => {
                        let t2 = v2.vapor().temperature.to_reduced();
                        m.check("inverse:pure(p_sat(T)) returns T", &sig("inverse T"), case, (t2 - t).abs() / t, 1e-8, det());
                        m.check("inverse:same liquid density", &sig("inverse rho_l"), case, (v2.liquid().density.to_reduced() / rl - 1.0).abs(), 1e-7, det());
                        m.check("inverse:same vapour density", &sig("inverse rho_v"), case, (v2.vapor().density.to_reduced() / rv - 1.0).abs(), 1e-7, det());
                    }
                    Err(e) => {
                        // pure_p starts from fixed trial temperatures; failure is allowed by the
                        // statement only as "solving at the resulting p" being the inverse when it succeeds
                        m.skip("inverse", &format!("pure(p) failed: {}", short(&format!("{e}"))));
                    }
                }
            }
            // forced fallback: ideal-gas initialisation fails -> spinodal start
            if k == fallback_at {
                verif::arm(Site::FailPureTInitIdealGas);
                let r2 = PhaseEquilibrium::pure(&eos, temp, None, SolverOptions::default());
                verif::disarm_all();
                match r2 {
                    Ok(v2) => {
                        m.count("fallback_spinodal_ok", 1);
                        let dl = (v2.liquid().density.to_reduced() / rl - 1.0).abs();
                        let dv = (v2.vapor().density.to_reduced() / rv - 1.0).abs();
                        m.check("fallback:spinodal start agrees", &sig("fallback"), case, dl.max(dv), 1e-8, det());
                    }
                    Err(_) => {
                        m.count("fallback_spinodal_err", 1);
                        m.skip("fallback", "spinodal start failed (allowed)");
                    }
                }
            }
        }
    });
    phase_diagrams(&mut m, &cfg, &cases);
    mixture_helpers(&mut m, &cfg);
    random_models(&mut m, &cfg);
    m.gate(m.clause_checked("success:pure(T)") >= 1000, "success grid too small");
    m.gate(m.clause_checked("equal chemical potential") >= 1000, "fewer than 1000 converged equilibria");
    m.gate(m.clause_checked("diagram:n states") >= 10, "fewer than 10 phase diagrams");
    m.gate(m.clause_checked("fallback:spinodal start agrees") >= 20, "spinodal fallback reached fewer than 20 times");
    m.finish(
        "success clause: every pure record of the shipped PC-SAFT collections, SAFT-VR Mie (lafitte2013) and SAFT-VRQ Mie (>= 0.6 T_c, helium FH2 excepted) on a deterministic grid of 28 (quick) / 217 (thorough) reduced temperatures in [0.45,0.99] T_c, enumerated completely; conditions on every Ok, also for random Peng-Robinson / PeTS / uv-theory models; inverse problem and forced spinodal-start fallback at one random grid point per record; phase diagrams with random npoints in [3,200]; non-trivial = rho_l/rho_v > 1.01, distinct by (record, T/Tc)",
        true,
        &[
            "the model's own critical temperature (State::critical_point) defines the reduced grid",
            "failpoints only make a stage return the error it could legitimately return",
        ],
    )
}

fn short(s: &str) -> String {
    s.chars().take(40).collect()
}

fn phase_diagrams(m: &mut Monitor, cfg: &Config, cases: &[PureCase]) {
    let n = cfg.tier.pick(150, 10_000);
    let idx: Vec<u64> = (0..n).collect();
    par_cases(m, &idx, |m, _, &i| {
        let mut rng = Rng::derive(cfg.seed, "c04-diagram", i);
        let pc = &cases[rng.below(cases.len())];
        if !pc.must_succeed {
            return;
        }
        let Ok(eos) = pc.spec.build() else {
            return;
        };
        let Some(tc) = pure_tc(&eos) else {
            return;
        };
        let npoints = 3 + rng.below(198);
        let tmin = tc * rng.range(pc.tr_min, 0.9);
        let case = 5_000_000 + i;
        let Ok(d) = PhaseDiagram::pure(&eos, Temperature::from_reduced(tmin), npoints, Some(Temperature::from_reduced(tc)), SolverOptions::default()) else {
            m.check_bool("diagram:constructed", &format!("diagram|{}|{}", pc.file, pc.name), case, false, || json!({"file": pc.file, "name": pc.name, "npoints": npoints}));
            return;
        };
        m.case("diagram", hash_f64s(&pc.name, &[npoints as f64, tmin]), true);
        let det = || {
            let (f, nm) = (pc.file.clone(), pc.name.clone());
            move || json!({"file": f, "name": nm, "npoints": npoints, "Tmin/Tc": tmin / tc})
        };
        // known failing records would show up here as missing points: key on the record
        let sig = format!("diagram|{}|{}", pc.file, pc.name);
        m.check_bool("diagram:n states", &sig, case, d.states.len() == npoints, det());
        let mut mono = true;
        for w in d.states.windows(2) {
            let (a, b) = (&w[0], &w[1]);
            mono &= b.vapor().temperature > a.vapor().temperature
                && b.vapor().pressure(Contributions::Total) > a.vapor().pressure(Contributions::Total)
                && b.vapor().density >= a.vapor().density
                && b.liquid().density <= a.liquid().density;
        }
        // strictness between regular points (the last pair ends in the critical point)
        for w in d.states[..d.states.len() - 1].windows(2) {
            mono &= w[1].vapor().density > w[0].vapor().density && w[1].liquid().density < w[0].liquid().density;
        }
        let bad: Vec<_> = d
            .states
            .windows(2)
            .enumerate()
            .filter(|(_, w)| {
                !(w[1].vapor().temperature > w[0].vapor().temperature
                    && w[1].vapor().density >= w[0].vapor().density
                    && w[1].liquid().density <= w[0].liquid().density)
            })
            .map(|(i, w)| {
                json!({"i": i, "T": [w[0].vapor().temperature.to_reduced(), w[1].vapor().temperature.to_reduced()],
                "rho_v": [w[0].vapor().density.to_reduced(), w[1].vapor().density.to_reduced()],
                "rho_l": [w[0].liquid().density.to_reduced(), w[1].liquid().density.to_reduced()]})
            })
            .take(3)
            .collect();
        {
            let (f, nm) = (pc.file.clone(), pc.name.clone());
            m.check_bool("diagram:strictly monotone", &sig, case, mono, move || json!({"file": f, "name": nm, "npoints": npoints, "Tmin/Tc": tmin / tc, "Tc": tc, "offending": bad}));
        }
        let last = d.states.last().unwrap();
        let ok = (last.vapor().temperature.to_reduced() / tc - 1.0).abs() < 1e-6
            && (last.vapor().density.to_reduced() / last.liquid().density.to_reduced() - 1.0).abs() < 1e-12;
        m.check_bool("diagram:last state is the critical point", &sig, case, ok, det());
    });
}

/// vapor_pressure / boiling_temperature / vle_pure_comps on mixtures equal the pure-model call
fn mixture_helpers(m: &mut Monitor, cfg: &Config) {
    let col = Collections::load();
    let n = cfg.tier.pick(250, 30_000);
    let idx: Vec<u64> = (0..n).collect();
    par_cases(m, &idx, |m, _, &i| {
        let mut rng = Rng::derive(cfg.seed, "c04-mix", i);
        let fam = *rng.choose(&["pcsaft", "pcsaft-assoc", "saftvrmie"]);
        let nc = 2 + rng.below(2);
        let Some(spec) = random_spec(&col, fam, nc, &mut rng) else {
            return;
        };
        // shipped records only (perturbed ones are fine too, but the success clause is for shipped)
        let Ok(eos) = spec.build() else {
            return;
        };
        let tcs: Vec<Option<f64>> = (0..nc).map(|k| spec.select(&[k]).build().ok().and_then(|e| pure_tc(&e))).collect();
        let Some(tmin) = tcs.iter().map(|t| t.unwrap_or(f64::NAN)).reduce(f64::min) else {
            return;
        };
        if !tmin.is_finite() {
            return;
        }
        let t = tmin * rng.range(0.5, 0.95);
        let temp = Temperature::from_reduced(t);
        let vp = PhaseEquilibrium::vapor_pressure(&eos, temp);
        let vles = PhaseEquilibrium::vle_pure_comps(&eos, temp);
        let case = 6_000_000 + i;
        for k in 0..nc {
            let pure = spec.select(&[k]).build().unwrap();
            let Ok(reference) = PhaseEquilibrium::pure(&pure, temp, None, SolverOptions::default()) else {
                continue;
            };
            // only inside the range where the success clause applies
            if t / tcs[k].unwrap() < 0.45 {
                continue;
            }
            m.case("mixture-helper", hash_f64s(&spec.label(), &[t, k as f64]), true);
            let pref = reference.vapor().pressure(Contributions::Total).to_reduced();
            let sig = format!("{fam}|mixture helper");
            let info = json!({"model": spec, "T": t, "component": k});
            match vp[k] {
                Some(p) => m.check("helpers:vapor_pressure equals pure model", &sig, case, (p.to_reduced() / pref - 1.0).abs(), 1e-9, || info.clone()),
                None => m.check_bool("helpers:vapor_pressure is Some", &sig, case, false, || info.clone()),
            };
            match &vles[k] {
                Some(v) => {
                    let d = (v.liquid().density.to_reduced() / reference.liquid().density.to_reduced() - 1.0).abs();
                    m.check("helpers:vle_pure_comps equals pure model", &sig, case, d, 1e-9, || info.clone());
                    let x = &v.liquid().molefracs;
                    m.check_bool("helpers:vle_pure_comps composition", &sig, case, (0..nc).all(|j| if j == k { x[j] == 1.0 } else { x[j] == 0.0 }), || info.clone());
                }
                None => {
                    m.check_bool("helpers:vle_pure_comps is Some", &sig, case, false, || info.clone());
                }
            }
            let bt = PhaseEquilibrium::boiling_temperature(&eos, Pressure::from_reduced(pref));
            match bt[k] {
                Some(tb) => {
                    m.check("helpers:boiling_temperature inverts vapor_pressure", &sig, case, (tb.to_reduced() / t - 1.0).abs(), 1e-7, || info.clone());
                }
                None => m.skip("helpers:boiling_temperature", "None (pure(p) initialisation is not part of the success clause)"),
            }
        }
    });
}

/// conditions whenever Ok for random PR / PeTS / uv-theory models and random T
fn random_models(m: &mut Monitor, cfg: &Config) {
    let n = cfg.tier.pick(1500, 200_000);
    let idx: Vec<u64> = (0..n).collect();
    let col = Collections::load();
    par_cases(m, &idx, |m, _, &i| {
        let mut rng = Rng::derive(cfg.seed, "c04-rand", i);
        let fam = *rng.choose(&["pr", "pets", "uv-wca", "uv-bh", "uv-b3"]);
        let Some(spec) = random_spec(&col, fam, 1, &mut rng) else {
            return;
        };
        let Ok(eos) = spec.build() else {
            return;
        };
        let Some(tc) = pure_tc(&eos) else {
            m.skip("random", "no critical point");
            return;
        };
        let tr = rng.range(0.45, 0.99);
        let t = tr * tc;
        let case = 7_000_000 + i;
        // with and without a perturbed solver option pair
        let opts = if rng.bool(0.3) {
            SolverOptions::default().max_iter(20 + rng.below(100)).tol(rng.log_range(1e-13, 1e-9))
        } else {
            SolverOptions::default()
        };
        let Ok(vle) = PhaseEquilibrium::pure(&eos, Temperature::from_reduced(t), None, opts) else {
            m.skip("random", "not converged (allowed)");
            return;
        };
        let (rv, rl) = (vle.vapor().density.to_reduced(), vle.liquid().density.to_reduced());
        m.case(fam, hash_f64s(&spec.label(), &[t]), rl / rv > 1.01);
        let info = json!({"model": spec, "T/Tc": tr});
        let (dmu, dpl, dpv) = vle_conditions(&vle);
        let tol_scale = opts.tol.map_or(1.0, |t| (t / 1e-12).max(1.0));
        let sig = |c: &str| format!("{fam}|{c}");
        m.check("equal chemical potential", &sig("mu"), case, dmu, TOL_MU * tol_scale, || info.clone());
        m.check("equal pressure (liquid stiffness)", &sig("p_l"), case, dpl, TOL_P * tol_scale, || info.clone());
        m.check("equal pressure (vapour stiffness)", &sig("p_v"), case, dpv, TOL_P * tol_scale, || info.clone());
        m.check_bool("vapour less dense than liquid", &sig("rho order"), case, rv < rl, || info.clone());
        m.check_bool("same temperature (exact)", &sig("T"), case, vle.vapor().temperature.to_reduced() == t && vle.liquid().temperature.to_reduced() == t, || info.clone());
    });
    let _ = (arr1(&[0.0]), Arc::new(0), State::<Model>::new_pure);
}
