//! C14 — parameter construction is order-independent and faithful to its records.
//!
//! Three workloads drive the real construction API:
//!  * `json`:  temporary JSON collections (shuffled file order, binary records in either
//!    orientation, all identifier kinds, cross-colliding identifier strings) and the shipped
//!    files, queried with ordered subsets x every `IdentifierOption` through
//!    `from_json` / `from_multiple_json`;
//!  * `gc`:    group-contribution construction (PC-SAFT homo, gc-PC-SAFT hetero, Joback) from
//!    random and shipped chemical records in many permutations of the segment list, compared
//!    with a reference implementation of the combining rules written here;
//!  * `serde`: serialise -> re-read of every shipped record of every model type.
use crate::fd::serr;
use crate::monitor::*;
use crate::prng::{hash_str, Rng};
use crate::zoo::{load_json_array, max_density, params_dir, state_tvn, Model};
use feos::epcsaft::{ElectrolytePcSaft, ElectrolytePcSaftParameters};
use feos::gc_pcsaft::{
    GcPcSaft, GcPcSaftEosParameters, GcPcSaftFunctional, GcPcSaftFunctionalParameters,
    GcPcSaftRecord,
};
use feos::ideal_gas::{Dippr, Joback, JobackRecord};
use feos::pcsaft::{PcSaft, PcSaftParameters, PcSaftRecord};
use feos::pets::{Pets, PetsParameters};
use feos::saftvrmie::{SaftVRMie, SaftVRMieParameters};
use feos::saftvrqmie::{SaftVRQMie, SaftVRQMieParameters};
use feos::uvtheory::{UVTheory, UVTheoryParameters};
use feos_core::cubic::{PengRobinson, PengRobinsonParameters};
use feos_core::parameter::{
    BinaryRecord, ChemicalRecord, Identifier, IdentifierOption, Parameter, ParameterError,
    ParameterHetero, PureRecord, SegmentRecord,
};
use feos_core::{Contributions, IdealGas, ReferenceSystem};
use ndarray::{Array1, Array2};
use serde::Serialize;
use serde_json::{json, Value};
use std::collections::BTreeMap;
use std::panic::{catch_unwind, AssertUnwindSafe};
use std::path::{Path, PathBuf};
use std::sync::Arc;

/// both sides perform the same arithmetic on the same numbers
const TOL_EXACT: f64 = 1e-14;
/// the order of summation may differ (hash-map iteration order)
const TOL_PERM: f64 = 1e-12;
/// library vs reference implementation of the combining rules
const TOL_REF: f64 = 1e-12;
/// A_res, p, mu of two models whose parameters agree to round-off (worst seen 7e-14: the
/// contributions to A_res cancel partly)
const TOL_BEH: f64 = 1e-11;
/// behaviour after serialise -> re-read: serde_json's default float parser moves numbers by up
/// to one ulp per read (worst seen 4e-15)
const TOL_REREAD: f64 = 1e-12;

const OPTS: [(IdentifierOption, &str); 6] = [
    (IdentifierOption::Cas, "cas"),
    (IdentifierOption::Name, "name"),
    (IdentifierOption::IupacName, "iupac_name"),
    (IdentifierOption::Smiles, "smiles"),
    (IdentifierOption::Inchi, "inchi"),
    (IdentifierOption::Formula, "formula"),
];

// ---------------------------------------------------------------------------------------
// helpers
// ---------------------------------------------------------------------------------------

fn ident_key(identifier: &Value, key: &str) -> Option<String> {
    identifier.get(key).and_then(|s| s.as_str()).map(String::from)
}

fn ident_typed(id: &Identifier, key: &str) -> Option<String> {
    match key {
        "cas" => id.cas.clone(),
        "name" => id.name.clone(),
        "iupac_name" => id.iupac_name.clone(),
        "smiles" => id.smiles.clone(),
        "inchi" => id.inchi.clone(),
        _ => id.formula.clone(),
    }
}

/// run a library call, turning a panic into Err(message)
fn quiet<T>(f: impl FnOnce() -> T) -> Result<T, String> {
    catch_unwind(AssertUnwindSafe(f)).map_err(|e| {
        e.downcast_ref::<String>()
            .cloned()
            .or_else(|| e.downcast_ref::<&str>().map(|s| s.to_string()))
            .unwrap_or_else(|| "panic".into())
    })
}

fn err_kind(e: &ParameterError) -> &'static str {
    match e {
        ParameterError::FileIO(_) => "FileIO",
        ParameterError::Serde(_) => "Serde",
        ParameterError::ComponentsNotFound(_) => "ComponentsNotFound",
        ParameterError::IdentifierNotFound(_) => "IdentifierNotFound",
        ParameterError::InsufficientInformation => "InsufficientInformation",
        ParameterError::IncompatibleParameters(_) => "IncompatibleParameters",
    }
}

/// short description of the outcome of a construction
fn outcome<P>(r: &Result<Result<P, ParameterError>, String>, ncomp: impl Fn(&P) -> usize) -> String {
    match r {
        Err(p) => format!("panic: {p}"),
        Ok(Err(e)) => format!("Err({}: {})", err_kind(e), e),
        Ok(Ok(p)) => format!("Ok({} components)", ncomp(p)),
    }
}

const STATES: [(f64, f64); 3] = [(300.0, 0.55), (340.0, 0.05), (285.0, 0.3)];

/// A_res/(NkT), p_res/(rho kT), mu_res/kT at three states of composition x
fn observe(model: &Arc<Model>, x: &[f64]) -> Option<Vec<f64>> {
    let xa = Array1::from_vec(x.to_vec());
    let rmax = max_density(model, x);
    if !(rmax.is_finite() && rmax > 0.0) {
        return None;
    }
    let mut out = Vec::new();
    for (t, f) in STATES {
        let rho = f * rmax;
        let s = state_tvn(model, t, 1.0 / rho, &xa)?;
        out.push(s.residual_helmholtz_energy().to_reduced() / t);
        out.push(s.pressure(Contributions::Residual).to_reduced() / (rho * t));
        out.extend(s.residual_chemical_potential().to_reduced().iter().map(|m| m / t));
    }
    out.iter().all(|v| v.is_finite()).then_some(out)
}

fn vdev(a: &[f64], b: &[f64]) -> f64 {
    if a.len() != b.len() {
        return f64::INFINITY;
    }
    a.iter().zip(b).map(|(a, b)| serr(*a, *b, 1e-3)).fold(0.0, f64::max)
}

fn skewed_x(n: usize) -> Vec<f64> {
    let s: f64 = (1..=n).map(|k| k as f64).sum();
    (1..=n).map(|k| k as f64 / s).collect()
}

type Canon = BTreeMap<String, f64>;

/// largest scaled deviation between two canonical parameter maps; a key missing on
/// one side counts as 0 there.
fn canon_dev(a: &Canon, b: &Canon) -> (f64, String) {
    let mut worst = (0.0, String::new());
    for k in a.keys().chain(b.keys()) {
        let (x, y) = (a.get(k).copied().unwrap_or(0.0), b.get(k).copied().unwrap_or(0.0));
        // binary parameters are averages of terms of either sign: judge them on the scale of a term
        let floor = if k.starts_with("k[") { 1e-3 } else if k.starts_with("joback.") { 1.0 } else { 1e-6 };
        let d = serr(x, y, floor);
        if d > worst.0 || d.is_nan() {
            worst = (if d.is_nan() { f64::INFINITY } else { d }, format!("{k}: {x} vs {y}"));
        }
    }
    worst
}

/// same structure, same strings, numbers equal within a few ulp (serde_json's default
/// float parser is not exactly round-tripping; see the note `serde_reread_not_bit_identical`)
fn json_close(a: &Value, b: &Value) -> bool {
    match (a, b) {
        (Value::Number(_), Value::Number(_)) => {
            let (x, y) = (a.as_f64().unwrap_or(f64::NAN), b.as_f64().unwrap_or(f64::NAN));
            x == y || ((x - y).abs() <= 1e-15 * x.abs().max(y.abs()))
        }
        (Value::Array(x), Value::Array(y)) => x.len() == y.len() && x.iter().zip(y).all(|(p, q)| json_close(p, q)),
        (Value::Object(x), Value::Object(y)) => x.len() == y.len() && x.iter().all(|(k, p)| y.get(k).map_or(false, |q| json_close(p, q))),
        _ => a == b,
    }
}

fn str_close(a: &str, b: Option<&str>) -> bool {
    match b {
        Some(b) if a == b => true,
        Some(b) => match (serde_json::from_str::<Value>(a), serde_json::from_str::<Value>(b)) {
            (Ok(x), Ok(y)) => json_close(&x, &y),
            _ => false,
        },
        None => false,
    }
}

/// what a reader of the serialised form of `v` sees (numbers may move by an ulp)
fn as_read(v: &Value) -> Value {
    serde_json::from_str(&serde_json::to_string(v).unwrap()).unwrap()
}

fn write_json(path: &Path, v: &[Value]) {
    std::fs::write(path, serde_json::to_string_pretty(&Value::Array(v.to_vec())).unwrap()).unwrap();
}

/// ordered subsets (no repetition) of `items` with 1..=kmax elements
fn ordered_subsets(items: &[usize], kmax: usize) -> Vec<Vec<usize>> {
    fn rec(items: &[usize], kmax: usize, cur: &mut Vec<usize>, out: &mut Vec<Vec<usize>>) {
        if !cur.is_empty() {
            out.push(cur.clone());
        }
        if cur.len() == kmax {
            return;
        }
        for &i in items {
            if !cur.contains(&i) {
                cur.push(i);
                rec(items, kmax, cur, out);
                cur.pop();
            }
        }
    }
    let mut out = Vec::new();
    rec(items, kmax, &mut Vec::new(), &mut out);
    out
}

fn sample_ordered(rng: &mut Rng, items: &[usize], kmax: usize) -> Vec<usize> {
    let k = 1 + rng.below(kmax.min(items.len()));
    let mut v = items.to_vec();
    rng.shuffle(&mut v);
    v.truncate(k);
    v
}

// ---------------------------------------------------------------------------------------
// model kinds
// ---------------------------------------------------------------------------------------

trait MK {
    type P: Parameter;
    const NAME: &'static str;
    /// (molar weight, model record) of a synthetic substance
    fn synth_pure(rng: &mut Rng) -> (f64, Value);
    /// model record of a synthetic binary record; None: the model has no binary parameters
    fn synth_binary(rng: &mut Rng) -> Option<Value>;
    /// observable behaviour of the model built from the parameters at composition x
    fn behave(p: Self::P, x: &[f64]) -> Option<Vec<f64>>;
    /// indices (into the file's records) of the components of the mixture in which record i
    /// is exercised in the serde round trip
    fn context(_recs: &[Value], i: usize) -> Vec<usize> {
        vec![i]
    }
}

type Pu<K> = <<K as MK>::P as Parameter>::Pure;
type Bi<K> = <<K as MK>::P as Parameter>::Binary;

fn sig_eps(rng: &mut Rng) -> (f64, f64) {
    (rng.range(3.0, 4.0), rng.range(150.0, 350.0))
}

struct KPcSaft;
impl MK for KPcSaft {
    type P = PcSaftParameters;
    const NAME: &'static str = "pcsaft";
    fn synth_pure(rng: &mut Rng) -> (f64, Value) {
        let (s, e) = sig_eps(rng);
        let mut r = json!({"m": rng.range(1.0, 4.0), "sigma": s, "epsilon_k": e});
        let o = r.as_object_mut().unwrap();
        match rng.below(5) {
            0 => {
                o.insert("mu".into(), json!(rng.range(1.0, 3.0)));
            }
            1 => {
                o.insert("q".into(), json!(rng.range(1.0, 4.0)));
            }
            2 | 3 => {
                o.insert("kappa_ab".into(), json!(rng.range(0.005, 0.05)));
                o.insert("epsilon_k_ab".into(), json!(rng.range(1500.0, 2800.0)));
                o.insert("na".into(), json!(1.0));
                o.insert("nb".into(), json!(1.0));
            }
            _ => {}
        }
        (rng.range(16.0, 120.0), r)
    }
    fn synth_binary(rng: &mut Rng) -> Option<Value> {
        let k = rng.range(-0.1, 0.1);
        Some(if rng.bool(0.3) {
            json!({"k_ij": k, "kappa_ab": rng.range(0.005, 0.05), "epsilon_k_ab": rng.range(1500.0, 2800.0)})
        } else {
            json!({"k_ij": k})
        })
    }
    fn behave(p: Self::P, x: &[f64]) -> Option<Vec<f64>> {
        observe(&Arc::new(Model::PcSaft(PcSaft::new(Arc::new(p)))), x)
    }
}

struct KEPcSaft;
impl MK for KEPcSaft {
    type P = ElectrolytePcSaftParameters;
    const NAME: &'static str = "epcsaft";
    fn synth_pure(rng: &mut Rng) -> (f64, Value) {
        let (s, e) = sig_eps(rng);
        let mut r = json!({"m": rng.range(1.0, 4.0), "sigma": s, "epsilon_k": e});
        if rng.bool(0.4) {
            let o = r.as_object_mut().unwrap();
            o.insert("kappa_ab".into(), json!(rng.range(0.005, 0.05)));
            o.insert("epsilon_k_ab".into(), json!(rng.range(1500.0, 2800.0)));
            o.insert("na".into(), json!(1.0));
            o.insert("nb".into(), json!(1.0));
        }
        (rng.range(16.0, 120.0), r)
    }
    fn synth_binary(rng: &mut Rng) -> Option<Value> {
        Some(json!({"k_ij": [rng.range(-0.1, 0.1), rng.range(-1e-4, 1e-4), 0.0, 0.0]}))
    }
    fn behave(p: Self::P, x: &[f64]) -> Option<Vec<f64>> {
        observe(&Arc::new(Model::ElectrolytePcSaft(ElectrolytePcSaft::new(Arc::new(p)))), x)
    }
    fn context(recs: &[Value], i: usize) -> Vec<usize> {
        // an ion is exercised in water + ion + first ion of opposite sign
        let z = |r: &Value| r["model_record"]["z"].as_f64().unwrap_or(0.0);
        let zi = z(&recs[i]);
        if zi == 0.0 {
            return vec![i];
        }
        let water = recs.iter().position(|r| r["identifier"]["name"] == "water");
        let counter = recs.iter().position(|r| z(r) * zi < 0.0);
        match (water, counter) {
            (Some(w), Some(c)) => vec![w, i, c],
            _ => vec![i],
        }
    }
}

struct KPets;
impl MK for KPets {
    type P = PetsParameters;
    const NAME: &'static str = "pets";
    fn synth_pure(rng: &mut Rng) -> (f64, Value) {
        let (s, e) = sig_eps(rng);
        (rng.range(16.0, 90.0), json!({"sigma": s, "epsilon_k": e}))
    }
    fn synth_binary(rng: &mut Rng) -> Option<Value> {
        Some(json!({"k_ij": rng.range(-0.1, 0.1)}))
    }
    fn behave(p: Self::P, x: &[f64]) -> Option<Vec<f64>> {
        observe(&Arc::new(Model::Pets(Pets::new(Arc::new(p)))), x)
    }
}

struct KUv;
impl MK for KUv {
    type P = UVTheoryParameters;
    const NAME: &'static str = "uvtheory";
    fn synth_pure(rng: &mut Rng) -> (f64, Value) {
        let (s, e) = sig_eps(rng);
        (rng.range(16.0, 90.0), json!({"rep": rng.range(10.0, 24.0), "att": 6.0, "sigma": s, "epsilon_k": e}))
    }
    fn synth_binary(rng: &mut Rng) -> Option<Value> {
        Some(json!({"k_ij": rng.range(-0.1, 0.1)}))
    }
    fn behave(p: Self::P, x: &[f64]) -> Option<Vec<f64>> {
        observe(&Arc::new(Model::UVTheory(UVTheory::new(Arc::new(p)))), x)
    }
}

struct KVrMie;
impl MK for KVrMie {
    type P = SaftVRMieParameters;
    const NAME: &'static str = "saftvrmie";
    fn synth_pure(rng: &mut Rng) -> (f64, Value) {
        let (s, e) = sig_eps(rng);
        (
            rng.range(16.0, 120.0),
            json!({"m": rng.range(1.0, 3.0), "sigma": s, "epsilon_k": e, "lr": rng.range(10.0, 20.0), "la": 6.0}),
        )
    }
    fn synth_binary(rng: &mut Rng) -> Option<Value> {
        Some(json!({"k_ij": rng.range(-0.1, 0.1), "gamma_ij": rng.range(-0.05, 0.05)}))
    }
    fn behave(p: Self::P, x: &[f64]) -> Option<Vec<f64>> {
        observe(&Arc::new(Model::SaftVRMie(SaftVRMie::new(Arc::new(p)))), x)
    }
}

struct KVrqMie;
impl MK for KVrqMie {
    type P = SaftVRQMieParameters;
    const NAME: &'static str = "saftvrqmie";
    fn synth_pure(rng: &mut Rng) -> (f64, Value) {
        (
            rng.range(2.0, 40.0),
            json!({"m": 1.0, "sigma": rng.range(2.8, 3.8), "epsilon_k": rng.range(20.0, 150.0),
                   "lr": rng.range(9.0, 14.0), "la": 6.0, "fh": 1}),
        )
    }
    fn synth_binary(rng: &mut Rng) -> Option<Value> {
        Some(json!({"k_ij": rng.range(-0.1, 0.1), "l_ij": rng.range(-0.05, 0.05)}))
    }
    fn behave(p: Self::P, x: &[f64]) -> Option<Vec<f64>> {
        observe(&Arc::new(Model::SaftVRQMie(SaftVRQMie::new(Arc::new(p)))), x)
    }
}

struct KPr;
impl MK for KPr {
    type P = PengRobinsonParameters;
    const NAME: &'static str = "pr";
    fn synth_pure(rng: &mut Rng) -> (f64, Value) {
        (
            rng.range(16.0, 150.0),
            json!({"tc": rng.range(150.0, 650.0), "pc": rng.log_range(1.5e6, 8e6), "acentric_factor": rng.range(-0.05, 0.6)}),
        )
    }
    fn synth_binary(rng: &mut Rng) -> Option<Value> {
        Some(json!(rng.range(-0.1, 0.1)))
    }
    fn behave(p: Self::P, x: &[f64]) -> Option<Vec<f64>> {
        observe(&Arc::new(Model::PengRobinson(PengRobinson::new(Arc::new(p)))), x)
    }
}

fn ideal_behaviour<I: IdealGas>(p: &I) -> Option<Vec<f64>> {
    let mut out = Vec::new();
    for t in [250.0, 300.0, 450.0] {
        out.extend(p.ln_lambda3(t).iter().copied());
    }
    out.iter().all(|v: &f64| v.is_finite()).then_some(out)
}

struct KJoback;
impl MK for KJoback {
    type P = Joback;
    const NAME: &'static str = "joback";
    fn synth_pure(rng: &mut Rng) -> (f64, Value) {
        (
            rng.range(16.0, 150.0),
            json!({"a": rng.range(-30.0, 30.0), "b": rng.range(-0.1, 0.3), "c": rng.range(-4e-4, 4e-4),
                   "d": rng.range(-2e-7, 2e-7), "e": 0.0}),
        )
    }
    fn synth_binary(_: &mut Rng) -> Option<Value> {
        None
    }
    fn behave(p: Self::P, _: &[f64]) -> Option<Vec<f64>> {
        ideal_behaviour(&p)
    }
}

struct KDippr;
impl MK for KDippr {
    type P = Dippr;
    const NAME: &'static str = "dippr";
    fn synth_pure(rng: &mut Rng) -> (f64, Value) {
        let r = match rng.below(3) {
            0 => json!({"DIPPR100": [rng.range(2e4, 4e4), rng.range(50.0, 400.0), rng.range(-0.6, 0.1)]}),
            1 => json!({"DIPPR107": [rng.range(3e4, 5e4), rng.range(5e4, 9e4), rng.range(1500.0, 2500.0), rng.range(4e4, 7e4), rng.range(700.0, 900.0)]}),
            _ => json!({"DIPPR127": [rng.range(3e4, 4e4), rng.range(1e4, 9e4), rng.range(800.0, 1200.0), rng.range(1e4, 9e4), rng.range(2000.0, 2500.0), rng.range(1e4, 9e4), rng.range(4000.0, 5000.0)]}),
        };
        (rng.range(16.0, 150.0), r)
    }
    fn synth_binary(_: &mut Rng) -> Option<Value> {
        None
    }
    fn behave(p: Self::P, _: &[f64]) -> Option<Vec<f64>> {
        ideal_behaviour(&p)
    }
}

// ---------------------------------------------------------------------------------------
// json collections: truth, oracles
// ---------------------------------------------------------------------------------------

/// What the harness knows about a collection: the pure and binary records as JSON.
#[derive(Clone)]
struct Truth {
    pure: Vec<Value>,
    binary: Vec<Value>,
}

impl Truth {
    fn id(&self, i: usize, key: &str) -> Option<String> {
        ident_key(&self.pure[i]["identifier"], key)
    }

    /// substances whose identifier of kind `key` exists and is unique in the collection
    fn unique(&self, key: &str) -> Vec<usize> {
        let mut count: BTreeMap<String, usize> = BTreeMap::new();
        for i in 0..self.pure.len() {
            if let Some(s) = self.id(i, key) {
                *count.entry(s).or_default() += 1;
            }
        }
        (0..self.pure.len())
            .filter(|&i| self.id(i, key).map_or(false, |s| count[&s] == 1))
            .collect()
    }

    /// the binary model record for the pair (a,b) under identifier kind `key`:
    /// Ok(Some((record, stored_reversed))), Ok(None) if absent, Err if ambiguous.
    fn expected_binary(&self, key: &str, a: usize, b: usize) -> Result<Option<(&Value, bool)>, ()> {
        let (ia, ib) = (self.id(a, key).ok_or(())?, self.id(b, key).ok_or(())?);
        let mut hits: Vec<(&Value, bool)> = Vec::new();
        for r in &self.binary {
            let (i1, i2) = (ident_key(&r["id1"], key), ident_key(&r["id2"], key));
            if i1.as_deref() == Some(&ia) && i2.as_deref() == Some(&ib) {
                hits.push((&r["model_record"], false));
            } else if i1.as_deref() == Some(&ib) && i2.as_deref() == Some(&ia) {
                hits.push((&r["model_record"], true));
            }
        }
        match hits.len() {
            0 => Ok(None),
            1 => Ok(Some(hits[0])),
            _ if hits.iter().all(|h| h.0 == hits[0].0) => Ok(Some(hits[0])),
            _ => Err(()),
        }
    }
}

/// Oracle for a query that must succeed: component order, record contents, binary matrix,
/// behaviour equal to the model built by the harness from the same records.
#[allow(clippy::too_many_arguments)]
fn judge_ok<K: MK>(
    m: &mut Monitor,
    case: u64,
    tag: &str,
    truth: &Truth,
    key: &str,
    q: &[usize],
    got: Result<Result<K::P, ParameterError>, String>,
    behaviour: bool,
) where
    Pu<K>: Serialize,
    Bi<K>: Serialize,
{
    let qn: Vec<String> = q.iter().map(|&i| truth.id(i, key).unwrap_or_default()).collect();
    m.case(&format!("json:{}", K::NAME), hash_str(&format!("{tag}{key}{qn:?}")), q.len() >= 2);
    let what = outcome(&got, |p| p.records().0.len());
    let p = match got {
        Ok(Ok(p)) => p,
        Ok(Err(e)) if !matches!(err_kind(&e), "ComponentsNotFound" | "FileIO" | "Serde")
            && !format!("{e}").contains("more than once") =>
        {
            // the model's own validation rejects the combination (e.g. mixed Feynman-Hibbs orders)
            m.skip("json:accepted", "model validation rejected the mixture");
            return;
        }
        _ => {
            m.check_bool("json:accepted", &format!("{tag}|json:accepted"), case, false, || {
                json!({"identifier_option": key, "query": qn, "returned": what})
            });
            return;
        }
    };
    m.check_bool("json:accepted", &format!("{tag}|json:accepted"), case, true, || json!({}));
    // expected records, typed through the library's own record type
    let exp_pure: Vec<PureRecord<Pu<K>>> = q
        .iter()
        .map(|&i| serde_json::from_value(truth.pure[i].clone()).expect("truth record parses"))
        .collect();
    let n = q.len();
    let (pr, br) = p.records();
    let got_ids: Vec<Option<String>> = pr.iter().map(|r| ident_typed(&r.identifier, key)).collect();
    let order_ok = pr.len() == n
        && (0..n).all(|k| {
            got_ids[k].as_deref() == Some(qn[k].as_str())
                && serde_json::to_value(&pr[k].model_record).ok() == serde_json::to_value(&exp_pure[k].model_record).ok()
                && pr[k].molarweight == exp_pure[k].molarweight
        });
    m.check_bool("json:order+records", &format!("{tag}|json:order+records"), case, order_ok, || {
        json!({"identifier_option": key, "query": qn, "returned_identifiers": got_ids})
    });
    if !order_ok {
        return;
    }
    // binary matrix
    let mut exp_mat: Array2<Bi<K>> = Array2::from_elem([n, n], Bi::<K>::default());
    let (mut nfound, mut nrev, mut ndef, mut ambiguous) = (0u64, 0u64, 0u64, false);
    for a in 0..n {
        for b in 0..n {
            if a == b {
                continue;
            }
            match truth.expected_binary(key, q[a], q[b]) {
                Ok(Some((v, rev))) => {
                    exp_mat[(a, b)] = serde_json::from_value(v.clone()).expect("truth binary parses");
                    nfound += 1;
                    nrev += rev as u64;
                }
                Ok(None) => ndef += 1,
                Err(()) => ambiguous = true,
            }
        }
    }
    if ambiguous {
        m.skip("json:kij", "binary file stores the pair twice with different values");
    } else if n >= 2 {
        let dflt = serde_json::to_value(Bi::<K>::default()).ok();
        let mut bad = Vec::new();
        for a in 0..n {
            for b in 0..n {
                let e = serde_json::to_value(&exp_mat[(a, b)]).ok();
                let g = match br {
                    Some(br) => serde_json::to_value(&br[(a, b)]).ok(),
                    None => dflt.clone(),
                };
                if e != g {
                    bad.push(json!({"i": a, "j": b, "expected": e, "returned": g}));
                }
            }
        }
        m.count("kij_entries_found_in_file", nfound);
        m.count("kij_entries_found_stored_reversed", nrev);
        m.count("kij_entries_default", ndef);
        m.check_bool("json:kij", &format!("{tag}|json:kij"), case, bad.is_empty(), || {
            json!({"identifier_option": key, "query": qn, "mismatches": bad})
        });
    }
    if !behaviour || ambiguous {
        return;
    }
    // behaviour: the same records handed over directly
    let has_bin = br.is_some();
    let x = skewed_x(n);
    let reference = quiet(|| K::P::from_records(exp_pure, has_bin.then_some(exp_mat)));
    let (Ok(Ok(reference)), Some(a)) = (reference, quiet(|| K::behave(p, &x)).ok().flatten()) else {
        m.skip("json:behaviour", "model not evaluable");
        return;
    };
    let Some(b) = quiet(|| K::behave(reference, &x)).ok().flatten() else {
        m.skip("json:behaviour", "model not evaluable");
        return;
    };
    m.check("json:behaviour", &format!("{tag}|json:behaviour"), case, vdev(&a, &b), TOL_EXACT, || {
        json!({"identifier_option": key, "query": qn, "from_json": a, "from_records": b})
    });
}

/// Oracle for a query that must be rejected with an error of kind `want`.
fn judge_err<P>(
    m: &mut Monitor,
    case: u64,
    clause: &str,
    tag: &str,
    want: &str,
    got: Result<Result<P, ParameterError>, String>,
    ncomp: impl Fn(&P) -> usize,
    detail: Value,
) {
    let what = outcome(&got, ncomp);
    let ok = matches!(&got, Ok(Err(e)) if err_kind(e) == want);
    // an Err of another kind is a milder deviation than Ok/panic: separate signature
    let sig = match &got {
        Ok(Err(_)) => format!("{tag}|{clause}:wrong-kind"),
        Ok(Ok(_)) => format!("{tag}|{clause}:accepted"),
        Err(_) => format!("{tag}|{clause}:panic"),
    };
    m.check_bool(clause, &sig, case, ok, || json!({"input": detail, "expected": format!("Err({want})"), "returned": what}));
}

// ---------------------------------------------------------------------------------------
// synthetic collections
// ---------------------------------------------------------------------------------------

/// n substances; the identifier strings of different kinds collide on purpose (the name of
/// substance i is the CAS of substance i+1, ...) so that a lookup under the wrong kind
/// returns the wrong substance; ~10 % of the identifiers are absent.
fn synth_truth<K: MK>(rng: &mut Rng, n: usize) -> Truth {
    let mut pure = Vec::new();
    for i in 0..n {
        let mut id = serde_json::Map::new();
        for (k, (_, key)) in OPTS.iter().enumerate() {
            if k > 0 && rng.bool(0.1) {
                continue;
            }
            id.insert(key.to_string(), json!(format!("id-{}", (i + k) % n)));
        }
        let (mw, rec) = K::synth_pure(rng);
        pure.push(json!({"identifier": id, "molarweight": mw, "model_record": rec}));
    }
    let mut binary = Vec::new();
    for i in 0..n {
        for j in i + 1..n {
            if rng.bool(0.6) {
                if let Some(b) = K::synth_binary(rng) {
                    let (a, c) = if rng.bool(0.5) { (i, j) } else { (j, i) };
                    binary.push(json!({"id1": pure[a]["identifier"], "id2": pure[c]["identifier"], "model_record": b}));
                }
            }
        }
    }
    Truth { pure, binary }
}

struct Files {
    pure: PathBuf,
    binary: Option<PathBuf>,
    /// split of the pure records over two files: (path, indices into truth)
    split: [(PathBuf, Vec<usize>); 2],
}

/// write one file variant: shuffled record order, binary orientation flipped for odd variants
fn write_variant(dir: &Path, truth: &Truth, rng: &mut Rng, variant: usize) -> Files {
    std::fs::create_dir_all(dir).unwrap();
    let mut order = rng.permutation(truth.pure.len());
    let pure: Vec<Value> = order.iter().map(|&i| truth.pure[i].clone()).collect();
    let pp = dir.join("pure.json");
    write_json(&pp, &pure);
    let binary = if truth.binary.is_empty() {
        None
    } else {
        let mut b: Vec<Value> = truth
            .binary
            .iter()
            .map(|r| {
                if variant % 2 == 1 {
                    json!({"id1": r["id2"], "id2": r["id1"], "model_record": r["model_record"]})
                } else {
                    r.clone()
                }
            })
            .collect();
        rng.shuffle(&mut b);
        let bp = dir.join("binary.json");
        write_json(&bp, &b);
        Some(bp)
    };
    rng.shuffle(&mut order);
    let h = order.len() / 2;
    let (ia, ib) = (order[..h].to_vec(), order[h..].to_vec());
    let (pa, pb) = (dir.join("pure_a.json"), dir.join("pure_b.json"));
    write_json(&pa, &ia.iter().map(|&i| truth.pure[i].clone()).collect::<Vec<_>>());
    write_json(&pb, &ib.iter().map(|&i| truth.pure[i].clone()).collect::<Vec<_>>());
    Files { pure: pp, binary, split: [(pa, ia), (pb, ib)] }
}

struct JsonCase {
    truth: Arc<Truth>,
    files: Arc<Files>,
    variant: usize,
    opt: usize,
}

fn run_json_synth<K: MK>(m: &mut Monitor, cfg: &Config, dir: &Path, kidx: u64)
where
    Pu<K>: Serialize,
    Bi<K>: Serialize,
{
    let (n, nvar, nmulti) = cfg.tier.pick((5, 2, 30), (7, 3, 120));
    let mut rng = Rng::derive(cfg.seed, "c14-json", kidx);
    let raw = synth_truth::<K>(&mut rng, n);
    // the oracle works with the numbers as a reader of the files sees them
    let truth = Arc::new(Truth { pure: raw.pure.iter().map(as_read).collect(), binary: raw.binary.iter().map(as_read).collect() });
    let mut cases = Vec::new();
    for variant in 0..nvar {
        let files = Arc::new(write_variant(&dir.join(format!("{}_{}", K::NAME, variant)), &raw, &mut rng, variant));
        for opt in 0..OPTS.len() {
            cases.push(JsonCase { truth: truth.clone(), files: files.clone(), variant, opt });
        }
    }
    let seed = cfg.seed;
    par_cases(m, &cases, |m, ci, c| {
        let case = kidx * 1000 + ci;
        let (option, key) = OPTS[c.opt];
        let tag = format!("synthetic:{}", K::NAME);
        let truth = &*c.truth;
        let avail = truth.unique(key);
        if m.samples.is_empty() && c.variant == 0 && c.opt == 1 {
            m.sample(json!({"workload": "json/synthetic", "model": K::NAME, "identifier_option": key,
                "pure_file": truth.pure, "binary_file": truth.binary}));
        }
        let bin = c.files.binary.as_ref();
        // every ordered subset up to size 4
        for q in ordered_subsets(&avail, 4) {
            let names: Vec<String> = q.iter().map(|&i| truth.id(i, key).unwrap()).collect();
            let got = quiet(|| K::P::from_json(names.iter().map(|s| s.as_str()).collect(), &c.files.pure, bin, option));
            judge_ok::<K>(m, case, &format!("{tag}:from_json"), truth, key, &q, got, true);
        }
        // rejected queries
        let mut rng = Rng::derive(seed, "c14-json-err", case);
        let ncomp = |p: &K::P| p.records().0.len();
        for a in &avail {
            let mut q = sample_ordered(&mut rng, &avail, 3);
            if !q.contains(a) {
                q.push(*a);
            }
            let mut names: Vec<String> = q.iter().map(|&i| truth.id(i, key).unwrap()).collect();
            // duplicate
            let mut dup = names.clone();
            dup.insert(rng.below(dup.len() + 1), truth.id(*a, key).unwrap());
            let got = quiet(|| K::P::from_json(dup.iter().map(|s| s.as_str()).collect(), &c.files.pure, bin, option));
            judge_err(m, case, "json:duplicate", &format!("{tag}:from_json"), "IncompatibleParameters", got, ncomp, json!({"identifier_option": key, "query": dup}));
            // missing: a string that no record carries under this kind
            let pos = rng.below(names.len());
            names[pos] = if rng.bool(0.5) { "no-such-substance".to_string() } else { format!("id-{}", truth.pure.len() + 3) };
            let got = quiet(|| K::P::from_json(names.iter().map(|s| s.as_str()).collect(), &c.files.pure, bin, option));
            judge_err(m, case, "json:missing", &format!("{tag}:from_json"), "ComponentsNotFound", got, ncomp, json!({"identifier_option": key, "query": names}));
        }
        // a substance that lacks this identifier kind cannot be found by the string it
        // carries under another kind unless that string is somebody else's identifier here
        for i in 0..truth.pure.len() {
            if truth.id(i, key).is_none() {
                let would_be = format!("id-{}", (i + c.opt) % truth.pure.len());
                if !avail.iter().any(|&j| truth.id(j, key).as_deref() == Some(&would_be)) {
                    let got = quiet(|| K::P::from_json(vec![would_be.as_str()], &c.files.pure, bin, option));
                    judge_err(m, case, "json:missing", &format!("{tag}:from_json"), "ComponentsNotFound", got, ncomp, json!({"identifier_option": key, "query": [would_be], "note": "identifier kind absent in the record"}));
                }
            }
        }
        // from_multiple_json
        let [(pa, ia), (pb, ib)] = &c.files.split;
        let (aa, ab): (Vec<usize>, Vec<usize>) = (
            ia.iter().copied().filter(|i| avail.contains(i)).collect(),
            ib.iter().copied().filter(|i| avail.contains(i)).collect(),
        );
        let tagm = format!("{tag}:from_multiple_json");
        let nm = |v: &[usize]| -> Vec<String> { v.iter().map(|&i| truth.id(i, key).unwrap()).collect() };
        for _ in 0..nmulti {
            if aa.is_empty() || ab.is_empty() {
                break;
            }
            let (qa, qb) = (sample_ordered(&mut rng, &aa, 2), sample_ordered(&mut rng, &ab, 2));
            let (na, nb) = (nm(&qa), nm(&qb));
            let (sa, sb): (Vec<&str>, Vec<&str>) = (na.iter().map(|s| s.as_str()).collect(), nb.iter().map(|s| s.as_str()).collect());
            let swap = rng.bool(0.5);
            let input = if swap { vec![(sb.clone(), pb), (sa.clone(), pa)] } else { vec![(sa.clone(), pa), (sb.clone(), pb)] };
            let q: Vec<usize> = if swap { qb.iter().chain(&qa).copied().collect() } else { qa.iter().chain(&qb).copied().collect() };
            let got = quiet(|| K::P::from_multiple_json(&input, bin, option));
            judge_ok::<K>(m, case, &tagm, truth, key, &q, got, true);
            // the same substance requested through two entries
            let input = vec![(sa.clone(), pa), (sb.clone(), pb), (vec![sa[0]], pa)];
            let got = quiet(|| K::P::from_multiple_json(&input, bin, option));
            judge_err(m, case, "json:duplicate", &tagm, "IncompatibleParameters", got, ncomp, json!({"identifier_option": key, "input": [na, nb, [na[0]]]}));
            // a substance requested from the file that does not contain it
            let input = vec![(sa.clone(), pb)];
            let got = quiet(|| K::P::from_multiple_json(&input, bin, option));
            judge_err(m, case, "json:missing", &tagm, "ComponentsNotFound", got, ncomp, json!({"identifier_option": key, "query": na, "note": "asked from the other file"}));
        }
    });
}

// ---------------------------------------------------------------------------------------
// shipped collections
// ---------------------------------------------------------------------------------------

fn run_json_shipped<K: MK>(m: &mut Monitor, cfg: &Config, kidx: u64, label: &str, dir: &str, files: &[&str], binary: Option<&str>)
where
    Pu<K>: Serialize,
    Bi<K>: Serialize,
{
    let nq = cfg.tier.pick(12, 80);
    let base = params_dir().join(dir);
    let paths: Vec<PathBuf> = files.iter().map(|f| base.join(f)).collect();
    let mut pure = Vec::new();
    let mut owner = Vec::new();
    for (fi, p) in paths.iter().enumerate() {
        for r in load_json_array(p) {
            pure.push(r);
            owner.push(fi);
        }
    }
    let bpath = binary.map(|b| base.join(b));
    let truth = Truth { pure, binary: bpath.as_ref().map(|b| load_json_array(b)).unwrap_or_default() };
    if truth.pure.is_empty() {
        m.gate(false, &format!("shipped collection {label} could not be read"));
        return;
    }
    let opts: Vec<usize> = (0..OPTS.len()).collect();
    let seed = cfg.seed;
    par_cases(m, &opts, |m, _, &oi| {
        let case = kidx * 1000 + 500 + oi as u64;
        let (option, key) = OPTS[oi];
        let tag = format!("shipped:{label}");
        let avail = truth.unique(key);
        m.count(&format!("shipped_unique_identifiers:{key}"), avail.len() as u64);
        let mut rng = Rng::derive(seed, "c14-json-shipped", case);
        let ncomp = |p: &K::P| p.records().0.len();
        if avail.is_empty() {
            // nobody carries this identifier kind: any query must be rejected
            let got = quiet(|| K::P::from_json(vec!["water"], &paths[0], bpath.as_ref(), option));
            judge_err(m, case, "json:missing", &tag, "ComponentsNotFound", got, ncomp, json!({"identifier_option": key, "query": ["water"], "note": "no record has this identifier kind"}));
            return;
        }
        for _ in 0..nq {
            let qs = sample_ordered(&mut rng, &avail, 4);
            // group by file, file order random, query order kept within a file
            let mut forder: Vec<usize> = (0..paths.len()).collect();
            rng.shuffle(&mut forder);
            let mut q = Vec::new();
            let mut groups: Vec<(Vec<String>, &PathBuf)> = Vec::new();
            for &f in &forder {
                let sel: Vec<usize> = qs.iter().copied().filter(|&i| owner[i] == f).collect();
                if !sel.is_empty() {
                    groups.push((sel.iter().map(|&i| truth.id(i, key).unwrap()).collect(), &paths[f]));
                    q.extend(sel);
                }
            }
            let input: Vec<(Vec<&str>, &PathBuf)> = groups.iter().map(|(n, p)| (n.iter().map(|s| s.as_str()).collect(), *p)).collect();
            let got = quiet(|| K::P::from_multiple_json(&input, bpath.as_ref(), option));
            judge_ok::<K>(m, case, &tag, &truth, key, &q, got, true);
        }
        for _ in 0..3 {
            let q = sample_ordered(&mut rng, &avail, 3);
            let f = owner[q[0]];
            let mut names: Vec<String> = q.iter().filter(|&&i| owner[i] == f).map(|&i| truth.id(i, key).unwrap()).collect();
            let mut dup = names.clone();
            dup.push(names[0].clone());
            let got = quiet(|| K::P::from_json(dup.iter().map(|s| s.as_str()).collect(), &paths[f], bpath.as_ref(), option));
            judge_err(m, case, "json:duplicate", &tag, "IncompatibleParameters", got, ncomp, json!({"identifier_option": key, "query": dup}));
            names.push("no-such-substance".into());
            let got = quiet(|| K::P::from_json(names.iter().map(|s| s.as_str()).collect(), &paths[f], bpath.as_ref(), option));
            judge_err(m, case, "json:missing", &tag, "ComponentsNotFound", got, ncomp, json!({"identifier_option": key, "query": names}));
        }
    });
}

/// `from_records(pure, None)` and `from_records(pure, Some(all default))` describe the same
/// model ("the default is used when no binary record exists").
fn default_matrix_equivalence<K: MK>(m: &mut Monitor, case: u64, tag: &str, recs: &[Value])
where
    Pu<K>: Serialize,
{
    let typed = || -> Vec<PureRecord<Pu<K>>> { recs.iter().map(|r| serde_json::from_value(r.clone()).unwrap()).collect() };
    let n = recs.len();
    let x = skewed_x(n);
    let a = quiet(|| K::P::from_records(typed(), None).ok().and_then(|p| K::behave(p, &x))).ok().flatten();
    let b = quiet(|| {
        K::P::from_records(typed(), Some(Array2::from_elem([n, n], Bi::<K>::default()))).ok().and_then(|p| K::behave(p, &x))
    })
    .ok()
    .flatten();
    let (Some(a), Some(b)) = (a, b) else {
        m.skip("default-binary", "model not evaluable");
        return;
    };
    let names: Vec<Value> = recs.iter().map(|r| r["identifier"]["name"].clone()).collect();
    m.check("default-binary", &format!("{tag}|default-binary"), case, vdev(&a, &b), TOL_EXACT, || {
        json!({"substances": names, "no_binary_records": a, "all_default_binary_records": b})
    });
}

// ---------------------------------------------------------------------------------------
// group contribution
// ---------------------------------------------------------------------------------------

/// A library of segments: records for the homosegmented PC-SAFT, the heterosegmented
/// gc-PC-SAFT and Joback, and binary segment records.
struct SegLib {
    label: String,
    homo: Vec<Value>,
    hetero: Vec<Value>,
    joback: Vec<Value>,
    bin_homo: Vec<Value>,
    bin_hetero: Vec<Value>,
}

#[derive(Clone, Debug)]
struct Mol {
    identifier: Value,
    segments: Vec<String>,
    bonds: Vec<[usize; 2]>,
}

impl Mol {
    fn json(&self) -> Value {
        json!({"identifier": self.identifier, "segments": self.segments, "bonds": self.bonds})
    }
    fn typed(&self) -> ChemicalRecord {
        serde_json::from_value(self.json()).unwrap()
    }
    fn counts(&self) -> BTreeMap<String, f64> {
        let mut c = BTreeMap::new();
        for s in &self.segments {
            *c.entry(s.clone()).or_insert(0.0) += 1.0;
        }
        c
    }
    /// the same molecule written down differently: segment list permuted (bond indices
    /// renumbered), bond list shuffled, bond ends swapped at random
    fn permuted(&self, perm: &[usize], rng: &mut Rng) -> Mol {
        let mut inv = vec![0; perm.len()];
        for (k, &p) in perm.iter().enumerate() {
            inv[p] = k;
        }
        let mut bonds: Vec<[usize; 2]> = self
            .bonds
            .iter()
            .map(|b| if rng.bool(0.5) { [inv[b[0]], inv[b[1]]] } else { [inv[b[1]], inv[b[0]]] })
            .collect();
        rng.shuffle(&mut bonds);
        Mol {
            identifier: self.identifier.clone(),
            segments: perm.iter().map(|&p| self.segments[p].clone()).collect(),
            bonds,
        }
    }
}

const SYNTH_SEGMENTS: [&str; 7] = ["CH3", "CH2", ">CH", "=O", "OH", "C≡N", "Zz"];

fn synth_seglib(rng: &mut Rng) -> SegLib {
    let (mut homo, mut hetero, mut joback) = (Vec::new(), Vec::new(), Vec::new());
    for name in SYNTH_SEGMENTS {
        let mw = rng.range(12.0, 30.0);
        let mut h = json!({"m": rng.range(0.3, 1.0), "sigma": rng.range(3.0, 4.0), "epsilon_k": rng.range(150.0, 350.0)});
        let mut g = json!({"m": rng.range(0.3, 1.0), "sigma": rng.range(3.0, 4.0), "epsilon_k": rng.range(150.0, 350.0)});
        match name {
            "OH" => {
                for r in [&mut h, &mut g] {
                    let o = r.as_object_mut().unwrap();
                    o.insert("kappa_ab".into(), json!(rng.range(0.005, 0.05)));
                    o.insert("epsilon_k_ab".into(), json!(rng.range(1500.0, 2800.0)));
                    o.insert("na".into(), json!(1.0));
                    o.insert("nb".into(), json!(1.0));
                }
            }
            "C≡N" => {
                h.as_object_mut().unwrap().insert("mu".into(), json!(rng.range(1.0, 3.0)));
                g.as_object_mut().unwrap().insert("mu".into(), json!(rng.range(1.0, 3.0)));
            }
            "=O" => {
                h.as_object_mut().unwrap().insert("q".into(), json!(rng.range(1.0, 3.0)));
            }
            _ => {}
        }
        homo.push(json!({"identifier": name, "molarweight": mw, "model_record": h}));
        hetero.push(json!({"identifier": name, "molarweight": mw, "model_record": g}));
        joback.push(json!({"identifier": name, "molarweight": mw, "model_record":
            {"a": rng.range(-30.0, 30.0), "b": rng.range(-0.1, 0.3), "c": rng.range(-4e-4, 4e-4), "d": rng.range(-2e-7, 2e-7), "e": 0.0}}));
    }
    let mut bins = || {
        let mut v = Vec::new();
        for i in 0..SYNTH_SEGMENTS.len() {
            for j in i..SYNTH_SEGMENTS.len() {
                if rng.bool(if i == j { 0.2 } else { 0.5 }) {
                    let (a, b) = if rng.bool(0.5) { (i, j) } else { (j, i) };
                    v.push(json!({"id1": SYNTH_SEGMENTS[a], "id2": SYNTH_SEGMENTS[b], "model_record": rng.range(-0.2, 0.2)}));
                }
            }
        }
        rng.shuffle(&mut v);
        v
    };
    let (bin_homo, bin_hetero) = (bins(), bins());
    SegLib { label: "synthetic".into(), homo, hetero, joback, bin_homo, bin_hetero }
}

fn full_identifier(i: usize, n: usize) -> Value {
    let mut id = serde_json::Map::new();
    for (k, (_, key)) in OPTS.iter().enumerate() {
        id.insert(key.to_string(), json!(format!("mol-{}", (i + k) % n)));
    }
    Value::Object(id)
}

fn is_polar_homo(lib: &SegLib, name: &str) -> bool {
    lib.homo.iter().any(|r| {
        r["identifier"] == name && {
            let mr = &r["model_record"];
            mr.get("mu").is_some()
                || mr.get("q").is_some()
                || ["na", "nb", "nc"].iter().any(|k| mr.get(*k).and_then(|v| v.as_f64()).unwrap_or(0.0) > 0.0)
        }
    })
}

/// random molecule of up to 8 segments with a random bond list (a spanning tree plus,
/// sometimes, a ring closure)
fn random_mol(rng: &mut Rng, lib: &SegLib, idx: usize, nmol: usize, allow_two_polar: bool) -> Mol {
    let names: Vec<String> = lib.homo.iter().map(|r| r["identifier"].as_str().unwrap().to_string()).collect();
    let n = 1 + rng.below(8);
    let mut segments: Vec<String> = Vec::new();
    let npolar_max = if allow_two_polar && rng.bool(0.15) { 2 } else { 1 };
    let mut npolar = 0;
    while segments.len() < n {
        let s = rng.choose(&names).clone();
        if is_polar_homo(lib, &s) {
            if npolar >= npolar_max {
                continue;
            }
            npolar += 1;
        }
        segments.push(s);
    }
    let mut bonds: Vec<[usize; 2]> = (1..n).map(|k| [rng.below(k), k]).collect();
    if n >= 3 && rng.bool(0.3) {
        let a = rng.below(n);
        let b = (a + 1 + rng.below(n - 1)) % n;
        bonds.push([a, b]);
    }
    Mol { identifier: full_identifier(idx, nmol), segments, bonds }
}

fn seg_lookup<'a>(recs: &'a [Value], name: &str) -> Option<&'a Value> {
    recs.iter().find(|r| r["identifier"] == name)
}

/// segment-segment k: Ok(value or 0 when absent), Err when stored twice with different values
fn bin_lookup(bins: &[Value], s: &str, t: &str) -> Result<f64, ()> {
    let hits: Vec<f64> = bins
        .iter()
        .filter(|b| (b["id1"] == s && b["id2"] == t) || (b["id1"] == t && b["id2"] == s))
        .filter_map(|b| b["model_record"].as_f64())
        .collect();
    match hits.len() {
        0 => Ok(0.0),
        _ if hits.iter().all(|h| *h == hits[0]) => Ok(hits[0]),
        _ => Err(()),
    }
}

fn f(v: &Value, k: &str) -> f64 {
    v[k].as_f64().unwrap_or(0.0)
}

/// Reference: homosegmented PC-SAFT combining rules.
fn homo_reference(lib: &SegLib, mols: &[Mol], bins: &[Value]) -> Result<Canon, ()> {
    let mut c = Canon::new();
    let mut eps = Vec::new();
    for (i, mol) in mols.iter().enumerate() {
        let (mut mw, mut m, mut s3, mut e) = (0.0, 0.0, 0.0, 0.0);
        let (mut mu, mut q, mut kap, mut eab, mut na, mut nb) = (0.0, 0.0, 0.0, 0.0, 0.0, 0.0);
        for (s, n) in mol.counts() {
            let r = seg_lookup(&lib.homo, &s).ok_or(())?;
            let mr = &r["model_record"];
            mw += n * f(r, "molarweight");
            m += n * f(mr, "m");
            s3 += n * f(mr, "m") * f(mr, "sigma").powi(3);
            e += n * f(mr, "m") * f(mr, "epsilon_k");
            mu += n * f(mr, "mu");
            q += n * f(mr, "q");
            kap += n * f(mr, "kappa_ab");
            eab += n * f(mr, "epsilon_k_ab");
            na += n * f(mr, "na");
            nb += n * f(mr, "nb");
        }
        c.insert(format!("mw[{i}]"), mw);
        c.insert(format!("m[{i}]"), m);
        c.insert(format!("sigma[{i}]"), (s3 / m).cbrt());
        c.insert(format!("epsilon_k[{i}]"), e / m);
        c.insert(format!("mu[{i}]"), mu);
        c.insert(format!("q[{i}]"), q);
        c.insert(format!("kappa_ab[{i}]"), kap);
        c.insert(format!("epsilon_k_ab[{i}]"), eab);
        c.insert(format!("na[{i}]"), na);
        c.insert(format!("nb[{i}]"), nb);
        eps.push(e / m);
    }
    for i in 0..mols.len() {
        for j in 0..mols.len() {
            let mut k = 0.0;
            if i != j {
                let (mut num, mut den) = (0.0, 0.0);
                for (s, n1) in mols[i].counts() {
                    for (t, n2) in mols[j].counts() {
                        num += n1 * n2 * bin_lookup(bins, &s, &t)?;
                        den += n1 * n2;
                    }
                }
                k = num / den;
            }
            c.insert(format!("k[{i},{j}]"), k);
            c.insert(format!("e[{i},{j}]"), (eps[i] * eps[j]).sqrt() * (1.0 - k));
        }
    }
    Ok(c)
}

fn homo_canon(p: &PcSaftParameters) -> Canon {
    let mut c = Canon::new();
    let (pr, br) = p.records();
    let n = pr.len();
    for i in 0..n {
        c.insert(format!("mw[{i}]"), p.molarweight[i]);
        c.insert(format!("m[{i}]"), p.m[i]);
        c.insert(format!("sigma[{i}]"), p.sigma[i]);
        c.insert(format!("epsilon_k[{i}]"), p.epsilon_k[i]);
        c.insert(format!("mu[{i}]"), p.mu[i]);
        c.insert(format!("q[{i}]"), p.q[i]);
        let mr = serde_json::to_value(&pr[i].model_record).unwrap_or(Value::Null);
        for k in ["kappa_ab", "epsilon_k_ab", "na", "nb"] {
            c.insert(format!("{k}[{i}]"), f(&mr, k));
        }
        // the retained record must agree with the parameter arrays
        c.insert(format!("record.m[{i}]-m[{i}]"), f(&mr, "m") - p.m[i]);
        c.insert(format!("record.mw[{i}]-mw[{i}]"), pr[i].molarweight - p.molarweight[i]);
        for j in 0..n {
            let k = br.map_or(0.0, |b| f64::from(b[(i, j)]));
            c.insert(format!("k[{i},{j}]"), k);
            c.insert(format!("e[{i},{j}]"), p.epsilon_k_ij[(i, j)]);
        }
    }
    c
}

/// magnitudes of the Joback offsets: the coefficients are sums of terms of this size that may
/// cancel, so deviations are judged absolutely in these units
const JOBACK_SCALE: [f64; 5] = [37.93, 0.21, 3.91e-4, 2.06e-7, 1e-10];

/// Reference: Joback group contribution (offsets of Joback & Reid 1987 plus segment sums).
fn joback_reference(lib: &SegLib, mols: &[Mol]) -> Result<Canon, ()> {
    let mut c = Canon::new();
    for (i, mol) in mols.iter().enumerate() {
        let mut v = [-37.93, 0.21, -3.91e-4, 2.06e-7, 0.0];
        let mut mw = 0.0;
        for (s, n) in mol.counts() {
            let r = seg_lookup(&lib.joback, &s).ok_or(())?;
            mw += n * f(r, "molarweight");
            for (k, key) in ["a", "b", "c", "d", "e"].iter().enumerate() {
                v[k] += n * f(&r["model_record"], key);
            }
        }
        c.insert(format!("mw[{i}]"), mw);
        for (k, key) in ["a", "b", "c", "d", "e"].iter().enumerate() {
            c.insert(format!("joback.{key}[{i}]"), v[k] / JOBACK_SCALE[k]);
        }
    }
    Ok(c)
}

fn joback_canon(p: &Joback) -> Canon {
    let mut c = Canon::new();
    for (i, r) in p.records().0.iter().enumerate() {
        c.insert(format!("mw[{i}]"), r.molarweight);
        let mr = &r.model_record;
        for (k, (key, v)) in [("a", mr.a), ("b", mr.b), ("c", mr.c), ("d", mr.d), ("e", mr.e)].into_iter().enumerate() {
            c.insert(format!("joback.{key}[{i}]"), v / JOBACK_SCALE[k]);
        }
    }
    c
}

/// Reference: heterosegmented gc-PC-SAFT (one entry per component and segment type).
fn hetero_reference(lib: &SegLib, mols: &[Mol], bins: &[Value]) -> Result<Canon, ()> {
    let mut c = Canon::new();
    let mut segs: Vec<(usize, String, f64, f64)> = Vec::new();
    for (i, mol) in mols.iter().enumerate() {
        let mut mw = 0.0;
        for (s, n) in mol.counts() {
            let r = seg_lookup(&lib.hetero, &s).ok_or(())?;
            let mr = &r["model_record"];
            mw += n * f(r, "molarweight");
            c.insert(format!("m[{i}:{s}]"), n * f(mr, "m"));
            c.insert(format!("count[{i}:{s}]"), n);
            segs.push((i, s, f(mr, "sigma"), f(mr, "epsilon_k")));
        }
        c.insert(format!("mw[{i}]"), mw);
        for b in &mol.bonds {
            let (s1, s2) = (&mol.segments[b[0]], &mol.segments[b[1]]);
            let (s1, s2) = if s1 > s2 { (s2, s1) } else { (s1, s2) };
            *c.entry(format!("bond[{i}:{s1}~{s2}]")).or_insert(0.0) += 1.0;
        }
    }
    for (i, s, sig1, e1) in &segs {
        for (j, t, sig2, e2) in &segs {
            let k = if i != j { bin_lookup(bins, s, t)? } else { 0.0 };
            c.insert(format!("k[{i}:{s}|{j}:{t}]"), k);
            c.insert(format!("e[{i}:{s}|{j}:{t}]"), (e1 * e2).sqrt() * (1.0 - k));
            c.insert(format!("s[{i}:{s}|{j}:{t}]"), 0.5 * (sig1 + sig2));
        }
    }
    Ok(c)
}

/// Canonical form of the library's heterosegmented parameters. Segment rows come in
/// hash-map order; a row is recognised by (component, sigma, epsilon_k).
fn hetero_canon(p: &GcPcSaftEosParameters, lib: &SegLib, mols: &[Mol]) -> Result<Canon, String> {
    let mut c = Canon::new();
    let ns = p.m.len();
    let mut name = Vec::with_capacity(ns);
    for g in 0..ns {
        let i = p.component_index[g];
        let mol = mols.get(i).ok_or("component index out of range")?;
        let cands: Vec<String> = mol
            .counts()
            .keys()
            .filter(|s| {
                seg_lookup(&lib.hetero, s).map_or(false, |r| {
                    f(&r["model_record"], "sigma") == p.sigma[g] && f(&r["model_record"], "epsilon_k") == p.epsilon_k[g]
                })
            })
            .cloned()
            .collect();
        if cands.len() != 1 {
            return Err(format!("segment row {g} of component {i} not identifiable ({} candidates)", cands.len()));
        }
        name.push((i, cands[0].clone()));
    }
    for i in 0..p.molarweight.len() {
        c.insert(format!("mw[{i}]"), p.molarweight[i]);
    }
    for g in 0..ns {
        let (i, s) = &name[g];
        let key = format!("m[{i}:{s}]");
        if c.contains_key(&key) {
            return Err(format!("segment {s} of component {i} appears in two rows"));
        }
        c.insert(key, p.m[g]);
        let mseg = f(&seg_lookup(&lib.hetero, s).unwrap()["model_record"], "m");
        c.insert(format!("count[{i}:{s}]"), p.m[g] / mseg);
        for h in 0..ns {
            let (j, t) = &name[h];
            c.insert(format!("k[{i}:{s}|{j}:{t}]"), p.k_ij[(g, h)]);
            c.insert(format!("e[{i}:{s}|{j}:{t}]"), p.epsilon_k_ij[(g, h)]);
            c.insert(format!("s[{i}:{s}|{j}:{t}]"), p.sigma_ij[(g, h)]);
        }
    }
    for ([g, h], cnt) in &p.bonds {
        let ((i, s), (j, t)) = (&name[*g], &name[*h]);
        if i != j {
            return Err(format!("bond between components {i} and {j}"));
        }
        let (s1, s2) = if s > t { (t, s) } else { (s, t) };
        *c.entry(format!("bond[{i}:{s1}~{s2}]")).or_insert(0.0) += cnt;
    }
    Ok(c)
}

fn typed_vec<T: serde::de::DeserializeOwned>(v: &[Value]) -> Vec<T> {
    v.iter().map(|r| serde_json::from_value(r.clone()).expect("record parses")).collect()
}

fn gc_behaviour_eos(p: GcPcSaftEosParameters, n: usize) -> Option<Vec<f64>> {
    quiet(|| observe(&Arc::new(Model::GcPcSaft(GcPcSaft::new(Arc::new(p)))), &skewed_x(n))).ok().flatten()
}
fn gc_behaviour_dft(p: GcPcSaftFunctionalParameters, n: usize) -> Option<Vec<f64>> {
    quiet(|| observe(&Arc::new(Model::GcPcSaftFunctional(GcPcSaftFunctional::new(Arc::new(p)))), &skewed_x(n))).ok().flatten()
}
fn homo_behaviour(p: PcSaftParameters, n: usize) -> Option<Vec<f64>> {
    quiet(|| observe(&Arc::new(Model::PcSaft(PcSaft::new(Arc::new(p)))), &skewed_x(n))).ok().flatten()
}

struct GcCase {
    lib: Arc<SegLib>,
    mols: Vec<Mol>,
    with_binary: bool,
}

/// permutations of 0..n: all of them when n! <= limit, otherwise `limit` random ones
fn perms(rng: &mut Rng, n: usize, limit: usize) -> Vec<Vec<usize>> {
    let fact: usize = (1..=n).product();
    if fact <= limit {
        let mut out = Vec::new();
        let items: Vec<usize> = (0..n).collect();
        for p in ordered_subsets(&items, n) {
            if p.len() == n {
                out.push(p);
            }
        }
        out
    } else {
        (0..limit).map(|_| rng.permutation(n)).collect()
    }
}

fn gc_case(m: &mut Monitor, seed: u64, ci: u64, c: &GcCase, nperm: usize, reps: usize) {
    let case = 100_000 + ci;
    let lib = &*c.lib;
    let n = c.mols.len();
    let mut rng = Rng::derive(seed, "c14-gc-perm", ci);
    let nseg_max = c.mols.iter().map(|m| m.segments.len()).max().unwrap_or(0);
    let hash = hash_str(&format!("{}{:?}{}", lib.label, c.mols, c.with_binary));
    m.case(&format!("gc:{}", lib.label), hash, nseg_max >= 3);
    if m.samples.len() < 2 {
        m.sample(json!({"workload": "gc", "segment_library": lib.label, "chemical_records": c.mols.iter().map(|m| m.json()).collect::<Vec<_>>(), "binary_segment_records": c.with_binary}));
    }
    // variants: the molecules written down differently
    let mut variants: Vec<Vec<Mol>> = vec![c.mols.clone()];
    let plists: Vec<Vec<Vec<usize>>> = c.mols.iter().map(|mol| perms(&mut rng, mol.segments.len(), nperm)).collect();
    let nv = plists.iter().map(|p| p.len()).max().unwrap_or(1);
    for v in 0..nv {
        variants.push(c.mols.iter().enumerate().map(|(i, mol)| mol.permuted(&plists[i][v % plists[i].len()], &mut rng)).collect());
    }
    m.count("gc_permuted_variants", (variants.len() - 1) as u64);
    let detail = |what: &str, vmols: &[Mol], msg: String| {
        let (what, base, vm, lbl, wb) = (what.to_string(), c.mols.clone(), vmols.to_vec(), lib.label.clone(), c.with_binary);
        move || json!({"what": what, "segment_library": lbl, "with_binary_segment_records": wb,
            "chemical_records": base.iter().map(|m| m.json()).collect::<Vec<_>>(),
            "variant": vm.iter().map(|m| m.json()).collect::<Vec<_>>(), "mismatch": msg})
    };

    // ---- heterosegmented gc-PC-SAFT
    let bins_het: &[Value] = if c.with_binary { &lib.bin_hetero } else { &[] };
    let het_ok = c.mols.iter().all(|mol| mol.segments.iter().all(|s| seg_lookup(&lib.hetero, s).is_some()));
    if het_ok {
        let tag = format!("gc-hetero:{}", lib.label);
        let build = |mols: &[Mol]| {
            quiet(|| {
                GcPcSaftEosParameters::from_segments(
                    mols.iter().map(|m| m.typed()).collect::<Vec<ChemicalRecord>>(),
                    typed_vec::<SegmentRecord<GcPcSaftRecord>>(&lib.hetero),
                    c.with_binary.then(|| typed_vec::<BinaryRecord<String, f64>>(&lib.bin_hetero)),
                )
            })
        };
        let reference = hetero_reference(lib, &c.mols, bins_het);
        let mut base: Option<(Canon, Option<Vec<f64>>)> = None;
        for (vi, vmols) in variants.iter().enumerate() {
            for rep in 0..reps {
                let p = match build(vmols) {
                    Ok(Ok(p)) => p,
                    other => {
                        let what = outcome(&other, |p| p.molarweight.len());
                        m.check_bool("gc-hetero:accepted", &format!("{tag}|accepted"), case, false, detail("construction failed", vmols, what));
                        continue;
                    }
                };
                let canon = match hetero_canon(&p, lib, vmols) {
                    Ok(c) => c,
                    Err(e) => {
                        m.check_bool("gc-hetero:structure", &format!("{tag}|structure"), case, false, detail("parameter rows", vmols, e));
                        continue;
                    }
                };
                if vi == 0 && rep == 0 {
                    match &reference {
                        Ok(r) => {
                            let (d, msg) = canon_dev(&canon, r);
                            m.check("gc-hetero:reference", &format!("{tag}|reference"), case, d, TOL_REF, detail("library vs reference combining rules", vmols, msg));
                        }
                        Err(()) => m.skip("gc-hetero:reference", "segment pair stored twice in binary file"),
                    }
                    let beh = gc_behaviour_eos(p, n);
                    base = Some((canon, beh));
                    continue;
                }
                let Some((c0, b0)) = &base else { continue };
                let (d, msg) = canon_dev(&canon, c0);
                let clause = if vi == 0 { "gc-hetero:repeatable" } else { "gc-hetero:permutation" };
                m.check(clause, &format!("{tag}|{}", &clause[10..]), case, d, TOL_PERM, detail("parameters differ between two ways of writing the same molecules", vmols, msg));
                if rep == 0 {
                    match (b0, gc_behaviour_eos(p, n)) {
                        (Some(b0), Some(b)) => {
                            let d = vdev(b0, &b);
                            m.check("gc-hetero:behaviour", &format!("{tag}|behaviour"), case, d, TOL_BEH, detail("A_res, p, mu differ", vmols, format!("{b0:?} vs {b:?}")));
                        }
                        _ => m.skip("gc-hetero:behaviour", "model not evaluable"),
                    }
                }
            }
        }
        // the functional's parameters keep one row per segment: only behaviour is compared
        let buildf = |mols: &[Mol]| {
            quiet(|| {
                GcPcSaftFunctionalParameters::from_segments(
                    mols.iter().map(|m| m.typed()).collect::<Vec<ChemicalRecord>>(),
                    typed_vec::<SegmentRecord<GcPcSaftRecord>>(&lib.hetero),
                    c.with_binary.then(|| typed_vec::<BinaryRecord<String, f64>>(&lib.bin_hetero)),
                )
                .ok()
            })
            .ok()
            .flatten()
        };
        if let Some(b0) = buildf(&c.mols).and_then(|p| gc_behaviour_dft(p, n)) {
            for vmols in variants.iter().skip(1).take(6) {
                match buildf(vmols).and_then(|p| gc_behaviour_dft(p, n)) {
                    Some(b) => {
                        m.check("gc-hetero-functional:behaviour", &format!("gc-hetero-functional:{}|behaviour", lib.label), case, vdev(&b0, &b), TOL_BEH, detail("bulk A_res, p, mu of the functional differ", vmols, format!("{b0:?} vs {b:?}")));
                    }
                    None => m.skip("gc-hetero-functional:behaviour", "model not evaluable"),
                }
            }
        }
    }

    // ---- homosegmented PC-SAFT
    let bins_homo: &[Value] = if c.with_binary { &lib.bin_homo } else { &[] };
    let homo_ok = c.mols.iter().all(|mol| mol.segments.iter().all(|s| seg_lookup(&lib.homo, s).is_some()));
    if homo_ok {
        let tag = format!("gc-homo:{}", lib.label);
        let build = |mols: &[Mol]| {
            quiet(|| {
                PcSaftParameters::from_segments(
                    mols.iter().map(|m| m.typed()).collect::<Vec<ChemicalRecord>>(),
                    typed_vec::<SegmentRecord<PcSaftRecord>>(&lib.homo),
                    c.with_binary.then(|| typed_vec::<BinaryRecord<String, f64>>(&lib.bin_homo)),
                )
            })
        };
        let npolar = |mol: &Mol| mol.segments.iter().filter(|s| is_polar_homo(lib, s)).count();
        let too_polar = c.mols.iter().any(|mol| npolar(mol) > 1);
        let mut base: Option<(Canon, Option<Vec<f64>>)> = None;
        for (vi, vmols) in variants.iter().enumerate() {
            for rep in 0..reps {
                let r = build(vmols);
                if too_polar {
                    // more than one polar/associating segment is documented to be rejected
                    judge_err(m, case, "gc-homo:too-many-polar-segments", &tag, "IncompatibleParameters", r, |p| p.m.len(), json!({"chemical_records": vmols.iter().map(|m| m.json()).collect::<Vec<_>>()}));
                    continue;
                }
                let p = match r {
                    Ok(Ok(p)) => p,
                    other => {
                        let what = outcome(&other, |p| p.m.len());
                        m.check_bool("gc-homo:accepted", &format!("{tag}|accepted"), case, false, detail("construction failed", vmols, what));
                        continue;
                    }
                };
                let canon = homo_canon(&p);
                if vi == 0 && rep == 0 {
                    match homo_reference(lib, &c.mols, bins_homo) {
                        Ok(r) => {
                            let (d, msg) = canon_dev(&canon, &r);
                            m.check("gc-homo:reference", &format!("{tag}|reference"), case, d, TOL_REF, detail("library vs reference combining rules", vmols, msg));
                        }
                        Err(()) => m.skip("gc-homo:reference", "segment pair stored twice in binary file"),
                    }
                    let beh = homo_behaviour(p, n);
                    base = Some((canon, beh));
                    continue;
                }
                let Some((c0, b0)) = &base else { continue };
                let (d, msg) = canon_dev(&canon, c0);
                let clause = if vi == 0 { "gc-homo:repeatable" } else { "gc-homo:permutation" };
                m.check(clause, &format!("{tag}|{}", &clause[8..]), case, d, TOL_PERM, detail("parameters differ between two ways of writing the same molecules", vmols, msg));
                if rep == 0 && vi % 4 == 1 {
                    match (b0, homo_behaviour(p, n)) {
                        (Some(b0), Some(b)) => {
                            m.check("gc-homo:behaviour", &format!("{tag}|behaviour"), case, vdev(b0, &b), TOL_BEH, detail("A_res, p, mu differ", vmols, format!("{b0:?} vs {b:?}")));
                        }
                        _ => m.skip("gc-homo:behaviour", "model not evaluable"),
                    }
                }
            }
        }
    }

    // ---- Joback
    let jb_ok = c.mols.iter().all(|mol| mol.segments.iter().all(|s| seg_lookup(&lib.joback, s).is_some()));
    if jb_ok {
        let tag = format!("gc-joback:{}", lib.label);
        let build = |mols: &[Mol]| {
            quiet(|| Joback::from_segments(mols.iter().map(|m| m.typed()).collect::<Vec<ChemicalRecord>>(), typed_vec::<SegmentRecord<JobackRecord>>(&lib.joback), None))
        };
        let mut base: Option<Canon> = None;
        for (vi, vmols) in variants.iter().enumerate().take(8) {
            let Ok(Ok(p)) = build(vmols) else {
                m.check_bool("gc-joback:accepted", &format!("{tag}|accepted"), case, false, detail("construction failed", vmols, String::new()));
                continue;
            };
            let canon = joback_canon(&p);
            if vi == 0 {
                if let Ok(r) = joback_reference(lib, &c.mols) {
                    let (d, msg) = canon_dev(&canon, &r);
                    m.check("gc-joback:reference", &format!("{tag}|reference"), case, d, TOL_REF, detail("library vs reference", vmols, msg));
                }
                base = Some(canon);
            } else if let Some(c0) = &base {
                let (d, msg) = canon_dev(&canon, c0);
                m.check("gc-joback:permutation", &format!("{tag}|permutation"), case, d, TOL_PERM, detail("parameters differ", vmols, msg));
            }
        }
    }
}

// ---------------------------------------------------------------------------------------
// from_json_segments
// ---------------------------------------------------------------------------------------

fn gc_json_case(m: &mut Monitor, seed: u64, ci: u64, dir: &Path, lib: &SegLib, nmol: usize) {
    let case = 200_000 + ci;
    let mut rng = Rng::derive(seed, "c14-gc-json", ci);
    let d = dir.join(format!("gcjson_{ci}"));
    std::fs::create_dir_all(&d).unwrap();
    let mols: Vec<Mol> = (0..nmol).map(|i| random_mol(&mut rng, lib, i, nmol, false)).collect();
    let shuffled = |rng: &mut Rng, v: &[Value]| {
        let mut v = v.to_vec();
        rng.shuffle(&mut v);
        v
    };
    let (fc, fh, fg, fbh, fbg) = (d.join("chem.json"), d.join("homo.json"), d.join("hetero.json"), d.join("bin_homo.json"), d.join("bin_hetero.json"));
    write_json(&fc, &shuffled(&mut rng, &mols.iter().map(|m| m.json()).collect::<Vec<_>>()));
    write_json(&fh, &shuffled(&mut rng, &lib.homo));
    write_json(&fg, &shuffled(&mut rng, &lib.hetero));
    write_json(&fbh, &shuffled(&mut rng, &lib.bin_homo));
    write_json(&fbg, &shuffled(&mut rng, &lib.bin_hetero));
    // the oracle works with the numbers as a reader of the files sees them
    let seen = SegLib {
        label: lib.label.clone(),
        homo: lib.homo.iter().map(as_read).collect(),
        hetero: lib.hetero.iter().map(as_read).collect(),
        joback: lib.joback.iter().map(as_read).collect(),
        bin_homo: lib.bin_homo.iter().map(as_read).collect(),
        bin_hetero: lib.bin_hetero.iter().map(as_read).collect(),
    };
    let lib = &seen;
    let all: Vec<usize> = (0..nmol).collect();
    let queries = ordered_subsets(&all, 3);
    for (oi, (option, key)) in OPTS.iter().enumerate() {
        let id = |i: usize| ident_key(&mols[i].identifier, key).unwrap();
        for (qi, q) in queries.iter().enumerate() {
            // every query under name, a rotating third of them under the other kinds
            if oi != 1 && (qi + oi) % 3 != 0 {
                continue;
            }
            let names: Vec<String> = q.iter().map(|&i| id(i)).collect();
            let strs: Vec<&str> = names.iter().map(|s| s.as_str()).collect();
            let sel: Vec<Mol> = q.iter().map(|&i| mols[i].clone()).collect();
            let with_bin = (qi + oi) % 2 == 0;
            m.case("gc-json", hash_str(&format!("{ci}{key}{names:?}")), q.len() >= 2);
            let det = |msg: String| {
                let (names, key) = (names.clone(), key.to_string());
                move || json!({"identifier_option": key, "query": names, "mismatch": msg})
            };
            // hetero
            let got = quiet(|| GcPcSaftEosParameters::from_json_segments(&strs, &fc, &fg, with_bin.then_some(&fbg), *option));
            match got {
                Ok(Ok(p)) => {
                    let ids: Vec<Option<String>> = p.chemical_records.iter().map(|c| ident_typed(&c.identifier, key)).collect();
                    let ok = ids.len() == names.len() && ids.iter().zip(&names).all(|(a, b)| a.as_deref() == Some(b.as_str()));
                    m.check_bool("gc-json-hetero:order", "gc-hetero:from_json_segments|order", case, ok, det(format!("returned {ids:?}")));
                    let bins: &[Value] = if with_bin { &lib.bin_hetero } else { &[] };
                    if ok {
                        match (hetero_canon(&p, lib, &sel), hetero_reference(lib, &sel, bins)) {
                            (Ok(c), Ok(r)) => {
                                let (dv, msg) = canon_dev(&c, &r);
                                m.check("gc-json-hetero:parameters", "gc-hetero:from_json_segments|parameters", case, dv, TOL_REF, det(msg));
                            }
                            (Err(e), _) => {
                                m.check_bool("gc-json-hetero:parameters", "gc-hetero:from_json_segments|structure", case, false, det(e));
                            }
                            _ => m.skip("gc-json-hetero:parameters", "segment pair stored twice in binary file"),
                        }
                    }
                }
                other => {
                    let what = outcome(&other, |p| p.molarweight.len());
                    m.check_bool("gc-json-hetero:order", "gc-hetero:from_json_segments|accepted", case, false, det(what));
                }
            }
            // homo
            let got = quiet(|| PcSaftParameters::from_json_segments(&strs, &fc, &fh, with_bin.then_some(&fbh), *option));
            match got {
                Ok(Ok(p)) => {
                    let ids: Vec<Option<String>> = p.records().0.iter().map(|c| ident_typed(&c.identifier, key)).collect();
                    let ok = ids.len() == names.len() && ids.iter().zip(&names).all(|(a, b)| a.as_deref() == Some(b.as_str()));
                    m.check_bool("gc-json-homo:order", "gc-homo:from_json_segments|order", case, ok, det(format!("returned {ids:?}")));
                    let bins: &[Value] = if with_bin { &lib.bin_homo } else { &[] };
                    if let (true, Ok(r)) = (ok, homo_reference(lib, &sel, bins)) {
                        let (dv, msg) = canon_dev(&homo_canon(&p), &r);
                        m.check("gc-json-homo:parameters", "gc-homo:from_json_segments|parameters", case, dv, TOL_REF, det(msg));
                    }
                }
                other => {
                    let what = outcome(&other, |p| p.m.len());
                    m.check_bool("gc-json-homo:order", "gc-homo:from_json_segments|accepted", case, false, det(what));
                }
            }
        }
        // rejected queries
        for _ in 0..4 {
            let q = sample_ordered(&mut rng, &all, 3);
            let mut names: Vec<String> = q.iter().map(|&i| id(i)).collect();
            let mut dup = names.clone();
            dup.insert(rng.below(dup.len() + 1), names[rng.below(names.len())].clone());
            let ds: Vec<&str> = dup.iter().map(|s| s.as_str()).collect();
            let got = quiet(|| GcPcSaftEosParameters::from_json_segments(&ds, &fc, &fg, Some(&fbg), *option));
            judge_err(m, case, "gc-json:duplicate", "gc-hetero:from_json_segments", "IncompatibleParameters", got, |p| p.molarweight.len(), json!({"identifier_option": key, "query": dup}));
            let got = quiet(|| PcSaftParameters::from_json_segments(&ds, &fc, &fh, Some(&fbh), *option));
            judge_err(m, case, "gc-json:duplicate", "gc-homo:from_json_segments", "IncompatibleParameters", got, |p| p.m.len(), json!({"identifier_option": key, "query": dup}));
            let pos = rng.below(names.len());
            names[pos] = "no-such-substance".into();
            let ms: Vec<&str> = names.iter().map(|s| s.as_str()).collect();
            let got = quiet(|| GcPcSaftEosParameters::from_json_segments(&ms, &fc, &fg, Some(&fbg), *option));
            judge_err(m, case, "gc-json:missing", "gc-hetero:from_json_segments", "ComponentsNotFound", got, |p| p.molarweight.len(), json!({"identifier_option": key, "query": names}));
            let got = quiet(|| PcSaftParameters::from_json_segments(&ms, &fc, &fh, Some(&fbh), *option));
            judge_err(m, case, "gc-json:missing", "gc-homo:from_json_segments", "ComponentsNotFound", got, |p| p.m.len(), json!({"identifier_option": key, "query": names}));
        }
    }
}

// ---------------------------------------------------------------------------------------
// serde round trip
// ---------------------------------------------------------------------------------------

/// keys of the file's model record that do not survive parsing + serialising
fn dropped_keys(file: &Value, out: &Value) -> Vec<String> {
    let (Some(a), Some(b)) = (file.as_object(), out.as_object()) else { return vec![] };
    a.iter()
        .filter(|(k, v)| match b.get(*k) {
            Some(w) => match (v.as_f64(), w.as_f64()) {
                (Some(x), Some(y)) => x != y,
                _ => false,
            },
            // a zero that is skipped on output is the documented default
            None => v.as_f64() != Some(0.0),
        })
        .map(|(k, _)| k.clone())
        .collect()
}

fn serde_pure<K: MK>(m: &mut Monitor, kidx: u64, label: &str, dir: &str, file: &str, binary: Option<&str>, pool_files: &[&str])
where
    Pu<K>: Serialize,
    Bi<K>: Serialize,
{
    let recs = load_json_array(&params_dir().join(dir).join(file));
    let tag = format!("serde:{label}:{file}");
    let idx: Vec<usize> = (0..recs.len()).collect();
    m.gate(!recs.is_empty(), &format!("{dir}/{file} is empty or unreadable"));
    par_cases(m, &idx, |m, _, &i| {
        let case = 300_000 + kidx * 10_000 + i as u64;
        let v = &recs[i];
        m.case(&format!("serde:{label}"), hash_str(&format!("{file}{i}")), true);
        let name = v["identifier"]["name"].clone();
        let Ok(r) = serde_json::from_value::<PureRecord<Pu<K>>>(v.clone()) else {
            m.check_bool("serde:parse", &format!("{tag}|parse"), case, false, || json!({"record": v}));
            return;
        };
        let s1 = serde_json::to_string(&r).unwrap_or_default();
        let r2 = serde_json::from_str::<PureRecord<Pu<K>>>(&s1);
        let s2 = r2.as_ref().ok().and_then(|r| serde_json::to_string(r).ok());
        if s2.as_deref() != Some(s1.as_str()) {
            m.count("serde_reread_not_bit_identical", 1);
        }
        m.check_bool("serde:reread", &format!("{tag}|reread"), case, str_close(&s1, s2.as_deref()), || {
            json!({"record": v, "serialised": s1, "reread_serialised": s2, "error": r2.as_ref().err().map(|e| e.to_string())})
        });
        let Ok(r2) = r2 else { return };
        let out: Value = serde_json::from_str(&s1).unwrap_or(Value::Null);
        let dk = dropped_keys(&v["model_record"], &out["model_record"]);
        if !dk.is_empty() {
            m.count("serde_file_keys_not_reproduced", dk.len() as u64);
            m.note(&format!("serde_dropped_keys_example:{label}"), json!({"file": file, "substance": name, "keys": dk}));
        }
        // records() returns the inputs
        if let Ok(Ok(p)) = quiet(|| K::P::from_records(vec![r.clone()], None)) {
            let back = p.records().0.first().and_then(|r| serde_json::to_string(r).ok());
            m.check_bool("serde:records()", &format!("{tag}|records()"), case, back.as_deref() == Some(s1.as_str()), || {
                json!({"input": s1, "records()": back})
            });
        }
        // behaviour in a suitable mixture
        let ctx = K::context(&recs, i);
        let mk = |me: &PureRecord<Pu<K>>| -> Option<Vec<f64>> {
            let pure: Vec<PureRecord<Pu<K>>> = ctx
                .iter()
                .map(|&j| if j == i { Some(me.clone()) } else { serde_json::from_value(recs[j].clone()).ok() })
                .collect::<Option<_>>()?;
            let x: Vec<f64> = if ctx.len() == 3 { vec![0.9, 0.05, 0.05] } else { vec![1.0] };
            quiet(|| K::P::from_records(pure, None).ok().and_then(|p| K::behave(p, &x))).ok().flatten()
        };
        match (mk(&r), mk(&r2)) {
            (Some(a), Some(b)) => {
                m.check("serde:behaviour", &format!("{tag}|behaviour"), case, vdev(&a, &b), TOL_REREAD, || {
                    json!({"substance": name, "original": a, "reread": b})
                });
            }
            (None, None) => m.skip("serde:behaviour", "model not evaluable"),
            _ => {
                m.check_bool("serde:behaviour", &format!("{tag}|behaviour"), case, false, || json!({"substance": name, "note": "only one of the two models is evaluable"}));
            }
        }
    });
    // binary records
    let Some(bfile) = binary else { return };
    let bins = load_json_array(&params_dir().join(dir).join(bfile));
    let pool: Vec<Value> = pool_files.iter().flat_map(|f| load_json_array(&params_dir().join(dir).join(f))).collect();
    let tag = format!("serde:{label}:{bfile}");
    let idx: Vec<usize> = (0..bins.len()).collect();
    m.gate(!bins.is_empty(), &format!("{dir}/{bfile} is empty or unreadable"));
    par_cases(m, &idx, |m, _, &i| {
        let case = 300_000 + kidx * 10_000 + 5000 + i as u64;
        let v = &bins[i];
        m.case(&format!("serde:{label}:binary"), hash_str(&format!("{bfile}{i}")), true);
        let Ok(r) = serde_json::from_value::<BinaryRecord<Identifier, Bi<K>>>(v.clone()) else {
            m.check_bool("serde:parse", &format!("{tag}|parse"), case, false, || json!({"record": v}));
            return;
        };
        let s1 = serde_json::to_string(&r).unwrap_or_default();
        let r2 = serde_json::from_str::<BinaryRecord<Identifier, Bi<K>>>(&s1);
        let s2 = r2.as_ref().ok().and_then(|r| serde_json::to_string(r).ok());
        if s2.as_deref() != Some(s1.as_str()) {
            m.count("serde_reread_not_bit_identical", 1);
        }
        m.check_bool("serde:reread", &format!("{tag}|reread"), case, str_close(&s1, s2.as_deref()), || {
            json!({"record": v, "serialised": s1, "reread_serialised": s2})
        });
        let Ok(r2) = r2 else { return };
        let out: Value = serde_json::from_str(&s1).unwrap_or(Value::Null);
        let dk = dropped_keys(&v["model_record"], &out["model_record"]);
        if !dk.is_empty() {
            m.count("serde_file_keys_not_reproduced", dk.len() as u64);
            m.note(&format!("serde_dropped_keys_example:{label}:binary"), json!({"file": bfile, "keys": dk}));
        }
        let find = |id: &Value| pool.iter().position(|p| p["identifier"]["cas"] == id["cas"] && !id["cas"].is_null());
        let (Some(a), Some(b)) = (find(&v["id1"]), find(&v["id2"])) else {
            m.skip("serde:behaviour", "pure record of a binary record not shipped");
            return;
        };
        // ions need the solvent: put water first when the pair does not contain it
        let mut ctx = vec![a, b];
        if K::NAME == "epcsaft" {
            if let Some(w) = pool.iter().position(|p| p["identifier"]["name"] == "water") {
                if !ctx.contains(&w) {
                    ctx.insert(0, w);
                }
            }
        }
        let n = ctx.len();
        let mk = |br: &Bi<K>| -> Option<Vec<f64>> {
            let pure: Vec<PureRecord<Pu<K>>> = ctx.iter().map(|&j| serde_json::from_value(pool[j].clone()).ok()).collect::<Option<_>>()?;
            let mut mat = Array2::from_elem([n, n], Bi::<K>::default());
            mat[(n - 2, n - 1)] = br.clone();
            mat[(n - 1, n - 2)] = br.clone();
            let x = if n == 3 { vec![0.9, 0.06, 0.04] } else { vec![0.6, 0.4] };
            quiet(|| K::P::from_records(pure, Some(mat)).ok().and_then(|p| K::behave(p, &x))).ok().flatten()
        };
        match (mk(&r.model_record), mk(&r2.model_record)) {
            (Some(a), Some(b)) => {
                m.check("serde:behaviour", &format!("{tag}|behaviour"), case, vdev(&a, &b), TOL_REREAD, || json!({"record": v, "original": a, "reread": b}));
                // and the binary record matters at all (otherwise the comparison is vacuous)
                if let Some(c) = mk(&Bi::<K>::default()) {
                    m.count(if vdev(&a, &c) > 1e-9 { "serde_binary_records_changing_behaviour" } else { "serde_binary_records_without_effect" }, 1);
                }
            }
            (None, None) => m.skip("serde:behaviour", "model not evaluable"),
            _ => {
                m.check_bool("serde:behaviour", &format!("{tag}|behaviour"), case, false, || json!({"record": v, "note": "only one of the two models is evaluable"}));
            }
        }
    });
}

/// round trip of a whole list of records of type T; returns the re-read list as JSON
fn reread_list<T: Serialize + serde::de::DeserializeOwned>(m: &mut Monitor, case: u64, tag: &str, recs: &[Value]) -> Option<Vec<Value>> {
    let mut out = Vec::new();
    for v in recs {
        m.case("serde:gc-records", hash_str(&format!("{tag}{v}")), true);
        let Ok(r) = serde_json::from_value::<T>(v.clone()) else {
            m.check_bool("serde:parse", &format!("{tag}|parse"), case, false, || json!({"record": v}));
            return None;
        };
        let s1 = serde_json::to_string(&r).unwrap_or_default();
        let r2 = serde_json::from_str::<T>(&s1);
        let s2 = r2.as_ref().ok().and_then(|r| serde_json::to_string(r).ok());
        if s2.as_deref() != Some(s1.as_str()) {
            m.count("serde_reread_not_bit_identical", 1);
        }
        m.check_bool("serde:reread", &format!("{tag}|reread"), case, str_close(&s1, s2.as_deref()), || {
            json!({"record": v, "serialised": s1, "reread_serialised": s2})
        });
        let o: Value = serde_json::from_str(&s1).ok()?;
        if let (Some(_), Some(_)) = (v.get("model_record").and_then(|x| x.as_object()), o.get("model_record")) {
            let dk = dropped_keys(&v["model_record"], &o["model_record"]);
            if !dk.is_empty() {
                m.count("serde_file_keys_not_reproduced", dk.len() as u64);
                m.note(&format!("serde_dropped_keys_example:{tag}"), json!({"record": v["identifier"], "keys": dk}));
            }
        }
        out.push(o);
    }
    Some(out)
}

fn shipped_seglib(label: &str, homo: &str, hetero: &str, bin_homo: Option<&str>, bin_hetero: Option<&str>) -> SegLib {
    let d = params_dir().join("pcsaft");
    let ld = |f: Option<&str>| f.map(|f| load_json_array(&d.join(f))).unwrap_or_default();
    SegLib {
        label: label.into(),
        homo: ld(Some(homo)),
        hetero: ld(Some(hetero)),
        joback: load_json_array(&params_dir().join("ideal_gas").join("joback1987.json")),
        bin_homo: ld(bin_homo),
        bin_hetero: ld(bin_hetero),
    }
}

fn shipped_mols(lib: &SegLib, need_hetero: bool) -> Vec<Mol> {
    let subs = load_json_array(&params_dir().join("pcsaft").join("gc_substances.json"));
    subs.iter()
        .filter_map(|v| {
            let cr: ChemicalRecord = serde_json::from_value(v.clone()).ok()?;
            let pool = if need_hetero { &lib.hetero } else { &lib.homo };
            cr.segments.iter().all(|s| seg_lookup(pool, s).is_some()).then(|| Mol {
                identifier: v["identifier"].clone(),
                segments: cr.segments.clone(),
                bonds: cr.bonds.clone(),
            })
        })
        .collect()
}

fn serde_gc(m: &mut Monitor, lib: &SegLib) {
    let case = 390_000;
    let tag = format!("serde:gc:{}", lib.label);
    let subs = load_json_array(&params_dir().join("pcsaft").join("gc_substances.json"));
    let homo2 = reread_list::<SegmentRecord<PcSaftRecord>>(m, case, &format!("{tag}:homo-segments"), &lib.homo);
    let het2 = reread_list::<SegmentRecord<GcPcSaftRecord>>(m, case, &format!("{tag}:hetero-segments"), &lib.hetero);
    let jb2 = reread_list::<SegmentRecord<JobackRecord>>(m, case, &format!("{tag}:joback-segments"), &lib.joback);
    let bh2 = reread_list::<BinaryRecord<String, f64>>(m, case, &format!("{tag}:homo-binary"), &lib.bin_homo);
    let bg2 = reread_list::<BinaryRecord<String, f64>>(m, case, &format!("{tag}:hetero-binary"), &lib.bin_hetero);
    let subs2 = reread_list::<ChemicalRecord>(m, case, "serde:gc:chemical-records", &subs);
    let (Some(homo2), Some(het2), Some(jb2), Some(bh2), Some(bg2), Some(subs2)) = (homo2, het2, jb2, bh2, bg2, subs2) else { return };
    let lib2 = SegLib { label: lib.label.clone(), homo: homo2, hetero: het2, joback: jb2, bin_homo: bh2, bin_hetero: bg2 };
    // pairs of substances (so that binary segment records take part), original vs re-read everything
    let jobs: Vec<usize> = (0..subs.len()).collect();
    par_cases(m, &jobs, |m, _, &i| {
        let j = (i * 7 + 3) % subs.len();
        let sel = |s: &[Value]| -> Vec<ChemicalRecord> { [i, j].iter().filter_map(|&k| serde_json::from_value(s[k].clone()).ok()).collect() };
        let names = json!([subs[i]["identifier"]["name"], subs[j]["identifier"]["name"]]);
        let case = 391_000 + i as u64;
        let wb = !lib.bin_hetero.is_empty();
        // hetero
        let het = |l: &SegLib, s: &[Value]| {
            quiet(|| {
                GcPcSaftEosParameters::from_segments(sel(s), typed_vec::<SegmentRecord<GcPcSaftRecord>>(&l.hetero), wb.then(|| typed_vec(&l.bin_hetero))).ok()
            })
            .ok()
            .flatten()
        };
        if let (Some(p1), Some(p2)) = (het(lib, &subs), het(&lib2, &subs2)) {
            m.case("serde:gc-hetero", hash_str(&format!("{}{i}", lib.label)), true);
            // records() returns the inputs
            let (_, sr, br) = p1.records();
            let same = serde_json::to_value(sr).ok() == serde_json::to_value(typed_vec::<SegmentRecord<GcPcSaftRecord>>(&lib.hetero)).ok()
                && serde_json::to_value(br).ok() == serde_json::to_value(wb.then(|| typed_vec::<BinaryRecord<String, f64>>(&lib.bin_hetero))).ok();
            m.check_bool("serde:records()", &format!("{tag}:hetero|records()"), case, same, || json!({"substances": names}));
            match (gc_behaviour_eos(p1, 2), gc_behaviour_eos(p2, 2)) {
                (Some(a), Some(b)) => {
                    m.check("serde:behaviour", &format!("{tag}:hetero|behaviour"), case, vdev(&a, &b), TOL_REREAD, || json!({"substances": names, "original": a, "reread": b}));
                }
                _ => m.skip("serde:behaviour", "model not evaluable"),
            }
        }
        // homo
        let wbh = !lib.bin_homo.is_empty();
        let hom = |l: &SegLib, s: &[Value]| {
            quiet(|| PcSaftParameters::from_segments(sel(s), typed_vec::<SegmentRecord<PcSaftRecord>>(&l.homo), wbh.then(|| typed_vec(&l.bin_homo))).ok()).ok().flatten()
        };
        if let (Some(p1), Some(p2)) = (hom(lib, &subs), hom(&lib2, &subs2)) {
            m.case("serde:gc-homo", hash_str(&format!("{}{i}h", lib.label)), true);
            match (homo_behaviour(p1, 2), homo_behaviour(p2, 2)) {
                (Some(a), Some(b)) => {
                    m.check("serde:behaviour", &format!("{tag}:homo|behaviour"), case, vdev(&a, &b), TOL_REREAD, || json!({"substances": names, "original": a, "reread": b}));
                }
                _ => m.skip("serde:behaviour", "model not evaluable"),
            }
        }
        // joback
        let jb = |l: &SegLib, s: &[Value]| quiet(|| Joback::from_segments(sel(s), typed_vec::<SegmentRecord<JobackRecord>>(&l.joback), None).ok()).ok().flatten();
        if let (Some(p1), Some(p2)) = (jb(lib, &subs), jb(&lib2, &subs2)) {
            if let (Some(a), Some(b)) = (ideal_behaviour(&p1), ideal_behaviour(&p2)) {
                m.check("serde:behaviour", &format!("{tag}:joback|behaviour"), case, vdev(&a, &b), TOL_REREAD, || json!({"substances": names, "original": a, "reread": b}));
            }
        }
    });
}

// ---------------------------------------------------------------------------------------
// driver
// ---------------------------------------------------------------------------------------

fn default_binary_synth<K: MK>(m: &mut Monitor, cfg: &Config, kidx: u64)
where
    Pu<K>: Serialize,
{
    let mut rng = Rng::derive(cfg.seed, "c14-default", kidx);
    let truth = synth_truth::<K>(&mut rng, 6);
    let all: Vec<usize> = (0..6).collect();
    for k in 0..cfg.tier.pick(6, 40) {
        let q = sample_ordered(&mut rng, &all, 3);
        let recs: Vec<Value> = q.iter().map(|&i| truth.pure[i].clone()).collect();
        default_matrix_equivalence::<K>(m, 400_000 + kidx * 100 + k, &format!("synthetic:{}", K::NAME), &recs);
    }
}

/// Binary records that carry association parameters for one pair of sites: the shipped files
/// contain none with non-default site indices, so synthetic ones are round-tripped:
/// JSON -> record -> JSON -> record -> JSON must keep k_ij, the association parameters and
/// the site indices ([0,0] may be omitted, it is the default).
fn serde_binary_association(m: &mut Monitor, cfg: &Config) {
    fn round_trip<B: serde::de::DeserializeOwned + Serialize>(j0: &Value) -> Result<(Value, Value), String> {
        let r1: B = serde_json::from_value(j0.clone()).map_err(|e| e.to_string())?;
        let j1 = serde_json::to_value(&r1).map_err(|e| e.to_string())?;
        let r2: B = serde_json::from_value(j1.clone()).map_err(|e| e.to_string())?;
        let j2 = serde_json::to_value(&r2).map_err(|e| e.to_string())?;
        Ok((j1, j2))
    }
    let mut rng = Rng::derive(cfg.seed, "c14-binassoc", 0);
    let n = cfg.tier.pick(200, 20_000);
    for i in 0..n {
        let idx = if i < 16 { [(i / 4) as usize, (i % 4) as usize] } else { [rng.below(4), rng.below(4)] };
        let vr = i % 2 == 1;
        let mut j0 = json!({"k_ij": rng.range(-0.1, 0.1), "site_indices": idx});
        if vr {
            j0["gamma_ij"] = json!(rng.range(-0.1, 0.1));
            j0["rc_ab"] = json!(rng.range(0.2, 0.6));
            j0["epsilon_k_ab"] = json!(rng.range(1000.0, 3000.0));
        } else {
            j0["kappa_ab"] = json!(rng.range(0.001, 0.1));
            j0["epsilon_k_ab"] = json!(rng.range(1000.0, 3000.0));
        }
        let kind = if vr { "saftvrmie" } else { "pcsaft" };
        let case = 700_000 + i;
        let r = if vr { round_trip::<feos::saftvrmie::SaftVRMieBinaryRecord>(&j0) } else { round_trip::<feos::pcsaft::PcSaftBinaryRecord>(&j0) };
        let (j1, j2) = match r {
            Ok(x) => x,
            Err(e) => {
                m.check_bool("serde-binary:association record round trip", &format!("{kind}|binary association|parse"), case, false, || json!({"json": j0, "error": e}));
                continue;
            }
        };
        let idx_of = |j: &Value| j.get("site_indices").and_then(|v| serde_json::from_value::<[usize; 2]>(v.clone()).ok()).unwrap_or([0, 0]);
        let same_num = |a: &Value, b: &Value, k: &str| match (a.get(k).and_then(|x| x.as_f64()), b.get(k).and_then(|x| x.as_f64())) {
            (Some(x), Some(y)) => (x - y).abs() <= 4.0 * f64::EPSILON * x.abs(),
            (None, None) => true,
            _ => false,
        };
        let keys_ok = ["k_ij", "gamma_ij", "rc_ab", "kappa_ab", "epsilon_k_ab"].iter().all(|k| same_num(&j0, &j1, k) && same_num(&j1, &j2, k));
        let ok = idx_of(&j1) == idx && idx_of(&j2) == idx && keys_ok;
        m.check_bool("serde-binary:association record round trip", &format!("{kind}|binary association|site_indices {}", if idx == [0, 0] { "default" } else { "non-default" }), case, ok, || json!({"json": j0, "after one round trip": j1, "after two": j2}));
    }
}

pub fn run(cfg: Config) -> i32 {
    let mut m = Monitor::new(cfg.clone());
    let dir = std::env::temp_dir().join(format!(
        "fv_c14_{}_{}_{}",
        std::process::id(),
        cfg.seed,
        std::time::SystemTime::now().duration_since(std::time::UNIX_EPOCH).map_or(0, |d| d.as_nanos())
    ));
    std::fs::create_dir_all(&dir).expect("temporary directory");
    // panics of the library are caught and judged; keep stderr quiet meanwhile
    let hook = std::panic::take_hook();
    std::panic::set_hook(Box::new(|_| {}));

    // ---- json: synthetic collections, every model kind
    run_json_synth::<KPcSaft>(&mut m, &cfg, &dir, 1);
    run_json_synth::<KEPcSaft>(&mut m, &cfg, &dir, 2);
    run_json_synth::<KPets>(&mut m, &cfg, &dir, 3);
    run_json_synth::<KUv>(&mut m, &cfg, &dir, 4);
    run_json_synth::<KVrMie>(&mut m, &cfg, &dir, 5);
    run_json_synth::<KVrqMie>(&mut m, &cfg, &dir, 6);
    run_json_synth::<KPr>(&mut m, &cfg, &dir, 7);
    run_json_synth::<KJoback>(&mut m, &cfg, &dir, 8);
    run_json_synth::<KDippr>(&mut m, &cfg, &dir, 9);

    // ---- json: shipped collections (rehner2023_binary.json is empty in this tree: skipped)
    run_json_shipped::<KPcSaft>(&mut m, &cfg, 11, "pcsaft/gross2001+2002", "pcsaft", &["gross2001.json", "gross2002.json"], Some("gross2002_binary.json"));
    run_json_shipped::<KPcSaft>(&mut m, &cfg, 12, "pcsaft/esper2023", "pcsaft", &["esper2023.json"], None);
    run_json_shipped::<KPcSaft>(
        &mut m,
        &cfg,
        13,
        "pcsaft/misc",
        "pcsaft",
        &["gross2005_fit.json", "gross2005_literature.json", "gross2006.json", "loetgeringlin2018.json", "rehner2020.json", "eller2022.json"],
        None,
    );
    run_json_shipped::<KEPcSaft>(&mut m, &cfg, 14, "epcsaft/held2014", "epcsaft", &["held2014_w_permittivity_added.json"], Some("held2014_binary.json"));
    run_json_shipped::<KVrMie>(&mut m, &cfg, 15, "saftvrmie/lafitte2013", "saftvrmie", &["lafitte2013.json"], None);
    run_json_shipped::<KVrqMie>(&mut m, &cfg, 16, "saftvrqmie/aasen2019", "saftvrqmie", &["aasen2019.json"], Some("aasen2020_binary.json"));
    run_json_shipped::<KVrqMie>(&mut m, &cfg, 17, "saftvrqmie/aasen2019_fh2", "saftvrqmie", &["aasen2019_fh2.json"], Some("aasen2020_binary_fh2.json"));
    run_json_shipped::<KVrqMie>(&mut m, &cfg, 18, "saftvrqmie/hammer2023", "saftvrqmie", &["hammer2023.json"], None);
    run_json_shipped::<KDippr>(&mut m, &cfg, 19, "ideal_gas/poling2000", "ideal_gas", &["poling2000.json"], None);

    // ---- "no binary records" == "all binary records default"
    default_binary_synth::<KPcSaft>(&mut m, &cfg, 1);
    default_binary_synth::<KEPcSaft>(&mut m, &cfg, 2);
    default_binary_synth::<KPets>(&mut m, &cfg, 3);
    default_binary_synth::<KUv>(&mut m, &cfg, 4);
    default_binary_synth::<KVrMie>(&mut m, &cfg, 5);
    default_binary_synth::<KVrqMie>(&mut m, &cfg, 6);
    default_binary_synth::<KPr>(&mut m, &cfg, 7);
    {
        let held = load_json_array(&params_dir().join("epcsaft").join("held2014_w_permittivity_added.json"));
        let z = |r: &Value| r["model_record"]["z"].as_f64().unwrap_or(0.0);
        let water: Vec<&Value> = held.iter().filter(|r| r["identifier"]["name"] == "water").collect();
        let cat: Vec<&Value> = held.iter().filter(|r| z(r) == 1.0).collect();
        let an: Vec<&Value> = held.iter().filter(|r| z(r) == -1.0).collect();
        let mut rng = Rng::derive(cfg.seed, "c14-default-held", 0);
        if let Some(w) = water.first() {
            for k in 0..cfg.tier.pick(6, 30) {
                let named = |pool: &[&Value], n: &str| pool.iter().find(|r| r["identifier"]["name"] == n).map(|r| (*r).clone());
                let (c, a) = match (k, named(&cat, "sodium ion"), named(&an, "chloride ion")) {
                    (0, Some(c), Some(a)) => (c, a),
                    _ => ((*rng.choose(&cat)).clone(), (*rng.choose(&an)).clone()),
                };
                let recs = vec![(*w).clone(), c, a];
                default_matrix_equivalence::<KEPcSaft>(&mut m, 401_000 + k, "shipped:epcsaft+ions", &recs);
            }
        }
    }

    // ---- group contribution
    let mut rng = Rng::derive(cfg.seed, "c14-gc", 0);
    let libs: Vec<Arc<SegLib>> = vec![
        Arc::new(synth_seglib(&mut rng)),
        Arc::new(shipped_seglib("sauer2014", "sauer2014_homo.json", "sauer2014_hetero.json", None, None)),
        Arc::new(shipped_seglib("rehner2023", "rehner2023_homo.json", "rehner2023_hetero.json", Some("rehner2023_homo_binary.json"), Some("rehner2023_hetero_binary.json"))),
        Arc::new({
            let mut l = shipped_seglib("loetgeringlin2015", "loetgeringlin2015_homo.json", "sauer2014_hetero.json", None, None);
            l.hetero.clear();
            l.joback.clear();
            l
        }),
    ];
    for l in &libs {
        m.gate(!l.homo.is_empty(), &format!("segment library {} could not be read", l.label));
    }
    let (nsyn, nship, nperm, reps) = cfg.tier.pick((60, 25, 24, 2), (2000, 500, 120, 3));
    let mut gcs = Vec::new();
    for k in 0..nsyn {
        let nm = 1 + rng.below(3);
        gcs.push(GcCase { lib: libs[0].clone(), mols: (0..nm).map(|i| random_mol(&mut rng, &libs[0], i, nm, true)).collect(), with_binary: rng.bool(0.7) || k == 0 });
    }
    for l in &libs[1..] {
        let pool = shipped_mols(l, !l.hetero.is_empty());
        m.gate(pool.len() >= 10, &format!("fewer than 10 shipped substances can be assembled from {}", l.label));
        if pool.is_empty() {
            continue;
        }
        for _ in 0..nship {
            let nm = 1 + rng.below(3);
            let mut idx = rng.permutation(pool.len());
            idx.truncate(nm);
            gcs.push(GcCase { lib: l.clone(), mols: idx.iter().map(|&i| pool[i].clone()).collect(), with_binary: !l.bin_homo.is_empty() && rng.bool(0.8) });
        }
    }
    let seed = cfg.seed;
    par_cases(&mut m, &gcs, |m, ci, c| gc_case(m, seed, ci, c, nperm, reps));
    let (njson, nmol) = cfg.tier.pick((2usize, 4usize), (6, 5));
    let jcases: Vec<usize> = (0..njson).collect();
    let synth = libs[0].clone();
    par_cases(&mut m, &jcases, |m, ci, _| gc_json_case(m, seed, ci, &dir, &synth, nmol));

    // the same rejected queries on the shipped files (fixed, minimal)
    {
        let d = params_dir().join("pcsaft");
        let (fc, fh, fg) = (d.join("gc_substances.json"), d.join("sauer2014_homo.json"), d.join("sauer2014_hetero.json"));
        let q = ["propane", "butane", "propane"];
        let det = json!({"identifier_option": "name", "query": q, "files": ["gc_substances.json", "sauer2014_*.json"]});
        let got = quiet(|| PcSaftParameters::from_json_segments(&q, &fc, &fh, None, IdentifierOption::Name));
        judge_err(&mut m, 290_000, "gc-json:duplicate", "gc-homo:from_json_segments", "IncompatibleParameters", got, |p| p.m.len(), det.clone());
        let got = quiet(|| GcPcSaftEosParameters::from_json_segments(&q, &fc, &fg, None, IdentifierOption::Name));
        judge_err(&mut m, 290_001, "gc-json:duplicate", "gc-hetero:from_json_segments", "IncompatibleParameters", got, |p| p.molarweight.len(), det.clone());
        let got = quiet(|| GcPcSaftFunctionalParameters::from_json_segments(&q, &fc, &fg, None, IdentifierOption::Name));
        judge_err(&mut m, 290_002, "gc-json:duplicate", "gc-hetero-functional:from_json_segments", "IncompatibleParameters", got, |p| p.molarweight.len(), det);
        let q = ["propane", "no-such-substance"];
        let got = quiet(|| PcSaftParameters::from_json_segments(&q, &fc, &fh, None, IdentifierOption::Name));
        judge_err(&mut m, 290_003, "gc-json:missing", "gc-homo:from_json_segments", "ComponentsNotFound", got, |p| p.m.len(), json!({"query": q}));
        let got = quiet(|| GcPcSaftEosParameters::from_json_segments(&q, &fc, &fg, None, IdentifierOption::Name));
        judge_err(&mut m, 290_004, "gc-json:missing", "gc-hetero:from_json_segments", "ComponentsNotFound", got, |p| p.molarweight.len(), json!({"query": q}));
    }

    // ---- serde round trip of every shipped record
    for (k, f) in crate::zoo::PCSAFT_PURE_FILES.iter().enumerate() {
        let bin = (*f == "gross2002.json").then_some("gross2002_binary.json");
        serde_pure::<KPcSaft>(&mut m, k as u64, "pcsaft", "pcsaft", f, bin, &["gross2001.json", "gross2002.json"]);
    }
    serde_pure::<KEPcSaft>(&mut m, 10, "epcsaft", "epcsaft", "held2014_w_permittivity_added.json", Some("held2014_binary.json"), &["held2014_w_permittivity_added.json"]);
    serde_pure::<KVrMie>(&mut m, 11, "saftvrmie", "saftvrmie", "lafitte2013.json", None, &[]);
    serde_pure::<KVrqMie>(&mut m, 12, "saftvrqmie", "saftvrqmie", "aasen2019.json", Some("aasen2020_binary.json"), &["aasen2019.json"]);
    serde_pure::<KVrqMie>(&mut m, 13, "saftvrqmie", "saftvrqmie", "aasen2019_fh2.json", Some("aasen2020_binary_fh2.json"), &["aasen2019_fh2.json"]);
    serde_pure::<KVrqMie>(&mut m, 14, "saftvrqmie", "saftvrqmie", "hammer2023.json", None, &[]);
    serde_pure::<KDippr>(&mut m, 15, "dippr", "ideal_gas", "poling2000.json", None, &[]);
    for l in &libs[1..] {
        serde_gc(&mut m, l);
    }

    serde_binary_association(&mut m, &cfg);

    std::panic::set_hook(hook);
    let _ = std::fs::remove_dir_all(&dir);
    m.note("temporary_directory_removed", json!(!dir.exists()));

    for (clause, least) in [
        ("json:order+records", 2000),
        ("json:kij", 1000),
        ("json:behaviour", 1000),
        ("json:duplicate", 100),
        ("json:missing", 100),
        ("gc-hetero:permutation", 500),
        ("gc-hetero:reference", 50),
        ("gc-homo:permutation", 500),
        ("gc-homo:reference", 50),
        ("gc-json-hetero:parameters", 50),
        ("gc-json-homo:parameters", 50),
        ("serde:reread", 2000),
        ("serde:behaviour", 2000),
        ("default-binary", 30),
    ] {
        m.gate(m.clause_checked(clause) >= least, &format!("fewer than {least} evaluations of {clause}"));
    }
    for key in ["kij_entries_found_in_file", "kij_entries_found_stored_reversed", "kij_entries_default"] {
        m.gate(m.notes.get(key).and_then(|v| v.as_u64()).unwrap_or(0) >= 100, &format!("fewer than 100 {key}"));
    }
    m.finish(
        "json: per model kind (pcsaft, epcsaft, pets, uvtheory, saftvrmie, saftvrqmie, pr, joback, dippr) a synthetic collection (5 quick / 7 thorough substances; identifier strings of different kinds collide, ~10 % absent; 60 % of the pairs have a binary record) written in 2-3 file variants (record order shuffled, binary orientation flipped), queried with EVERY ordered subset up to size 4 x every IdentifierOption through from_json, sampled two-file queries through from_multiple_json, plus sampled queries on the shipped files; gc: random chemical records (1-3 molecules, <= 8 segments, random bond lists) on a synthetic segment library and shipped substances on sauer2014/rehner2023/loetgeringlin2015, each rebuilt in all (<= 4 segments) or 24/120 sampled permutations of the segment list, every construction repeated 2-3 times; serde: every shipped record of every model type. distinct by hash of (collection, identifier kind, query) resp. chemical records; non-trivial: >= 2 components resp. >= 3 segments",
        false,
        &[
            "a record is identified through the identifier kind selected by the user; substances whose identifier of that kind is not unique in a shipped file are not queried",
            "when a shipped binary file stores a pair twice with different values the k_ij oracle is skipped",
            "heterosegmented parameter rows are recognised by (component, sigma, epsilon_k); this is unique in all segment libraries used",
            "a zero-valued optional field that is omitted on serialisation counts as reproduced (documented default)",
        ],
    )
}
