//! C18 — a solved density profile is a stationary point and meets its specification.
//!
//! Workload: planar vapour-liquid interfaces (PC-SAFT pure / full FMT / binary, PeTS,
//! heterosegmented gc-PC-SAFT) at T in [0.5,0.95] T_c and slit / cylindrical / spherical
//! pores (LJ 9-3, Steele, hard wall) at sub-saturation or supercritical bulk states, solved
//! with random chains of Picard / Anderson / Newton stages (log and non-log, tolerances
//! 1e-6..1e-11, short and long iteration budgets) from tanh / pDGT / previous-solution
//! initial profiles. Oracles on every `Ok`: the Euler-Lagrange residual recomputed by the
//! harness is below the tolerance of the last stage, the density is finite and positive,
//! the stage trace (hook `Site::DftStage*`) ends with a converged last stage (and an
//! `Err(NotConverged)` with a non-converged one), the default specification leaves the
//! bulk state untouched; Picard / Anderson / Newton solutions of the same system agree on
//! gamma resp. N and Omega; `Moles` / `TotalMoles` specifications return the specified
//! amount whenever Ok and must be Ok on a deterministic mini-grid of standard cases.
use crate::fd::serr;
use crate::monitor::*;
use crate::prng::{hash_str, Rng};
use crate::zoo::*;
use feos::gc_pcsaft::{GcPcSaftFunctional, GcPcSaftFunctionalParameters};
use feos::hard_sphere::FMTVersion;
use feos::pcsaft::PcSaftFunctional;
use feos::pets::{PetsFunctional, PetsParameters};
use feos_core::parameter::{Parameter, ParameterHetero};
use feos_core::verif::{trace_begin, trace_end, Site};
use feos_core::{EosError, PhaseEquilibrium, ReferenceSystem, State};
use feos_dft::adsorption::{ExternalPotential, FluidParameters, Pore1D, PoreProfile1D, PoreSpecification};
use feos_dft::interface::PlanarInterface;
use feos_dft::{DFTProfile, DFTSolver, DFTSpecifications, Geometry, HelmholtzEnergyFunctional};
use ndarray::{Array1, Ix1};
use quantity::*;
use serde::Serialize;
use serde_json::{json, Value};
use std::panic::{catch_unwind, AssertUnwindSafe};
use std::sync::Arc;

/// residual < tolerance of the last stage; the factor allows for re-evaluation rounding
const TOL_RESIDUAL_FACTOR: f64 = 10.0;
/// solver families agree on gamma resp. N, Omega (all driven to 1e-13); measured worst over the
/// thorough run: planar 3.7e-9, slit 4.7e-7, sphere 1.7e-7
const TOL_FAMILIES_PLANAR: f64 = 1e-6;
const TOL_FAMILIES_PORE: f64 = 5e-5;
/// specified amounts are met: |N - n| / n relative to the a-posteriori bound implied by the
/// residual of the returned profile (`amount_bound`) plus 1e-10
const TOL_MOLES: f64 = 2.0;
/// constrained (fix_equimolar_surface) and free interface have the same surface tension
const TOL_GAMMA_FIXED: f64 = 1e-3;
/// default specification: bulk state unchanged (conversion to SI and back only)
const TOL_BULK: f64 = 1e-14;

// ---------------------------------------------------------------------------------------
// functionals (concrete types: pores need `FluidParameters`, which `ResidualModel` lacks)
// ---------------------------------------------------------------------------------------

pub trait Dft: HelmholtzEnergyFunctional + FluidParameters {}
impl<T: HelmholtzEnergyFunctional + FluidParameters> Dft for T {}

pub fn fmt_version(k: u8) -> FMTVersion {
    match k {
        0 => FMTVersion::WhiteBear,
        1 => FMTVersion::KierlikRosinberg,
        _ => FMTVersion::AntiSymWhiteBear,
    }
}

/// PC-SAFT functional of shipped gross2001.. records; `fmt` None = `PcSaftFunctional::new`
/// (specialised pure-component contributions for a pure fluid), Some(v) = `new_full`.
pub fn pcsaft_functional(names: &[&str], kij: Option<f64>, fmt: Option<u8>) -> Option<Arc<PcSaftFunctional>> {
    thread_local! {
        static GROSS: Vec<Shipped> = shipped_pcsaft(GROSS_FILES);
    }
    let pure: Vec<Value> = GROSS.with(|g| {
        names
            .iter()
            .map(|n| g.iter().find(|s| s.name == *n).map(|s| s.record.clone()))
            .collect::<Option<Vec<_>>>()
    })?;
    let n = pure.len();
    let mut spec = Spec::new(Kind::PcSaftFunctional, pure);
    if let Some(k) = kij {
        spec.binary = Some(scalar_matrix(n, |_, _| json!({"k_ij": k}), json!({"k_ij": 0.0})));
    }
    let p = Arc::new(spec.pcsaft_parameters().ok()?);
    Some(Arc::new(match fmt {
        None => PcSaftFunctional::new(p),
        Some(v) => PcSaftFunctional::new_full(p, fmt_version(v)),
    }))
}

pub fn pets_functional(sigma: f64, eps: f64) -> Option<Arc<PetsFunctional>> {
    let rec = serde_json::from_value(pets_record("pets", sigma, eps, 40.0)).ok()?;
    let p = PetsParameters::from_records(vec![rec], None).ok()?;
    Some(Arc::new(PetsFunctional::new(Arc::new(p))))
}

pub fn gc_functional(names: &[&str]) -> Option<Arc<GcPcSaftFunctional>> {
    thread_local! {
        static GC: Vec<Shipped> = shipped("pcsaft", "gc_substances.json");
    }
    let pure: Vec<Value> = GC.with(|g| {
        names
            .iter()
            .map(|n| g.iter().find(|s| s.name == *n).map(|s| s.record.clone()))
            .collect::<Option<Vec<_>>>()
    })?;
    let spec = Spec::new(Kind::GcPcSaftFunctional, pure);
    let (c, s, b) = spec.gc_inputs().ok()?;
    let p = GcPcSaftFunctionalParameters::from_segments(c, s, b).ok()?;
    Some(Arc::new(GcPcSaftFunctional::new(Arc::new(p))))
}

/// Serialisable description of a fluid.
#[derive(Clone, Debug, Serialize)]
pub enum Fluid {
    PcSaft { names: Vec<String>, kij: Option<f64>, fmt: Option<u8> },
    Pets { sigma: f64, eps: f64 },
    Gc { names: Vec<String> },
}

impl Fluid {
    pub fn pc(names: &[&str], fmt: Option<u8>) -> Fluid {
        Fluid::PcSaft { names: names.iter().map(|s| s.to_string()).collect(), kij: None, fmt }
    }
    pub fn gc(names: &[&str]) -> Fluid {
        Fluid::Gc { names: names.iter().map(|s| s.to_string()).collect() }
    }
    /// which code path (used in signatures)
    pub fn tag(&self) -> &'static str {
        match self {
            Fluid::PcSaft { names, fmt, .. } => match (names.len(), fmt) {
                (1, None) => "pcsaft-pure",
                (1, Some(_)) => "pcsaft-full",
                _ => "pcsaft-binary",
            },
            Fluid::Pets { .. } => "pets",
            Fluid::Gc { names } => {
                if names.len() == 1 {
                    "gc-pcsaft"
                } else {
                    "gc-pcsaft-binary"
                }
            }
        }
    }
    /// pDGT initialisation is available for a single segment only
    pub fn single_segment(&self) -> bool {
        matches!(self, Fluid::PcSaft { names, .. } if names.len() == 1) || matches!(self, Fluid::Pets { .. })
    }
}

/// run `$body` with `$f: Arc<impl Dft>` built from the fluid description
#[macro_export]
macro_rules! with_functional {
    ($fluid:expr, $f:ident => $body:expr, $none:expr) => {
        match $fluid {
            $crate::c18::Fluid::PcSaft { names, kij, fmt } => {
                let nm: Vec<&str> = names.iter().map(|s| s.as_str()).collect();
                match $crate::c18::pcsaft_functional(&nm, *kij, *fmt) {
                    Some($f) => $body,
                    None => $none,
                }
            }
            $crate::c18::Fluid::Pets { sigma, eps } => match $crate::c18::pets_functional(*sigma, *eps) {
                Some($f) => $body,
                None => $none,
            },
            $crate::c18::Fluid::Gc { names } => {
                let nm: Vec<&str> = names.iter().map(|s| s.as_str()).collect();
                match $crate::c18::gc_functional(&nm) {
                    Some($f) => $body,
                    None => $none,
                }
            }
        }
    };
}

pub fn geo_name(g: Geometry) -> &'static str {
    match g {
        Geometry::Cartesian => "cartesian",
        Geometry::Cylindrical => "cylindrical",
        Geometry::Spherical => "spherical",
    }
}

/// (pseudo-)critical temperature: pure fluid or equimolar mixture
pub fn critical_temperature<F: Dft>(f: &Arc<F>) -> Option<Temperature> {
    let n = f.components();
    let moles = Moles::from_reduced(Array1::from_elem(n, 1.0 / n as f64));
    State::critical_point(f, Some(&moles), None, Default::default())
        .ok()
        .map(|s| s.temperature)
}

/// vapour-liquid equilibrium at `tr` T_c (binary: bubble point of the equimolar liquid)
pub fn vle_at<F: Dft>(f: &Arc<F>, tr: f64) -> Option<(PhaseEquilibrium<F, 2>, Temperature)> {
    let tc = critical_temperature(f)?;
    let t = tc * tr;
    let vle = if f.components() == 1 {
        PhaseEquilibrium::pure(f, t, None, Default::default()).ok()?
    } else {
        let x = Array1::from_elem(f.components(), 1.0 / f.components() as f64);
        PhaseEquilibrium::bubble_point(f, t, &x, None, None, Default::default()).ok()?
    };
    let (rv, rl) = (vle.vapor().density.to_reduced(), vle.liquid().density.to_reduced());
    (rv.is_finite() && rl.is_finite() && rl > 1.05 * rv).then_some((vle, tc))
}

// ---------------------------------------------------------------------------------------
// pores
// ---------------------------------------------------------------------------------------

#[derive(Clone, Debug, Serialize)]
pub enum Pot {
    LJ93 { sigma_ss: f64, epsilon_k_ss: f64, rho_s: f64 },
    SimpleLJ93 { sigma_ss: f64, epsilon_k_ss: f64 },
    Steele { sigma_ss: f64, epsilon_k_ss: f64, rho_s: f64 },
    HardWall { sigma_ss: f64 },
}

impl Pot {
    pub fn build(&self) -> ExternalPotential {
        match *self {
            Pot::LJ93 { sigma_ss, epsilon_k_ss, rho_s } => ExternalPotential::LJ93 { sigma_ss, epsilon_k_ss, rho_s },
            Pot::SimpleLJ93 { sigma_ss, epsilon_k_ss } => ExternalPotential::SimpleLJ93 { sigma_ss, epsilon_k_ss },
            Pot::Steele { sigma_ss, epsilon_k_ss, rho_s } => ExternalPotential::Steele { sigma_ss, epsilon_k_ss, rho_s, xi: None },
            Pot::HardWall { sigma_ss } => ExternalPotential::HardWall { sigma_ss },
        }
    }
    pub fn name(&self) -> &'static str {
        match self {
            Pot::LJ93 { .. } => "lj93",
            Pot::SimpleLJ93 { .. } => "simplelj93",
            Pot::Steele { .. } => "steele",
            Pot::HardWall { .. } => "hardwall",
        }
    }
    pub fn random(rng: &mut Rng) -> Pot {
        match rng.below(6) {
            0 | 1 => Pot::LJ93 { sigma_ss: rng.range(2.8, 3.6), epsilon_k_ss: rng.range(10.0, 150.0), rho_s: 0.08 },
            2 | 3 => Pot::Steele { sigma_ss: 3.40, epsilon_k_ss: rng.range(15.0, 35.0), rho_s: 0.114 },
            4 => Pot::SimpleLJ93 { sigma_ss: rng.range(2.8, 3.6), epsilon_k_ss: rng.range(50.0, 400.0) },
            _ => Pot::HardWall { sigma_ss: rng.range(2.8, 3.6) },
        }
    }
}

#[derive(Clone, Debug, Serialize)]
pub struct PoreDesc {
    /// 0 cartesian (slit, full width), 1 cylindrical (radius), 2 spherical (radius)
    pub geometry: u8,
    pub size: f64,
    pub pot: Pot,
    pub n_grid: usize,
}

impl PoreDesc {
    pub fn geometry(&self) -> Geometry {
        match self.geometry {
            0 => Geometry::Cartesian,
            1 => Geometry::Cylindrical,
            _ => Geometry::Spherical,
        }
    }
    pub fn build(&self) -> Pore1D {
        Pore1D::new(self.geometry(), Length::from_reduced(self.size), self.pot.build(), Some(self.n_grid), None)
    }
    pub fn random(rng: &mut Rng) -> PoreDesc {
        let geometry = rng.below(3) as u8;
        let size = if geometry == 0 { rng.range(12.0, 40.0) } else { rng.range(8.0, 25.0) };
        let mut pot = Pot::random(rng);
        // SimpleLJ93 is `unimplemented!()` in curved geometries
        while geometry != 0 && matches!(pot, Pot::SimpleLJ93 { .. }) {
            pot = Pot::random(rng);
        }
        PoreDesc { geometry, size, pot, n_grid: *rng.choose(&[256, 512, 1024]) }
    }
    pub fn tag(&self) -> String {
        format!("pore-{}-{}", geo_name(self.geometry()), self.pot.name())
    }
}

/// Bulk state of a pore case: T = tr T_c; density = frac * saturated-vapour density
/// (tr < 1) or frac * critical density (tr >= 1); mole fractions x (first component).
#[derive(Clone, Debug, Serialize)]
pub struct BulkDesc {
    pub tr: f64,
    pub frac: f64,
    pub x0: f64,
}

pub fn bulk_state<F: Dft>(f: &Arc<F>, b: &BulkDesc) -> Option<State<F>> {
    let n = f.components();
    let x = if n == 1 { Array1::from_elem(1, 1.0) } else { Array1::from_vec(vec![b.x0, 1.0 - b.x0]) };
    let moles = Moles::from_reduced(x.clone());
    let sc = State::critical_point(f, Some(&moles), None, Default::default()).ok()?;
    let t = sc.temperature * b.tr;
    let rho_ref = if b.tr < 1.0 {
        let vle = if n == 1 {
            PhaseEquilibrium::pure(f, t, None, Default::default()).ok()?
        } else {
            PhaseEquilibrium::dew_point(f, t, &x, None, None, Default::default()).ok()?
        };
        vle.vapor().density.to_reduced()
    } else {
        sc.density.to_reduced()
    };
    let rho = rho_ref * b.frac;
    // (dew points of strongly asymmetric mixtures can come back with densities ~1e-290)
    (rho.is_finite() && rho > 1e-9)
        .then(|| State::new_nvt(f, t, Volume::from_reduced(1.0 / rho), &moles).ok())
        .flatten()
}

// ---------------------------------------------------------------------------------------
// solver chains
// ---------------------------------------------------------------------------------------

#[derive(Clone, Debug, Serialize)]
pub enum Stage {
    Picard { log: bool, max_iter: usize, tol: f64, damping: Option<f64> },
    Anderson { log: bool, max_iter: usize, tol: f64, damping: f64, mmax: usize },
    Newton { log: bool, max_iter: usize, max_iter_gmres: usize, tol: f64 },
}

impl Stage {
    pub fn tol(&self) -> f64 {
        match self {
            Stage::Picard { tol, .. } | Stage::Anderson { tol, .. } | Stage::Newton { tol, .. } => *tol,
        }
    }
    pub fn name(&self) -> &'static str {
        match self {
            Stage::Picard { log: false, .. } => "picard",
            Stage::Picard { log: true, .. } => "picard-log",
            Stage::Anderson { log: false, .. } => "anderson",
            Stage::Anderson { log: true, .. } => "anderson-log",
            Stage::Newton { log: false, .. } => "newton",
            Stage::Newton { log: true, .. } => "newton-log",
        }
    }
}

#[derive(Clone, Debug, Serialize)]
pub struct Chain(pub Vec<Stage>);

impl Chain {
    pub fn build(&self) -> DFTSolver {
        let mut s = DFTSolver::new(None);
        for st in &self.0 {
            s = match *st {
                Stage::Picard { log, max_iter, tol, damping } => s.picard_iteration(Some(log), Some(max_iter), Some(tol), damping),
                Stage::Anderson { log, max_iter, tol, damping, mmax } => {
                    s.anderson_mixing(Some(log), Some(max_iter), Some(tol), Some(damping), Some(mmax))
                }
                Stage::Newton { log, max_iter, max_iter_gmres, tol } => s.newton(Some(log), Some(max_iter), Some(max_iter_gmres), Some(tol)),
            };
        }
        s
    }
    pub fn last(&self) -> &Stage {
        self.0.last().unwrap()
    }
    pub fn random(rng: &mut Rng) -> Chain {
        let n = 1 + rng.below(3);
        let tol_final = 10f64.powf(-rng.range(6.0, 11.0));
        let stages = (0..n)
            .map(|k| {
                let tol = if k + 1 == n { tol_final } else { 10f64.powf(-rng.range(2.0, 8.0)) };
                match rng.below(3) {
                    0 => Stage::Picard {
                        log: rng.bool(0.5),
                        max_iter: *rng.choose(&[10, 50, 200, 400]),
                        tol,
                        damping: if rng.bool(0.3) { Some(rng.range(0.01, 0.3)) } else { None },
                    },
                    1 => Stage::Anderson {
                        log: rng.bool(0.5),
                        max_iter: *rng.choose(&[20, 50, 150, 400]),
                        tol,
                        damping: rng.range(0.05, 0.3),
                        mmax: *rng.choose(&[5, 20, 100]),
                    },
                    _ => Stage::Newton {
                        log: rng.bool(0.5),
                        max_iter: *rng.choose(&[5, 20, 50]),
                        max_iter_gmres: *rng.choose(&[50, 200]),
                        tol,
                    },
                }
            })
            .collect();
        Chain(stages)
    }
    /// the three solver families, all driven to `tol`
    pub fn families(tol: f64) -> Vec<(&'static str, Chain)> {
        vec![
            (
                "picard",
                Chain(vec![Stage::Picard { log: false, max_iter: 4000, tol, damping: None }]),
            ),
            (
                "anderson",
                Chain(vec![
                    Stage::Anderson { log: true, max_iter: 50, tol: 1e-5, damping: 0.15, mmax: 100 },
                    Stage::Anderson { log: false, max_iter: 600, tol, damping: 0.15, mmax: 100 },
                ]),
            ),
            (
                "newton",
                Chain(vec![Stage::Newton { log: true, max_iter: 50, max_iter_gmres: 200, tol }]),
            ),
            (
                "picard+newton",
                Chain(vec![
                    Stage::Picard { log: false, max_iter: 20, tol: 1e-4, damping: None },
                    Stage::Newton { log: false, max_iter: 50, max_iter_gmres: 200, tol },
                ]),
            ),
        ]
    }
}

// ---------------------------------------------------------------------------------------
// cases
// ---------------------------------------------------------------------------------------

#[derive(Clone, Debug, Serialize)]
enum Init {
    Tanh,
    Pdgt,
    Previous,
}

#[derive(Clone, Debug, Serialize)]
enum Work {
    PlanarChain { tr: f64, n_grid: usize, l_grid: f64, init: Init, chain: Chain },
    PoreChain { pore: PoreDesc, bulk: BulkDesc, previous: bool, chain: Chain },
    PlanarFamilies { tr: f64, n_grid: usize, l_grid: f64 },
    PoreFamilies { pore: PoreDesc, bulk: BulkDesc },
    /// planar interface with fix_equimolar_surface = true (TotalMoles), random chain
    PlanarFixed { tr: f64, n_grid: usize, l_grid: f64, pdgt: bool, chain: Option<Chain>, grid: bool },
    /// pore with Moles / TotalMoles = (1 + delta) x the amount of the free solution
    PoreSpec { pore: PoreDesc, bulk: BulkDesc, total: bool, delta: f64, chain: Option<Chain>, grid: bool },
}

#[derive(Clone, Debug, Serialize)]
struct Case {
    fluid: Fluid,
    work: Work,
}

fn planar_fluids() -> Vec<Fluid> {
    vec![
        Fluid::pc(&["propane"], None),
        Fluid::pc(&["methane"], None),
        Fluid::pc(&["butane"], None),
        Fluid::pc(&["propane"], Some(0)),
        Fluid::pc(&["ethane"], Some(1)),
        Fluid::Pets { sigma: 3.7, eps: 120.0 },
        Fluid::gc(&["propane"]),
        Fluid::pc(&["propane", "butane"], None),
    ]
}

fn pore_fluids() -> Vec<Fluid> {
    vec![
        Fluid::pc(&["methane"], None),
        Fluid::pc(&["propane"], None),
        Fluid::pc(&["methane"], Some(0)),
        Fluid::Pets { sigma: 3.7, eps: 120.0 },
        Fluid::gc(&["propane"]),
        Fluid::pc(&["methane", "ethane"], None),
    ]
}

fn random_bulk(rng: &mut Rng) -> BulkDesc {
    let tr = if rng.bool(0.5) { rng.range(0.6, 0.98) } else { rng.range(1.02, 1.5) };
    BulkDesc { tr, frac: rng.log_range(0.01, 0.3), x0: rng.range(0.1, 0.9) }
}

fn standard_pore(geometry: u8) -> PoreDesc {
    PoreDesc {
        geometry,
        size: if geometry == 0 { 20.0 } else { 12.0 },
        pot: Pot::LJ93 { sigma_ss: 3.0, epsilon_k_ss: 100.0, rho_s: 0.08 },
        n_grid: 512,
    }
}

fn build_cases(seed: u64, tier: Tier) -> Vec<Case> {
    let (n_planar, n_pore, n_pfam, n_ofam, n_spec) = tier.pick((240, 600, 48, 120, 120), (1500, 4000, 200, 600, 600));
    let mut cases = Vec::new();
    let pf = planar_fluids();
    let of = pore_fluids();
    for i in 0..n_planar {
        let mut rng = Rng::derive(seed, "c18-planar", i as u64);
        let fluid = pf[i % pf.len()].clone();
        let tr = rng.range(0.5, 0.95);
        let init = match rng.below(4) {
            0 | 1 => Init::Tanh,
            2 if fluid.single_segment() => Init::Pdgt,
            _ => Init::Previous,
        };
        cases.push(Case {
            fluid,
            work: Work::PlanarChain {
                tr,
                n_grid: *rng.choose(&[256, 512, 1024]),
                l_grid: rng.range(100.0, 250.0),
                init,
                chain: Chain::random(&mut rng),
            },
        });
    }
    for i in 0..n_pore {
        let mut rng = Rng::derive(seed, "c18-pore", i as u64);
        cases.push(Case {
            fluid: of[i % of.len()].clone(),
            work: Work::PoreChain {
                pore: PoreDesc::random(&mut rng),
                bulk: random_bulk(&mut rng),
                previous: rng.bool(0.25),
                chain: Chain::random(&mut rng),
            },
        });
    }
    for i in 0..n_pfam {
        let mut rng = Rng::derive(seed, "c18-pfam", i as u64);
        cases.push(Case {
            fluid: pf[i % pf.len()].clone(),
            work: Work::PlanarFamilies { tr: rng.range(0.5, 0.9), n_grid: *rng.choose(&[512, 1024]), l_grid: rng.range(180.0, 250.0) },
        });
    }
    for i in 0..n_ofam {
        let mut rng = Rng::derive(seed, "c18-ofam", i as u64);
        let mut bulk = random_bulk(&mut rng);
        if bulk.tr < 1.0 {
            // stay clear of capillary condensation, where two stationary points coexist
            bulk.frac = bulk.frac.min(0.05);
        }
        cases.push(Case { fluid: of[i % of.len()].clone(), work: Work::PoreFamilies { pore: PoreDesc::random(&mut rng), bulk } });
    }
    for i in 0..n_spec {
        let mut rng = Rng::derive(seed, "c18-spec", i as u64);
        // chains whose last stage updates the bulk density (Newton does not)
        let mut chain = Chain::random(&mut rng);
        if rng.bool(0.7) {
            while matches!(chain.last(), Stage::Newton { .. }) {
                chain = Chain::random(&mut rng);
            }
        }
        let chain = if rng.bool(0.3) { None } else { Some(chain) };
        if i % 3 == 0 {
            let fluid = pf[(i / 3) % pf.len()].clone();
            let pdgt = fluid.single_segment() && rng.bool(0.4);
            cases.push(Case {
                fluid,
                work: Work::PlanarFixed { tr: rng.range(0.5, 0.9), n_grid: *rng.choose(&[256, 512, 1024]), l_grid: rng.range(100.0, 200.0), pdgt, chain, grid: false },
            });
        } else {
            cases.push(Case {
                fluid: of[(i / 3) % of.len()].clone(),
                work: Work::PoreSpec {
                    pore: PoreDesc::random(&mut rng),
                    bulk: random_bulk(&mut rng),
                    total: rng.bool(0.5),
                    delta: rng.range(-0.05, 0.05),
                    chain,
                    grid: false,
                },
            });
        }
    }
    // deterministic mini-grid of standard cases (default solver): these must be Ok
    let pg = |fluid: Fluid, tr: f64, pdgt: bool| Case { fluid, work: Work::PlanarFixed { tr, n_grid: 512, l_grid: 100.0, pdgt, chain: None, grid: true } };
    cases.push(pg(Fluid::pc(&["propane"], None), 0.7, false));
    cases.push(pg(Fluid::pc(&["methane"], None), 0.6, false));
    cases.push(pg(Fluid::Pets { sigma: 3.7, eps: 120.0 }, 0.7, false));
    cases.push(pg(Fluid::gc(&["propane"]), 0.7, false));
    cases.push(pg(Fluid::pc(&["propane", "butane"], None), 0.7, false));
    cases.push(pg(Fluid::pc(&["propane"], None), 0.8, true));
    let og = |fluid: Fluid, geometry: u8, total: bool| Case {
        fluid,
        work: Work::PoreSpec { pore: standard_pore(geometry), bulk: BulkDesc { tr: 1.4, frac: 0.05, x0: 0.5 }, total, delta: 0.02, chain: None, grid: true },
    };
    cases.push(og(Fluid::pc(&["methane"], None), 0, false));
    cases.push(og(Fluid::pc(&["methane"], None), 0, true));
    cases.push(og(Fluid::pc(&["methane"], None), 2, false));
    cases.push(og(Fluid::pc(&["methane"], None), 1, true));
    cases.push(og(Fluid::pc(&["methane", "ethane"], None), 0, false));
    cases.push(og(Fluid::pc(&["methane", "ethane"], None), 0, true));
    cases
}

// ---------------------------------------------------------------------------------------
// oracles
// ---------------------------------------------------------------------------------------

fn stage_events(ev: &[Site]) -> Vec<bool> {
    ev.iter()
        .filter_map(|s| match s {
            Site::DftStageConverged => Some(true),
            Site::DftStageNotConverged => Some(false),
            _ => None,
        })
        .collect()
}

/// outcome of one monitored `solve`
pub enum Outcome {
    Ok,
    NotConverged,
    Err(String),
    Panic,
}

/// Solve with trace recording; `solve` is the library call (debug = false inside).
pub fn traced<R>(solve: impl FnOnce() -> Result<R, EosError>) -> (Outcome, Vec<bool>, Option<R>) {
    trace_begin();
    let r = catch_unwind(AssertUnwindSafe(solve));
    let ev = stage_events(&trace_end());
    match r {
        Ok(Ok(v)) => (Outcome::Ok, ev, Some(v)),
        Ok(Err(EosError::NotConverged(_))) => (Outcome::NotConverged, ev, None),
        Ok(Err(e)) => (Outcome::Err(e.to_string()), ev, None),
        Err(_) => (Outcome::Panic, ev, None),
    }
}

struct Ctx<'a> {
    case: u64,
    /// "<fluid path> <system>"
    sys: String,
    desc: &'a Case,
}

impl Ctx<'_> {
    fn sig(&self, clause: &str, detail: &str) -> String {
        if detail.is_empty() {
            format!("{}|{}", self.sys, clause)
        } else {
            format!("{}|{}|{}", self.sys, clause, detail)
        }
    }
}

/// oracles shared by every monitored solve of a profile with the default specification
#[allow(clippy::too_many_arguments)]
fn judge_solve<F: Dft>(
    m: &mut Monitor,
    cx: &Ctx,
    chain: &Chain,
    outcome: &Outcome,
    stages: &[bool],
    profile: &DFTProfile<Ix1, F>,
    bulk_before: Option<&Array1<f64>>,
) -> bool {
    let last = chain.last();
    let det = |extra: Value| {
        let d = cx.desc.clone();
        move || json!({"case": d, "observed": extra})
    };
    match outcome {
        Outcome::Panic => {
            m.check_bool("no panic", &cx.sig("panic", last.name()), cx.case, false, det(json!("panic in solve")));
            false
        }
        Outcome::Err(_) => {
            m.skip("stationary", "solver returned an error other than NotConverged");
            false
        }
        Outcome::NotConverged => {
            // debug = false: NotConverged must stem from a last stage that did not converge
            m.check_bool(
                "trace: NotConverged only after a non-converged last stage",
                &cx.sig("trace-notconverged", last.name()),
                cx.case,
                stages.len() == chain.0.len() && stages.last() == Some(&false),
                det(json!({"stages": stages})),
            );
            m.skip("stationary", "not converged");
            false
        }
        Outcome::Ok => {
            m.check_bool("no panic", &cx.sig("panic", last.name()), cx.case, true, || json!(null));
            m.check_bool(
                "trace: Ok only after a converged last stage",
                &cx.sig("trace-ok", last.name()),
                cx.case,
                stages.len() == chain.0.len() && stages.last() == Some(&true),
                det(json!({"stages": stages})),
            );
            // points with V_ext >= MAX_POTENTIAL (50 kT) are excluded from the iteration by the
            // library and keep their initial value; judge the iterated points, count the others
            let rho = profile.density.to_reduced();
            let mut min_in = f64::INFINITY;
            let mut finite = true;
            let mut wall_nonpositive = 0u64;
            for (r, v) in rho.iter().zip(profile.external_potential.iter()) {
                finite &= r.is_finite();
                if *v + f64::EPSILON >= 50.0 {
                    wall_nonpositive += (*r <= 0.0) as u64;
                } else {
                    min_in = min_in.min(*r);
                }
            }
            if wall_nonpositive > 0 {
                m.count("profiles with density <= 0 at excluded wall points", 1);
            }
            m.check_bool(
                "density finite and positive",
                &format!("density|{}|{}", cx.sys, last.name()),
                cx.case,
                finite && min_in > 0.0,
                det(json!({"min": fnum(min_in), "finite": finite})),
            );
            match profile.residual(false).map(|(r, rb, _)| own_norm(&r, &rb)) {
                Ok(res) => {
                    m.check(
                        "stationary: residual < tolerance of last stage",
                        &cx.sig("residual", last.name()),
                        cx.case,
                        res / last.tol(),
                        TOL_RESIDUAL_FACTOR,
                        det(json!({"residual": res, "tol": last.tol()})),
                    );
                }
                Err(e) => {
                    m.check_bool(
                        "stationary: residual < tolerance of last stage",
                        &cx.sig("residual-err", last.name()),
                        cx.case,
                        false,
                        det(json!({"error": e.to_string()})),
                    );
                }
            }
            if let Some(b0) = bulk_before {
                let b1 = profile.bulk.partial_density.to_reduced();
                let dev = b0.iter().zip(b1.iter()).map(|(a, b)| serr(*a, *b, 0.0)).fold(0.0, f64::max);
                let anderson = chain.0.iter().any(|s| matches!(s, Stage::Anderson { .. }));
                let path = if anderson { "anderson" } else { "other" };
                if anderson {
                    m.count("ok solves with an Anderson stage", 1);
                    for (k, t) in [("1e-14", 1e-14), ("1e-10", 1e-10), ("1e-6", 1e-6)] {
                        if dev > t {
                            m.count(&format!("ok solves with an Anderson stage: bulk density drift > {k}"), 1);
                        }
                    }
                }
                m.check(
                    "spec ChemicalPotential: bulk unchanged",
                    &format!("bulk-drift|{path}|unchanged|{}", cx.sys),
                    cx.case,
                    dev,
                    TOL_BULK,
                    det(json!({"before": b0.to_vec(), "after": b1.to_vec()})),
                );
                // the returned profile must be stationary for the *specified* bulk state
                let seg = profile.dft.component_index().mapv(|i| b0[i]);
                if let Ok((_, _, res, _, _)) = profile.verif_euler_lagrange_equation(&rho, &seg, false) {
                    m.check(
                        "stationary for the specified bulk state",
                        &format!("bulk-drift|{path}|residual|{}", cx.sys),
                        cx.case,
                        res / last.tol(),
                        TOL_RESIDUAL_FACTOR,
                        det(json!({"residual_at_specified_bulk": res, "tol": last.tol(), "bulk_drift": dev})),
                    );
                }
            }
            true
        }
    }
}

fn planar<F: Dft>(m: &mut Monitor, idx: u64, c: &Case, f: &Arc<F>) {
    let tag = c.fluid.tag();
    match &c.work {
        Work::PlanarChain { tr, n_grid, l_grid, init, chain } => {
            let cx = Ctx { case: idx, sys: format!("{tag} planar"), desc: c };
            let Some((vle, tc)) = vle_at(f, *tr) else {
                m.skip("stationary", "no phase equilibrium");
                return;
            };
            let l = Length::from_reduced(*l_grid);
            let mut pi = match init {
                Init::Tanh | Init::Previous => PlanarInterface::from_tanh(&vle, *n_grid, l, tc, false),
                Init::Pdgt => match catch_unwind(AssertUnwindSafe(|| PlanarInterface::from_pdgt(&vle, *n_grid, false))) {
                    Ok(Ok(p)) => p,
                    _ => {
                        m.skip("stationary", "pDGT initialisation failed");
                        return;
                    }
                },
            };
            if matches!(init, Init::Previous) {
                let pre = DFTSolver::new(None).anderson_mixing(Some(true), Some(200), Some(1e-5), None, None);
                if pi.solve_inplace(Some(&pre), false).is_err() {
                    m.skip("stationary", "preparatory solve failed");
                    return;
                }
            }
            let b0 = pi.profile.bulk.partial_density.to_reduced();
            let solver = chain.build();
            let (out, stages, _) = traced(|| pi.solve_inplace(Some(&solver), false));
            let ok = matches!(out, Outcome::Ok);
            m.case(&format!("{tag} planar"), hash_str(&format!("{:?}", c)), ok);
            if idx % 40 == 0 {
                m.sample(json!({"case": c, "ok": ok, "stages": stages, "gamma": pi.surface_tension.map(|g| g.to_reduced())}));
            }
            if judge_solve(m, &cx, chain, &out, &stages, &pi.profile, Some(&b0)) {
                m.count(&format!("ok last stage {}", chain.last().name()), 1);
                // a planar interface at fixed chemical potential is neutrally stable: a solver may
                // push it out of the box and return the (stationary) homogeneous phase
                let g = pi.surface_tension.map_or(f64::NAN, |g| g.to_reduced());
                if !(g > 1e-3) {
                    m.count("ok planar solves that lost the interface (homogeneous phase, gamma ~ 0)", 1);
                }
            }
        }
        Work::PlanarFamilies { tr, n_grid, l_grid } => {
            let cx = Ctx { case: idx, sys: format!("{tag} planar"), desc: c };
            let Some((vle, tc)) = vle_at(f, *tr) else {
                m.skip("families agree (skips)", "no phase equilibrium");
                return;
            };
            let mut res: Vec<(&str, f64)> = Vec::new();
            for (name, chain) in Chain::families(1e-13) {
                let mut pi = PlanarInterface::from_tanh(&vle, *n_grid, Length::from_reduced(*l_grid), tc, false);
                let solver = chain.build();
                let (out, stages, _) = traced(|| pi.solve_inplace(Some(&solver), false));
                m.case(&format!("{tag} planar families"), hash_str(&format!("{:?}{name}", c)), matches!(out, Outcome::Ok));
                if judge_solve(m, &cx, &chain, &out, &stages, &pi.profile, None) {
                    res.push((name, pi.surface_tension.map_or(f64::NAN, |g| g.to_reduced())));
                }
            }
            compare_families(m, &cx, "planar", "gamma", &res);
        }
        Work::PlanarFixed { tr, n_grid, l_grid, pdgt, chain, grid } => {
            let how = if *pdgt { "planar from_pdgt fix_equimolar_surface" } else { "planar from_tanh fix_equimolar_surface" };
            let sig = format!("spec|TotalMoles|{how}|{tag}");
            let Some((vle, tc)) = vle_at(f, *tr) else {
                m.skip("spec: amount met", "no phase equilibrium");
                m.gate(!*grid, &format!("mini-grid case {sig}: no phase equilibrium"));
                return;
            };
            let built = catch_unwind(AssertUnwindSafe(|| {
                if *pdgt {
                    PlanarInterface::from_pdgt(&vle, *n_grid, true)
                } else {
                    Ok(PlanarInterface::from_tanh(&vle, *n_grid, Length::from_reduced(*l_grid), tc, true))
                }
            }));
            let Ok(Ok(mut pi)) = built else {
                m.skip("spec: amount met", "initialisation failed");
                return;
            };
            // the specified amount: sum over segments of the initial profile
            let target = pi.profile.integrate_comp(&pi.profile.density).to_reduced().sum();
            let free = {
                let mut p = pi.clone();
                p.profile.specification = Arc::new(DFTSpecifications::ChemicalPotential);
                p.solve_inplace(None, false).ok().and(p.surface_tension).map(|g| g.to_reduced())
            };
            let solver = chain.as_ref().map(|c| c.build());
            let (out, _, _) = traced(|| pi.solve_inplace(solver.as_ref(), false));
            let ok = matches!(out, Outcome::Ok);
            m.case(&format!("{tag} planar TotalMoles"), hash_str(&format!("{:?}", c)), ok);
            let err = match &out {
                Outcome::Ok => String::new(),
                Outcome::NotConverged => "NotConverged".into(),
                Outcome::Err(e) => e.clone(),
                Outcome::Panic => "panic".into(),
            };
            if *grid {
                m.check_bool("spec: standard case solves", &sig, idx, ok, || json!({"case": c, "error": err, "unconstrained_solve_gamma": free}));
            }
            if ok {
                let got = pi.profile.integrate_comp(&pi.profile.density).to_reduced().sum();
                let bound = amount_bound(&pi.profile, true).unwrap_or(0.0) + 1e-10;
                m.check("spec: amount met", &sig, idx, serr(got, target, 0.0) / bound, TOL_MOLES, || json!({"case": c, "specified": target, "returned": got, "bound_from_residual": bound}));
                if bound < 1e-6 {
                    m.count("spec: amount met with bound < 1e-6", 1);
                }
                if pi.profile.dft.component_index().len() == pi.profile.dft.components() {
                    let api = pi.profile.total_moles().to_reduced();
                    m.check("spec: amount met", &format!("{sig}|total_moles()"), idx, serr(api, target, 0.0) / bound, TOL_MOLES, || json!({"case": c, "specified": target, "total_moles()": api, "bound_from_residual": bound}));
                }
                // the constrained solution is the same interface: same surface tension
                if let (Some(g0), Some(g)) = (free, pi.surface_tension.map(|g| g.to_reduced())) {
                    let tol_last = chain.as_ref().map_or(1e-11, |c| c.last().tol());
                    if tol_last <= 1e-10 {
                        m.check("spec: constrained = free surface tension", &format!("{sig}|gamma"), idx, serr(g, g0, 0.0), TOL_GAMMA_FIXED, || json!({"case": c, "free": g0, "constrained": g}));
                    }
                }
                if let Ok(r) = pi.profile.residual(false).map(|(r, rb, _)| own_norm(&r, &rb)) {
                    let tol_last = chain.as_ref().map_or(1e-11, |c| c.last().tol());
                    m.check("spec: residual (incl. bulk equation) < tolerance", &format!("{sig}|residual"), idx, r / tol_last, TOL_RESIDUAL_FACTOR, || json!({"case": c, "residual": r}));
                }
            } else if !*grid {
                m.skip("spec: amount met", if err == "NotConverged" { "not converged" } else { "solver error" });
            }
        }
        _ => unreachable!(),
    }
}

/// A-posteriori bound on |N - n| / n for a returned profile with residual (res, res_bulk):
/// N_i = rho_b,i z_i - int res_i dV and the bulk equation reads rho_b,i - n_i / z_i = res_bulk,i
/// (Moles) resp. rho_b,i - rho_b,i n / sum_j rho_b,j z_j = res_bulk,i (TotalMoles).
/// root mean square over the density residual and the bulk-density residual together (the
/// definition the solver documents), computed here from the two vectors instead of trusting
/// the norm the library reports alongside them
fn own_norm<D: ndarray::Dimension>(res: &ndarray::Array<f64, D>, res_bulk: &Array1<f64>) -> f64 {
    ((res.iter().map(|x| x * x).sum::<f64>() + res_bulk.iter().map(|x| x * x).sum::<f64>()) / (res.len() + res_bulk.len()) as f64).sqrt()
}

fn amount_bound<F: Dft>(profile: &DFTProfile<Ix1, F>, total: bool) -> Option<f64> {
    let (res, res_bulk, _) = profile.residual(false).ok()?;
    let pd = profile.bulk.partial_density.to_reduced();
    let rb = profile.dft.component_index().mapv(|i| pd[i]);
    let ires = profile.integrate_comp(&Density::from_reduced(res.mapv(f64::abs))).to_reduced();
    let n = profile.integrate_comp(&profile.density).to_reduced();
    let bulk_rel = |i: usize| res_bulk[i].abs() / (rb[i] - res_bulk[i].abs()).max(1e-300);
    let k = rb.len();
    Some(if total {
        (0..k).map(bulk_rel).fold(0.0, f64::max) + ires.sum() / n.sum()
    } else {
        (0..k).map(|i| bulk_rel(i) + ires[i] / n[i]).fold(0.0, f64::max)
    })
}

fn compare_families(m: &mut Monitor, cx: &Ctx, geo: &str, what: &str, res: &[(&str, f64)]) {
    if res.len() < 2 {
        m.skip("families agree (skips)", "fewer than two families converged");
        return;
    }
    let (n0, v0) = res[0];
    for (n, v) in &res[1..] {
        let floor = if what == "gamma" { 0.0 } else { 1e-12 };
        m.check(
            &format!("families agree ({geo})"),
            &format!("families|{geo}|{what}|{}|{n0} vs {n}", cx.sys),
            cx.case,
            serr(v0, *v, floor),
            if geo == "planar" { TOL_FAMILIES_PLANAR } else { TOL_FAMILIES_PORE },
            || json!({"case": cx.desc, "what": what, n0: v0, *n: *v}),
        );
    }
}

fn init_pore<F: Dft>(f: &Arc<F>, pore: &PoreDesc, bulk: &BulkDesc) -> Option<(Pore1D, State<F>, PoreProfile1D<F>)> {
    let state = bulk_state(f, bulk)?;
    let p = pore.build();
    let prof = catch_unwind(AssertUnwindSafe(|| p.initialize(&state, None, None))).ok()?.ok()?;
    Some((p, state, prof))
}

fn pores<F: Dft>(m: &mut Monitor, idx: u64, c: &Case, f: &Arc<F>) {
    let tag = c.fluid.tag();
    match &c.work {
        Work::PoreChain { pore, bulk, previous, chain } => {
            let cx = Ctx { case: idx, sys: format!("{tag} {}", pore.tag()), desc: c };
            let Some((_, _, mut pp)) = init_pore(f, pore, bulk) else {
                m.skip("stationary", "no bulk state / pore");
                return;
            };
            if *previous && pp.solve_inplace(None, false).is_err() {
                m.skip("stationary", "preparatory solve failed");
                return;
            }
            let b0 = pp.profile.bulk.partial_density.to_reduced();
            let solver = chain.build();
            let (out, stages, _) = traced(|| pp.solve_inplace(Some(&solver), false));
            let ok = matches!(out, Outcome::Ok);
            m.case(&format!("{tag} pore {}", geo_name(pore.geometry())), hash_str(&format!("{:?}", c)), ok);
            if idx % 40 == 1 {
                m.sample(json!({"case": c, "ok": ok, "stages": stages, "N": pp.profile.moles().to_reduced().to_vec()}));
            }
            if judge_solve(m, &cx, chain, &out, &stages, &pp.profile, Some(&b0)) {
                m.count(&format!("ok last stage {}", chain.last().name()), 1);
            }
        }
        Work::PoreFamilies { pore, bulk } => {
            let cx = Ctx { case: idx, sys: format!("{tag} {}", pore.tag()), desc: c };
            let mut ns: Vec<(&str, f64)> = Vec::new();
            let mut os: Vec<(&str, f64)> = Vec::new();
            for (name, chain) in Chain::families(1e-13) {
                let Some((_, _, mut pp)) = init_pore(f, pore, bulk) else {
                    m.skip("families agree (skips)", "no bulk state / pore");
                    return;
                };
                let solver = chain.build();
                let b0 = pp.profile.bulk.partial_density.to_reduced();
                let (out, stages, _) = traced(|| pp.solve_inplace(Some(&solver), false));
                m.case(&format!("{tag} pore families"), hash_str(&format!("{:?}{name}", c)), matches!(out, Outcome::Ok));
                if judge_solve(m, &cx, &chain, &out, &stages, &pp.profile, None) {
                    // Anderson mixing may move the bulk state (judged by the bulk-drift clause);
                    // such a solution belongs to another state and is not compared
                    let b1 = pp.profile.bulk.partial_density.to_reduced();
                    let drift = b0.iter().zip(b1.iter()).map(|(a, b)| serr(*a, *b, 0.0)).fold(0.0, f64::max);
                    if drift > 1e-10 {
                        m.skip("families agree (skips)", "bulk state drifted (Anderson), see bulk-drift clause");
                        m.check("spec ChemicalPotential: bulk unchanged", &format!("bulk-drift|anderson|unchanged|{}", cx.sys), idx, drift, TOL_BULK, || json!({"case": c, "family": name, "before": b0.to_vec(), "after": b1.to_vec()}));
                        continue;
                    }
                    ns.push((name, pp.profile.moles().to_reduced().sum()));
                    os.push((name, pp.grand_potential.map_or(f64::NAN, |o| o.to_reduced())));
                }
            }
            compare_families(m, &cx, geo_name(pore.geometry()), "N", &ns);
            compare_families(m, &cx, geo_name(pore.geometry()), "Omega", &os);
        }
        Work::PoreSpec { pore, bulk, total, delta, chain, grid } => {
            let which = if *total { "TotalMoles" } else { "Moles" };
            let sig = format!("spec|{which}|pore {}|{tag}", geo_name(pore.geometry()));
            let Some((p, state, mut free)) = init_pore(f, pore, bulk) else {
                m.skip("spec: amount met", "no bulk state / pore");
                m.gate(!*grid, &format!("mini-grid case {sig}: no bulk state"));
                return;
            };
            if let Err(e) = free.solve_inplace(None, false) {
                m.skip("spec: amount met", "unconstrained solve failed");
                m.gate(!*grid, &format!("mini-grid case {sig}: unconstrained solve failed: {e}"));
                return;
            }
            // per-segment amounts of the free solution, scaled
            let n_seg = free.profile.integrate_comp(&free.profile.density).to_reduced() * (1.0 + delta);
            let Ok(Ok(mut pp)) = catch_unwind(AssertUnwindSafe(|| p.initialize(&state, Some(&free.profile.density), None))) else {
                m.skip("spec: amount met", "no bulk state / pore");
                return;
            };
            pp.profile.specification = Arc::new(if *total {
                DFTSpecifications::TotalMoles { total_moles: n_seg.sum() }
            } else {
                DFTSpecifications::Moles { moles: n_seg.clone() }
            });
            let solver = chain.as_ref().map(|c| c.build());
            let (out, _, _) = traced(|| pp.solve_inplace(solver.as_ref(), false));
            let ok = matches!(out, Outcome::Ok);
            m.case(&format!("{tag} pore {which}"), hash_str(&format!("{:?}", c)), ok);
            let err = match &out {
                Outcome::Ok => String::new(),
                Outcome::NotConverged => "NotConverged".into(),
                Outcome::Err(e) => e.clone(),
                Outcome::Panic => "panic".into(),
            };
            if *grid {
                m.check_bool("spec: standard case solves", &sig, idx, ok, || json!({"case": c, "error": err, "specified": n_seg.to_vec()}));
            }
            if ok {
                let got = pp.profile.integrate_comp(&pp.profile.density).to_reduced();
                let dev = if *total {
                    serr(got.sum(), n_seg.sum(), 0.0)
                } else {
                    got.iter().zip(n_seg.iter()).map(|(a, b)| serr(*a, *b, 0.0)).fold(0.0, f64::max)
                };
                let bound = amount_bound(&pp.profile, *total).unwrap_or(0.0) + 1e-10;
                m.check("spec: amount met", &sig, idx, dev / bound, TOL_MOLES, || json!({"case": c, "specified": n_seg.to_vec(), "returned": got.to_vec(), "bound_from_residual": bound}));
                if bound < 1e-6 {
                    m.count("spec: amount met with bound < 1e-6", 1);
                }
                if pp.profile.dft.component_index().len() == pp.profile.dft.components() {
                    let api = pp.profile.moles().to_reduced();
                    let dev = if *total {
                        serr(pp.profile.total_moles().to_reduced(), n_seg.sum(), 0.0)
                    } else {
                        api.iter().zip(n_seg.iter()).map(|(a, b)| serr(*a, *b, 0.0)).fold(0.0, f64::max)
                    };
                    m.check("spec: amount met", &format!("{sig}|moles()"), idx, dev / bound, TOL_MOLES, || json!({"case": c, "specified": n_seg.to_vec(), "moles()": api.to_vec(), "bound_from_residual": bound}));
                }
                // the bulk state moved in the direction of the change of amount (dN/dmu > 0)
                let r0 = state.density.to_reduced();
                let r1 = pp.profile.bulk.density.to_reduced();
                if bound < 0.1 * delta.abs() {
                    m.check_bool(
                        "spec: bulk density follows the specified amount",
                        &format!("{sig}|direction"),
                        idx,
                        (r1 - r0) * delta > 0.0,
                        || json!({"case": c, "bulk_density_free": r0, "bulk_density_constrained": r1}),
                    );
                }
                if let Ok((r, r_lib, rb_max)) = pp.profile.residual(false).map(|(r, rb, n)| (own_norm(&r, &rb), n, rb.iter().fold(0.0f64, |a, x| a.max(x.abs())))) {
                    let tol_last = chain.as_ref().map_or(1e-11, |c| c.last().tol());
                    m.check("spec: residual (incl. bulk equation) < tolerance", &format!("{sig}|residual"), idx, r / tol_last, TOL_RESIDUAL_FACTOR, || json!({"case": c, "residual": r, "norm reported by the library": r_lib, "largest bulk residual": rb_max}));
                }
            } else if !*grid {
                m.skip("spec: amount met", if err == "NotConverged" { "not converged" } else { "solver error" });
            }
        }
        _ => unreachable!(),
    }
}

pub fn run(cfg: Config) -> i32 {
    // library panics are caught and judged; keep the console quiet
    std::panic::set_hook(Box::new(|_| {}));
    let mut m = Monitor::new(cfg.clone());
    let cases = build_cases(cfg.seed, cfg.tier);
    par_cases(&mut m, &cases, |m, idx, c| {
        let t0 = std::time::Instant::now();
        let is_planar = matches!(c.work, Work::PlanarChain { .. } | Work::PlanarFamilies { .. } | Work::PlanarFixed { .. });
        with_functional!(&c.fluid, f => if is_planar { planar(m, idx, c, &f) } else { pores(m, idx, c, &f) }, m.skip("stationary", "functional could not be built"));
        let kind = match c.work {
            Work::PlanarChain { .. } => "planar chain",
            Work::PoreChain { .. } => "pore chain",
            Work::PlanarFamilies { .. } => "planar families",
            Work::PoreFamilies { .. } => "pore families",
            Work::PlanarFixed { .. } => "planar TotalMoles",
            Work::PoreSpec { .. } => "pore Moles/TotalMoles",
        };
        m.count(&format!("cpu ms: {kind}"), t0.elapsed().as_millis() as u64);
    });
    m.gate(m.clause_checked("stationary: residual < tolerance of last stage") >= 100, "fewer than 100 converged solves judged");
    m.gate(m.clause_checked("trace: NotConverged only after a non-converged last stage") >= 10, "fewer than 10 non-converged solves seen");
    let nfam: u64 = ["planar", "cartesian", "spherical", "cylindrical"].iter().map(|g| m.clause_checked(&format!("families agree ({g})"))).sum();
    m.gate(nfam >= 20, "fewer than 20 family comparisons");
    m.gate(m.clause_checked("spec: standard case solves") >= 12, "mini-grid of specification cases incomplete");
    for fam in ["pcsaft-pure planar", "pets planar", "gc-pcsaft planar", "pcsaft-binary planar", "pcsaft-pure pore cartesian", "pcsaft-pure pore spherical", "pcsaft-pure pore cylindrical"] {
        m.gate(m.families.keys().any(|k| k.starts_with(fam)), &format!("no case of family {fam}"));
    }
    m.finish(
        "planar interfaces (8 fluids: PC-SAFT pure/full/binary, PeTS, gc-PC-SAFT; T/T_c U[0.5,0.95]; 256-1024 points, 100-250 A; tanh / pDGT / previous-solution start) and 1D pores (6 fluids; slit/cylinder/sphere; LJ93/Steele/SimpleLJ93/hard wall; T/T_c in [0.6,1.5]; bulk density 1-30 % of saturated vapour resp. critical density) solved with random chains of 1-3 Picard/Anderson/Newton stages (log/non-log, tolerances 1e-2..1e-11, iteration budgets 5..400); family comparison with all families driven to 1e-13; Moles/TotalMoles with random chains and a deterministic mini-grid of 12 standard cases; distinct by hash of the case description, non-trivial = the solve returned Ok",
        false,
        &[
            "the residual vectors (density and bulk equation) come from DFTProfile::residual(false), i.e. from the library's own Euler-Lagrange operator, their norm is computed by the harness: a stationary point of a wrong operator is not detected here (C17/C19 cover the operator)",
            "family comparison is restricted to T <= 0.9 T_c, boxes >= 180 A and bulk states away from capillary condensation, where the stationary point is unique up to translation",
        ],
    )
}
