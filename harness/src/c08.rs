//! C08 — independent implementations of the same model agree.
use crate::c01::{energy_scale, joback_for, Eos};
use crate::monitor::*;
use crate::prng::{hash_f64s, Rng};
use crate::stream::*;
use crate::zoo::*;
use feos::association::Association;
use feos::hard_sphere::HardSphereProperties;
use feos::pcsaft::{PcSaft, PcSaftParameters};
use feos::saftvrmie::{SaftVRMie, SaftVRMieParameters};
use feos_core::cubic::{PengRobinson, PengRobinsonParameters};
use feos_core::parameter::{IdentifierOption, Parameter};
use feos_core::{Contributions, Derivative, EquationOfState, ReferenceSystem, Residual, State, StateHD};
use ndarray::{arr1, Array1};
use num_dual::*;
use quantity::*;
use serde_json::{json, Value};
use std::sync::Arc;

/// residual observables compared between two implementations (reduced units), with
/// the natural scale of each entry
fn observables<E: Residual>(s: &State<E>) -> Vec<(String, f64)> {
    let mut v = vec![
        ("A".to_string(), s.residual_helmholtz_energy().to_reduced()),
        ("p".to_string(), s.pressure(Contributions::Residual).to_reduced()),
        ("S".to_string(), s.residual_entropy().to_reduced()),
        ("dp_dv".to_string(), s.dp_dv(Contributions::Residual).to_reduced()),
        ("dp_dt".to_string(), s.dp_dt(Contributions::Residual).to_reduced()),
        ("ds_dt".to_string(), s.ds_res_dt().to_reduced()),
    ];
    for (i, mu) in s.residual_chemical_potential().to_reduced().iter().enumerate() {
        v.push((format!("mu{i}"), *mu));
    }
    let dmu = s.dmu_dni(Contributions::Residual).to_reduced();
    v.push(("dmu00".to_string(), dmu[[0, 0]]));
    v
}

fn scales(sa: f64, t: f64, v: f64, n: f64, name: &str) -> f64 {
    match name {
        "A" => sa,
        "p" => sa / v,
        "S" => sa / t,
        "dp_dv" => sa / (v * v),
        "dp_dt" => sa / (v * t),
        "ds_dt" => sa / (t * t),
        "dmu00" => sa / (n * n),
        _ => sa / n,
    }
}

#[allow(clippy::too_many_arguments)]
fn compare<A: Residual, B: Residual>(
    m: &mut Monitor,
    clause: &str,
    sig: &str,
    case: u64,
    a: &State<A>,
    b: &State<B>,
    sa: f64,
    tol: f64,
    info: &Value,
) {
    let (oa, ob) = (observables(a), observables(b));
    let (t, v, n) = (
        a.temperature.to_reduced(),
        a.volume.to_reduced(),
        a.total_moles.to_reduced(),
    );
    for ((name, x), (_, y)) in oa.iter().zip(ob.iter()) {
        let sc = scales(sa, t, v, n, name) * 1e-3;
        let dev = crate::fd::serr(*x, *y, sc);
        let (x, y, name2) = (*x, *y, name.clone());
        m.check(clause, sig, case, dev, tol, || {
            json!({"observable": name2, "first": fnum(x), "second": fnum(y), "info": info})
        });
    }
}

pub fn run(cfg: Config) -> i32 {
    let mut m = Monitor::new(cfg.clone());
    functional_vs_eos(&mut m, &cfg);
    fmt_vs_bmcsl(&mut m, &cfg);
    wrapper_vs_bare(&mut m, &cfg);
    epcsaft_vs_pcsaft(&mut m, &cfg);
    vrq_fh0_vs_vrmie(&mut m, &cfg);
    association_paths(&mut m, &cfg);
    homo_gc(&mut m, &cfg);
    pr_closed_form(&mut m, &cfg);
    for c in [
        "functional=eos",
        "fmt=bmcsl",
        "enum wrapper=bare model",
        "eos wrapper=bare model",
        "epcsaft(no ions)=pcsaft",
        "saftvrqmie(FH0)=saftvrmie",
        "association analytic=newton",
        "homo gc=combined record",
        "pr=textbook closed form (SI)",
    ] {
        m.gate(m.clause_checked(c) >= 20, &format!("pair '{c}' has fewer than 20 oracle evaluations"));
    }
    m.finish(
        "pairs of code paths for one model evaluated on C01-style random states (T in [0.4,3] T_c-scale, density in (1e-6,0.9) rho_max, random composition/amount): functional vs EoS (PC-SAFT x 3 FMT versions pure-optimised and mixture path, gc-PC-SAFT, PeTS, SAFT-VRQ Mie), FMT vs BMCSL closed form, enum / ideal-gas wrappers vs bare model, ePC-SAFT without ions vs PC-SAFT, SAFT-VRQ Mie FH0 vs SAFT-VR Mie monomers, analytic vs Newton association (all dual orders), homosegmented GC vs hand-combined record, PR vs textbook closed form in SI; distinct by hash (pair, model, state)",
        false,
        &[
            "harness closed forms: BMCSL hard-sphere mixture, Peng-Robinson (textbook constants 0.45724/0.07780), homosegmented GC combining rules as documented",
            "SAFT-VRQ Mie FH0 vs SAFT-VR Mie differ in the quadrature of the Barker-Henderson diameter; pair tolerance 1e-3",
        ],
    )
}

fn functional_vs_eos(m: &mut Monitor, cfg: &Config) {
    let (reps, nstates) = cfg.tier.pick((8, 12), (150, 60));
    let fams = [
        "pcsaft",
        "pcsaft-assoc",
        "pcsaft-crossassoc",
        "pcsaft-solvating",
        "pcsaft-polar",
        "gc-pcsaft",
        "pets",
        "saftvrqmie",
    ];
    let stream = build_stream(cfg.seed, "c08-func", &fams, &[1, 2, 3], reps, nstates, false, 0.4, 3.0);
    par_cases(m, &stream, |m, ci, sc| {
        for fmt in 0..3u8 {
            let Some(fs) = functional_of(&sc.mc.spec, fmt) else {
                continue;
            };
            let Ok(func) = fs.build() else {
                continue;
            };
            let info = json!({"model": sc.mc.spec, "fmt_version": fmt});
            for (si, ss) in sc.states.iter().enumerate() {
                let case = 100_000_000 + ci * 10_000 + (fmt as u64) * 1000 + si as u64;
                let (Some(a), Some(b)) = (make_state(&func, ss), make_state(&sc.mc.eos, ss)) else {
                    continue;
                };
                let ar = b.residual_helmholtz_energy().to_reduced();
                if !ar.is_finite() {
                    continue;
                }
                m.case(&format!("func:{}", sc.mc.family), ss.hash(&format!("{}{}", sc.mc.label(), fmt)), ar.abs() > 1e-9 * ss.ntot * ss.t);
                if m.samples.len() < 2 {
                    m.sample(json!({"pair": "functional vs eos", "model": sc.mc.label(), "fmt": fmt, "state": ss.json()}));
                }
                let sa = energy_scale(&b);
                // ideal-chain / hard-chain cancellation costs precision at low density
                let mut tol = 1e-9 * (10.0 / ss.eta_frac).max(1.0);
                // mixtures whose association is solved iteratively on one side (absolute tolerance
                // 1e-10 in the site fractions): at epsilon_AB / kT > 15 the unbonded fractions are
                // themselves tiny and the second derivatives agree only to ~1e-7
                if sc.mc.family == "pcsaft-crossassoc" {
                    let eps_max = sc.mc.spec.pure.iter().filter_map(|r| r["model_record"].get("epsilon_k_ab").and_then(|v| v.as_f64())).fold(0.0, f64::max);
                    if eps_max / ss.t > 15.0 {
                        tol *= 1e3;
                    }
                }
                // derivatives with respect to a trace component lose digits like 1/x
                tol *= (1e-4 / ss.x.iter().cloned().fold(1.0, f64::min)).max(1.0);
                let polar_gc = sc.mc.spec.kind == Kind::GcPcSaft
                    && sc.mc.spec.pure.iter().any(|p| {
                        p["segments"].as_array().map_or(false, |a| {
                            a.iter().any(|s| ["CH=O", ">C=O", "OCH3", "OCH2", "HCOO", "COO"].contains(&s.as_str().unwrap_or("")))
                        })
                    });
                // DQ44 only matters when a dipolar and a quadrupolar component meet
                let dq44 = sc.mc.spec.opts.dq == 1
                    && sc.mc.spec.pure.iter().any(is_dipolar)
                    && sc.mc.spec.pure.iter().any(is_quadrupolar);
                let quad2 = sc.mc.spec.kind == Kind::PcSaft
                    && sc.mc.spec.pure.iter().filter(|p| is_quadrupolar(p)).count() >= 2;
                let sig = format!(
                    "functional=eos|{}{}{}{}|fmt{}|n{}",
                    sc.mc.family,
                    if polar_gc { "+polar-segments" } else { "" },
                    if quad2 { "+2quadrupoles" } else { "" },
                    if dq44 { "+dq44" } else { "" },
                    fmt,
                    if sc.mc.n == 1 { "1" } else { "mix" }
                );
                let mut info = info.clone();
                info["state"] = ss.json();
                compare(m, "functional=eos", &sig, case, &a, &b, sa, tol, &info);
                // contributions: sums agree
                let sum_f: f64 = a.residual_helmholtz_energy_contributions().iter().map(|(_, a)| a.to_reduced()).sum();
                let sum_e: f64 = b.residual_helmholtz_energy_contributions().iter().map(|(_, a)| a.to_reduced()).sum();
                m.check("functional=eos", &sig, case, crate::fd::serr(sum_f, sum_e, sa * 1e-3), tol, || json!({"observable": "sum of contributions", "first": sum_f, "second": sum_e, "info": info}));
            }
        }
    });
}

/// BMCSL residual Helmholtz energy A/(kT) of a hard-sphere mixture
fn bmcsl(rho: &[f64], d: &[f64], v: f64) -> f64 {
    let z = |k: i32| -> f64 {
        std::f64::consts::FRAC_PI_6 * rho.iter().zip(d).map(|(r, d)| r * d.powi(k)).sum::<f64>()
    };
    let (z0, z1, z2, z3) = (z(0), z(1), z(2), z(3));
    let f = 3.0 * z1 * z2 / (1.0 - z3) + z2.powi(3) / (z3 * (1.0 - z3).powi(2))
        + (z2.powi(3) / (z3 * z3) - z0) * (1.0 - z3).ln();
    v * f * 6.0 / std::f64::consts::PI
}

fn fmt_vs_bmcsl(m: &mut Monitor, cfg: &Config) {
    let n = cfg.tier.pick(2500, 200_000);
    let cases: Vec<u64> = (0..n).collect();
    par_cases(m, &cases, |m, _, &i| {
        let mut rng = Rng::derive(cfg.seed, "c08-fmt", i);
        let nc = 1 + rng.below(3);
        let sig: Vec<f64> = (0..nc).map(|_| rng.range(2.5, 4.5)).collect();
        let pure: Vec<Value> = sig
            .iter()
            .enumerate()
            .map(|(k, s)| json!({"identifier": {"name": format!("hs{k}")}, "molarweight": 1.0, "model_record": {"sigma": s}}))
            .collect();
        let mut spec = Spec::new(Kind::Fmt, pure);
        spec.opts.fmt = rng.below(3) as u8;
        let Ok(eos) = spec.build() else {
            return;
        };
        let x = rng.simplex(nc, 0.1, 1e-5);
        let eta = rng.log_range(1e-4, 0.5);
        let d3: f64 = x.iter().zip(&sig).map(|(x, s)| x * s.powi(3)).sum();
        let rho = eta / (std::f64::consts::FRAC_PI_6 * d3);
        let ntot = rng.log_range(1e-2, 1e2);
        let v = ntot / rho;
        let t = rng.range(100.0, 600.0);
        let nvec = Array1::from_vec(x.iter().map(|x| x * ntot).collect());
        let Some(st) = state_tvn(&eos, t, v, &nvec) else {
            return;
        };
        let a = st.residual_helmholtz_energy().to_reduced() / t;
        let rhos: Vec<f64> = x.iter().map(|x| x * rho).collect();
        let expect = bmcsl(&rhos, &sig, v);
        m.case("fmt", hash_f64s("fmt", &[t, rho, x[0], sig[0], spec.opts.fmt as f64]), true);
        let fmtv = spec.opts.fmt;
        m.check("fmt=bmcsl", &format!("fmt=bmcsl|fmt{}", fmtv), 200_000_000 + i, crate::fd::serr(a, expect, 0.0), 1e-9 * (1e-2 / eta).max(1.0), || {
            json!({"sigma": sig, "x": x, "eta": eta, "fmt_version": fmtv, "A/kT functional": a, "A/kT BMCSL": expect})
        });
    });
}

fn wrapper_vs_bare(m: &mut Monitor, cfg: &Config) {
    let (reps, nstates) = cfg.tier.pick((8, 8), (150, 40));
    let stream = build_stream(cfg.seed, "c08-wrap", &["pr", "pcsaft-assoc", "pcsaft-polar", "saftvrmie"], &[1, 2, 3], reps, nstates, false, 0.4, 3.0);
    par_cases(m, &stream, |m, ci, sc| {
        let spec = &sc.mc.spec;
        let info = json!({"model": spec});
        for (si, ss) in sc.states.iter().enumerate() {
            let case = 300_000_000 + ci * 10_000 + si as u64;
            let Some(w) = make_state(&sc.mc.eos, ss) else {
                continue;
            };
            let sa = energy_scale(&w);
            if !sa.is_finite() {
                continue;
            }
            m.case(&format!("wrap:{}", sc.mc.family), ss.hash(&sc.mc.label()), true);
            // two associating components: site fractions from a Newton iteration with tolerance 1e-10
            // that the two objects run independently (measured difference 5.5e-10)
            let n_assoc = spec.pure.iter().filter(|r| r["model_record"].get("epsilon_k_ab").is_some()).count();
            // SAFT-VR Mie solves the site fractions iteratively whenever a mixture has an associating
            // component, starting from values remembered from the model's previous evaluation: two
            // model objects with different histories agree to the iteration tolerance only (1.8e-9 seen)
            let iter_assoc = if n_assoc >= 2 || (n_assoc >= 1 && spec.kind == Kind::SaftVRMie && spec.pure.len() > 1) { 1e3 } else { 1.0 };
            let sig = format!("enum wrapper=bare|{}", sc.mc.family);
            macro_rules! bare {
                ($eos:expr) => {{
                    let e = Arc::new($eos);
                    if let Ok(b) = State::new_nvt(&e, ss.temperature(), ss.volume(), &ss.moles()) {
                        compare(m, "enum wrapper=bare model", &sig, case, &w, &b, sa, 1e-11 * (0.1 / ss.eta_frac).max(1.0) * iter_assoc, &info);
                        let md = (e.compute_max_density(&arr1(&ss.x)) - sc.mc.eos.compute_max_density(&arr1(&ss.x))).abs();
                        m.check("enum wrapper=bare model", &sig, case, md, 1e-15, || json!({"observable": "max_density", "info": info}));
                    }
                }};
            }
            match spec.kind {
                Kind::Pr => {
                    let p = PengRobinsonParameters::from_records(
                        spec.pure.iter().map(|v| serde_json::from_value(v.clone()).unwrap()).collect(),
                        spec.binary.as_ref().map(|b| {
                            ndarray::Array2::from_shape_fn([b.len(), b.len()], |(i, j)| b[i][j].as_f64().unwrap())
                        }),
                    )
                    .unwrap();
                    bare!(PengRobinson::new(Arc::new(p)))
                }
                Kind::PcSaft => bare!(PcSaft::with_options(Arc::new(spec.pcsaft_parameters().unwrap()), spec.pcsaft_options())),
                Kind::SaftVRMie => {
                    let p = SaftVRMieParameters::from_records(
                        spec.pure.iter().map(|v| serde_json::from_value(v.clone()).unwrap()).collect(),
                        spec.binary.as_ref().map(|b| {
                            ndarray::Array2::from_shape_fn([b.len(), b.len()], |(i, j)| serde_json::from_value(b[i][j].clone()).unwrap())
                        }),
                    )
                    .unwrap();
                    bare!(SaftVRMie::new(Arc::new(p)))
                }
                _ => {}
            }
            // ideal gas + residual wrapper
            let mut rng = Rng::derive(cfg.seed, "c08-ig", case);
            let e2: Arc<Eos> = Arc::new(EquationOfState::new(joback_for(sc.mc.n, &mut rng), sc.mc.eos.clone()));
            if let Ok(b) = State::new_nvt(&e2, ss.temperature(), ss.volume(), &ss.moles()) {
                compare(m, "eos wrapper=bare model", &format!("eos wrapper=bare|{}", sc.mc.family), case, &w, &b, sa, 1e-11 * (0.1 / ss.eta_frac).max(1.0) * iter_assoc, &info);
            }
        }
    });
}

fn epcsaft_vs_pcsaft(m: &mut Monitor, cfg: &Config) {
    let (reps, nstates) = cfg.tier.pick((12, 8), (300, 40));
    let stream = build_stream(cfg.seed, "c08-epc", &["pcsaft", "pcsaft-assoc", "pcsaft-crossassoc"], &[1, 2, 3], reps, nstates, false, 0.4, 3.0);
    par_cases(m, &stream, |m, ci, sc| {
        // same pure records, constant k_ij
        let mut es = sc.mc.spec.with_kind(Kind::EPcSaft);
        // polar records are not part of ePC-SAFT
        if sc.mc.spec.pure.iter().any(|p| is_dipolar(p) || is_quadrupolar(p)) {
            return;
        }
        es.binary = sc.mc.spec.binary.as_ref().map(|b| {
            b.iter()
                .map(|row| row.iter().map(|v| json!({"k_ij": [v["k_ij"].as_f64().unwrap_or(0.0), 0.0, 0.0, 0.0]})).collect())
                .collect()
        });
        let Ok(e) = es.build() else {
            return;
        };
        let info = json!({"model": sc.mc.spec});
        for (si, ss) in sc.states.iter().enumerate() {
            let case = 400_000_000 + ci * 10_000 + si as u64;
            let (Some(a), Some(b)) = (make_state(&e, ss), make_state(&sc.mc.eos, ss)) else {
                continue;
            };
            let sa = energy_scale(&b);
            if !sa.is_finite() {
                continue;
            }
            m.case(&format!("epc:{}", sc.mc.family), ss.hash(&sc.mc.label()), true);
            // the two crates carry separate copies of the association code; with two associating
            // components the site fractions come from an iteration with tolerance 1e-10, whose
            // last-bit differences are amplified to ~1e-12 of the energy scale
            let tol = if sc.mc.family.contains("assoc") { 1e-9 } else { 1e-11 };
            let mut info = info.clone();
            info["state"] = ss.json();
            // a NaN on one side only is a different failure from a numerical mismatch
            let (fa, fb) = (a.residual_helmholtz_energy().to_reduced().is_finite(), b.residual_helmholtz_energy().to_reduced().is_finite());
            if fa != fb {
                let which = if fb { "epcsaft" } else { "pcsaft" };
                m.check_bool("epcsaft(no ions)=pcsaft", &format!("epcsaft=pcsaft|{}|non-finite A_res from {which} only", sc.mc.family), case, false, || json!({"info": info, "A_res epcsaft": fnum(a.residual_helmholtz_energy().to_reduced()), "A_res pcsaft": fnum(b.residual_helmholtz_energy().to_reduced())}));
                continue;
            }
            compare(m, "epcsaft(no ions)=pcsaft", &format!("epcsaft=pcsaft|{}", sc.mc.family), case, &a, &b, sa, tol, &info);
        }
    });
}

fn vrq_fh0_vs_vrmie(m: &mut Monitor, cfg: &Config) {
    let n = cfg.tier.pick(400, 30_000);
    let cases: Vec<u64> = (0..n).collect();
    par_cases(m, &cases, |m, _, &i| {
        let mut rng = Rng::derive(cfg.seed, "c08-vrq", i);
        // mixtures differ by design (non-additive hard-sphere term, combining rules)
        let nc = 1;
        let recs: Vec<(f64, f64, f64, f64)> = (0..nc)
            .map(|_| (rng.range(3.0, 4.2), rng.range(80.0, 300.0), rng.range(9.0, 24.0), 6.0))
            .collect();
        let mie: Vec<Value> = recs
            .iter()
            .enumerate()
            .map(|(k, r)| saftvrmie_record(&format!("mie{k}"), 1.0, r.0, r.1, r.2, r.3, 30.0))
            .collect();
        let vrq: Vec<Value> = recs
            .iter()
            .enumerate()
            .map(|(k, r)| json!({"identifier": {"name": format!("mie{k}")}, "molarweight": 30.0,
                "model_record": {"m": 1.0, "sigma": r.0, "epsilon_k": r.1, "lr": r.2, "la": r.3, "fh": 0}}))
            .collect();
        let mut s1 = Spec::new(Kind::SaftVRMie, mie);
        let mut s2 = Spec::new(Kind::SaftVRQMie, vrq);
        if nc == 2 {
            let k = rng.range(-0.05, 0.08);
            s1.binary = Some(scalar_matrix(2, |_, _| json!({"k_ij": k}), json!({"k_ij": 0.0})));
            s2.binary = Some(scalar_matrix(2, |_, _| json!({"k_ij": k, "l_ij": 0.0}), json!({"k_ij": 0.0, "l_ij": 0.0})));
        }
        let (Ok(mc1), Ok(e2)) = (ModelCase::new("saftvrmie", s1.clone()), s2.build()) else {
            return;
        };
        for k in 0..4 {
            let ss = sample_state(&mc1, &mut rng, 0.5, 3.0);
            let (Some(a), Some(b)) = (make_state(&e2, &ss), make_state(&mc1.eos, &ss)) else {
                continue;
            };
            let sa = energy_scale(&b);
            if !sa.is_finite() {
                continue;
            }
            m.case("vrq-fh0", ss.hash(&format!("vrq{i}")), true);
            let info = json!({"model": s1, "state": ss.json()});
            // near the Boyle temperature the residual terms cancel; the two diameters
            // differ at the 1e-5 level, so compare relative to the size of the individual
            // (hard-sphere, dispersion) terms ~ N k T eta
            let sa = sa.max(ss.ntot * ss.t * ss.eta_frac * 0.5);
            compare(m, "saftvrqmie(FH0)=saftvrmie", &format!("vrq fh0=vrmie|n{nc}"), 500_000_000 + i * 10 + k, &a, &b, sa, 1e-3, &info);
        }
    });
}

fn association_paths(m: &mut Monitor, cfg: &Config) {
    let col = Collections::load();
    let assoc: Vec<&Shipped> = col.gross.iter().filter(|s| is_assoc(&s.record)).collect();
    let non: Vec<&Shipped> = col.gross.iter().filter(|s| !is_assoc(&s.record)).collect();
    let n = cfg.tier.pick(800, 60_000);
    let cases: Vec<u64> = (0..n).collect();
    par_cases(m, &cases, |m, _, &i| {
        let mut rng = Rng::derive(cfg.seed, "c08-assoc", i);
        // exactly one associating component (one A-B site pair), plus 0..2 inert ones
        let mut pure = vec![rng.choose(&assoc).record.clone()];
        if rng.bool(0.4) {
            // solvating pair: the single A site and the single B site sit on different components
            // (still the closed-form branch)
            let mut donor = pure[0].clone();
            let mut acceptor = rng.choose(&assoc).record.clone();
            donor["model_record"]["na"] = json!(1.0);
            donor["model_record"]["nb"] = json!(0.0);
            acceptor["model_record"]["na"] = json!(0.0);
            acceptor["model_record"]["nb"] = json!(1.0);
            acceptor["identifier"]["name"] = json!(format!("{} (acceptor)", acceptor["identifier"]["name"].as_str().unwrap_or("?")));
            acceptor["identifier"]["cas"] = json!("acceptor");
            pure = vec![donor, acceptor];
        }
        for _ in 0..rng.below(3) {
            pure.push(rng.choose(&non).record.clone());
        }
        rng.shuffle(&mut pure);
        let spec = Spec::new(Kind::PcSaft, pure);
        let Ok(p) = spec.pcsaft_parameters() else {
            return;
        };
        let p = Arc::new(p);
        let Ok(mc) = ModelCase::new("pcsaft-assoc", spec.clone()) else {
            return;
        };
        let analytic = Association::new(&p, &p.association, 50, 1e-10);
        let newton = Association::new_cross_association(&p, &p.association, 50, 1e-10);
        let ss = sample_state(&mc, &mut rng, 0.4, 3.0);
        let Some(st) = make_state(&mc.eos, &ss) else {
            return;
        };
        // the Newton solver stops on an absolute tolerance (1e-10) in the site fractions; at
        // epsilon_AB / kT > 15 the unbonded fractions themselves are below 1e-5 and the two paths
        // can only agree to that resolution: not judged there
        let eps_max = spec.pure.iter().filter_map(|r| r["model_record"].get("epsilon_k_ab").and_then(|v| v.as_f64())).fold(0.0, f64::max);
        if eps_max / ss.t > 15.0 {
            m.skip("association analytic=newton", "association too strong for the Newton solver's absolute tolerance (unresolved)");
            return;
        }
        m.case("assoc-paths", ss.hash(&mc.label()), true);
        let info = json!({"model": spec, "state": ss.json()});
        let case = 600_000_000 + i;
        let sig = "assoc analytic=newton";
        // trace donors / acceptors: the Newton path resolves their site fractions to 1e-10 absolute
        let tol = 1e-7 * (1e-4 / ss.x.iter().cloned().fold(1.0, f64::min)).max(1.0);
        // association energy relative to the residual energy of the state (A/kT units)
        let afloor = 1e-3 * energy_scale(&st) / ss.t;
        let mut chk = |what: &str, a: f64, b: f64| {
            let dev = crate::fd::serr(a, b, afloor);
            let (what, info) = (what.to_string(), &info);
            m.check("association analytic=newton", sig, case, dev, tol, || json!({"part": what, "analytic": fnum(a), "newton": fnum(b), "info": info}));
        };
        // zeroth order
        let s0 = st.derive0();
        let d0 = p.hs_diameter(s0.temperature);
        chk("value", analytic.helmholtz_energy(&s0, &d0), newton.helmholtz_energy(&s0, &d0));
        let dirs = [Derivative::DT, Derivative::DV, Derivative::DN(rng.below(mc.n))];
        for d in dirs {
            let s1: StateHD<Dual64> = st.derive1(d);
            let dd = p.hs_diameter(s1.temperature);
            let (a, b) = (analytic.helmholtz_energy(&s1, &dd), newton.helmholtz_energy(&s1, &dd));
            chk(&format!("first {d:?}"), a.eps * scale1(&ss, d), b.eps * scale1(&ss, d));
            let s2: StateHD<Dual2_64> = st.derive2(d);
            let dd = p.hs_diameter(s2.temperature);
            let (a, b) = (analytic.helmholtz_energy(&s2, &dd), newton.helmholtz_energy(&s2, &dd));
            chk(&format!("second {d:?}"), a.v2 * scale1(&ss, d).powi(2), b.v2 * scale1(&ss, d).powi(2));
            let s3: StateHD<Dual3_64> = st.derive3(d);
            let dd = p.hs_diameter(s3.temperature);
            let (a, b) = (analytic.helmholtz_energy(&s3, &dd), newton.helmholtz_energy(&s3, &dd));
            chk(&format!("third {d:?}"), a.v3 * scale1(&ss, d).powi(3), b.v3 * scale1(&ss, d).powi(3));
        }
        let sm: StateHD<HyperDual64> = st.derive2_mixed(Derivative::DT, Derivative::DV);
        let dd = p.hs_diameter(sm.temperature);
        let (a, b) = (analytic.helmholtz_energy(&sm, &dd), newton.helmholtz_energy(&sm, &dd));
        chk("mixed T V", a.eps1eps2 * scale1(&ss, Derivative::DT) * scale1(&ss, Derivative::DV), b.eps1eps2 * scale1(&ss, Derivative::DT) * scale1(&ss, Derivative::DV));
    });
}

/// multiply a derivative by the size of its variable so that all parts are comparable
fn scale1(ss: &StateSpec, d: Derivative) -> f64 {
    match d {
        Derivative::DT => ss.t,
        Derivative::DV => ss.ntot / ss.rho,
        Derivative::DN(_) => ss.ntot,
    }
}

fn homo_gc(m: &mut Monitor, cfg: &Config) {
    let dir = params_dir().join("pcsaft");
    let subs = shipped("pcsaft", "gc_substances.json");
    let sets = [
        ("sauer2014_homo.json", None),
        ("rehner2023_homo.json", Some("rehner2023_homo_binary.json")),
    ];
    let n = cfg.tier.pick(300, 15_000);
    let cases: Vec<u64> = (0..n).collect();
    par_cases(m, &cases, |m, _, &i| {
        let mut rng = Rng::derive(cfg.seed, "c08-gc", i);
        let (segfile, binfile) = sets[rng.below(2)];
        let segs = load_json_array(&dir.join(segfile));
        let seg = |id: &str| segs.iter().find(|s| s["identifier"].as_str() == Some(id));
        let bins: Vec<Value> = binfile.map(|f| load_json_array(&dir.join(f))).unwrap_or_default();
        let nc = 1 + rng.below(2);
        let mut picks = Vec::new();
        for _ in 0..nc {
            let s = rng.choose(&subs);
            if !picks.iter().any(|p: &&Shipped| p.name == s.name) {
                picks.push(s);
            }
        }
        let names: Vec<&str> = picks.iter().map(|s| s.name.as_str()).collect();
        let Ok(p_gc) = PcSaftParameters::from_json_segments(
            &names,
            dir.join("gc_substances.json"),
            dir.join(segfile),
            binfile.map(|f| dir.join(f)),
            IdentifierOption::Name,
        ) else {
            m.skip("homo gc=combined record", "substance cannot be assembled");
            return;
        };
        // documented combining rules, applied by hand
        let mut pure = Vec::new();
        let mut counts: Vec<std::collections::BTreeMap<String, f64>> = Vec::new();
        for s in &picks {
            let mut cnt = std::collections::BTreeMap::new();
            for g in s.record["segments"].as_array().unwrap() {
                *cnt.entry(g.as_str().unwrap().to_string()).or_insert(0.0) += 1.0;
            }
            let (mut mm, mut s3, mut eps, mut mw) = (0.0, 0.0, 0.0, 0.0);
            let (mut mu, mut q): (Option<f64>, Option<f64>) = (None, None);
            let mut assoc: Option<[f64; 5]> = None;
            for (g, c) in &cnt {
                let Some(r) = seg(g) else {
                    return;
                };
                let mr = &r["model_record"];
                let (ms, sg, ek) = (mr["m"].as_f64().unwrap(), mr["sigma"].as_f64().unwrap(), mr["epsilon_k"].as_f64().unwrap());
                mm += ms * c;
                s3 += ms * sg.powi(3) * c;
                eps += ms * ek * c;
                mw += r["molarweight"].as_f64().unwrap() * c;
                if let Some(x) = mr.get("mu").and_then(|x| x.as_f64()) {
                    mu = Some(mu.unwrap_or(0.0) + x * c);
                }
                if let Some(x) = mr.get("q").and_then(|x| x.as_f64()) {
                    q = Some(q.unwrap_or(0.0) + x * c);
                }
                if mr.get("kappa_ab").is_some() || mr.get("na").is_some() {
                    let g = |k: &str| mr.get(k).and_then(|x| x.as_f64()).unwrap_or(0.0) * c;
                    let a = assoc.get_or_insert([0.0; 5]);
                    a[0] += g("kappa_ab");
                    a[1] += g("epsilon_k_ab");
                    a[2] += g("na");
                    a[3] += g("nb");
                    a[4] += g("nc");
                }
            }
            let mut rec = json!({"m": mm, "sigma": (s3 / mm).cbrt(), "epsilon_k": eps / mm});
            if let Some(x) = mu {
                rec["mu"] = json!(x);
            }
            if let Some(x) = q {
                rec["q"] = json!(x);
            }
            if let Some(a) = assoc {
                rec["kappa_ab"] = json!(a[0]);
                rec["epsilon_k_ab"] = json!(a[1]);
                rec["na"] = json!(a[2]);
                rec["nb"] = json!(a[3]);
                rec["nc"] = json!(a[4]);
            }
            pure.push(json!({"identifier": {"name": s.name}, "molarweight": mw, "model_record": rec}));
            counts.push(cnt);
        }
        let mut spec = Spec::new(Kind::PcSaft, pure);
        if picks.len() == 2 && !bins.is_empty() {
            // count-weighted average of the segment-segment k_ij
            let (mut num, mut den) = (0.0, 0.0);
            for (g1, c1) in &counts[0] {
                for (g2, c2) in &counts[1] {
                    let k = bins
                        .iter()
                        .find(|b| {
                            (b["id1"].as_str() == Some(g1) && b["id2"].as_str() == Some(g2))
                                || (b["id1"].as_str() == Some(g2) && b["id2"].as_str() == Some(g1))
                        })
                        .and_then(|b| b["model_record"].as_f64())
                        .unwrap_or(0.0);
                    num += c1 * c2 * k;
                    den += c1 * c2;
                }
            }
            let k = num / den;
            spec.binary = Some(scalar_matrix(2, |_, _| json!({"k_ij": k}), json!({"k_ij": 0.0})));
        }
        let Ok(mc) = ModelCase::new("pcsaft-homo-gc", spec.clone()) else {
            m.check_bool("homo gc=combined record", &format!("homo gc|{segfile}|build"), 700_000_000 + i, false, || json!({"substances": names}));
            return;
        };
        let e_gc: Arc<Model> = Arc::new(Model::PcSaft(PcSaft::new(Arc::new(p_gc))));
        let info = json!({"substances": names, "segments": segfile, "binary": binfile, "hand_combined": spec.pure});
        for k in 0..3 {
            let ss = sample_state(&mc, &mut rng, 0.5, 2.0);
            let (Some(a), Some(b)) = (make_state(&e_gc, &ss), make_state(&mc.eos, &ss)) else {
                continue;
            };
            let sa = energy_scale(&b);
            if !sa.is_finite() {
                continue;
            }
            m.case("homo-gc", ss.hash(&format!("{}{}", mc.label(), segfile)), true);
            compare(m, "homo gc=combined record", &format!("homo gc|{segfile}"), 700_000_000 + i * 10 + k, &a, &b, sa, 1e-11, &info);
        }
    });
}

fn pr_closed_form(m: &mut Monitor, cfg: &Config) {
    const R: f64 = 8.31446261815324;
    let n = cfg.tier.pick(2500, 200_000);
    let cases: Vec<u64> = (0..n).collect();
    par_cases(m, &cases, |m, _, &i| {
        let mut rng = Rng::derive(cfg.seed, "c08-pr", i);
        let nc = 1 + rng.below(3);
        let spec = random_pr(&mut rng, nc);
        let Ok(mc) = ModelCase::new("pr", spec.clone()) else {
            return;
        };
        let ss = sample_state(&mc, &mut rng, 0.5, 3.0);
        let Some(st) = make_state(&mc.eos, &ss) else {
            return;
        };
        let p = st.pressure(Contributions::Total).convert_to(PASCAL);
        let t = ss.t;
        let vm = 1.0 / st.density.convert_to(MOL / (METER * METER * METER));
        let rec = |k: usize, f: &str| spec.pure[k]["model_record"][f].as_f64().unwrap();
        let mut am = 0.0;
        let mut bm = 0.0;
        let ai: Vec<f64> = (0..nc)
            .map(|k| {
                let (tc, pc, w) = (rec(k, "tc"), rec(k, "pc"), rec(k, "acentric_factor"));
                let kappa = 0.37464 + 1.54226 * w - 0.26992 * w * w;
                0.45724 * R * R * tc * tc / pc * (1.0 + kappa * (1.0 - (t / tc).sqrt())).powi(2)
            })
            .collect();
        for k in 0..nc {
            bm += ss.x[k] * 0.07780 * R * rec(k, "tc") / rec(k, "pc");
            for l in 0..nc {
                let kij = spec.binary.as_ref().map_or(0.0, |b| b[k][l].as_f64().unwrap_or(0.0));
                am += ss.x[k] * ss.x[l] * (ai[k] * ai[l]).sqrt() * (1.0 - kij);
            }
        }
        let expect = R * t / (vm - bm) - am / (vm * vm + 2.0 * bm * vm - bm * bm);
        m.case("pr-closed", ss.hash(&mc.label()), true);
        let scale = R * t / vm;
        m.check("pr=textbook closed form (SI)", "pr closed form", 800_000_000 + i, crate::fd::serr(p, expect, scale), 1e-11, || {
            json!({"model": spec, "state": ss.json(), "p_feos_Pa": p, "p_closed_form_Pa": expect})
        });
    });
}
