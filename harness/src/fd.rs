//! Finite differences with one Richardson step and a measured error bar.
//!
//! Every estimate carries its own error bar: the truncation error is estimated from
//! the difference between the Richardson-extrapolated and the half-step value, the
//! round-off error from the measured noise of the function (its response to a
//! perturbation far below the step) divided by the step. An analytic value is
//! compared with the estimate whose error bar is smallest; only a disagreement beyond
//! three error bars counts as a deviation. A wrong analytic derivative disagrees by a
//! fixed amount however small the error bar gets, while states where finite
//! differences cannot resolve the derivative (round-off at very low density, stiff
//! states next to a spinodal) are reported as unresolved instead of raising an alarm.

#[derive(Clone, Debug)]
pub struct Est {
    pub d: Vec<f64>,
    pub err: Vec<f64>,
}

/// measured noise of `f` at `x`: largest response to relative perturbations ~1e-13
pub fn noise<F: Fn(f64) -> Option<Vec<f64>>>(f: &F, x: f64) -> Option<Vec<f64>> {
    let f0 = f(x)?;
    let mut n = vec![0.0f64; f0.len()];
    for k in [1.0, -1.0, 2.0] {
        let fx = f(x * (1.0 + k * 2.5e-13))?;
        for i in 0..f0.len() {
            n[i] = n[i].max((fx[i] - f0[i]).abs());
        }
    }
    // never below the granularity of the value itself
    for i in 0..f0.len() {
        n[i] = n[i].max(8.0 * f64::EPSILON * f0[i].abs());
    }
    Some(n)
}

pub fn est_central<F: Fn(f64) -> Option<Vec<f64>>>(
    f: &F,
    x: f64,
    dx: f64,
    noise: &[f64],
) -> Option<Est> {
    let d = |dx: f64| -> Option<Vec<f64>> {
        let a = f(x + dx)?;
        let b = f(x - dx)?;
        Some(a.iter().zip(&b).map(|(a, b)| (a - b) / (2.0 * dx)).collect())
    };
    let d1 = d(dx)?;
    let d2 = d(0.5 * dx)?;
    let r: Vec<f64> = d1.iter().zip(&d2).map(|(d1, d2)| (4.0 * d2 - d1) / 3.0).collect();
    let err = (0..r.len())
        .map(|i| (r[i] - d2[i]).abs() + 4.0 * noise[i] / dx)
        .collect();
    Some(Est { d: r, err })
}

pub fn est_forward<F: Fn(f64) -> Option<Vec<f64>>>(
    f: &F,
    x: f64,
    dx: f64,
    noise: &[f64],
) -> Option<Est> {
    let f0 = f(x)?;
    let d = |dx: f64| -> Option<Vec<f64>> {
        let a = f(x + dx)?;
        let b = f(x + 2.0 * dx)?;
        Some(
            (0..f0.len())
                .map(|i| (-3.0 * f0[i] + 4.0 * a[i] - b[i]) / (2.0 * dx))
                .collect(),
        )
    };
    let d1 = d(dx)?;
    let d2 = d(0.5 * dx)?;
    let r: Vec<f64> = d1.iter().zip(&d2).map(|(d1, d2)| (4.0 * d2 - d1) / 3.0).collect();
    let err = (0..r.len())
        .map(|i| (r[i] - d2[i]).abs() + 16.0 * noise[i] / dx)
        .collect();
    Some(Est { d: r, err })
}

/// estimates of d f / d x with relative steps `hs`
pub fn ests_rel<F: Fn(f64) -> Option<Vec<f64>>>(f: F, x: f64, hs: &[f64]) -> Vec<Est> {
    let Some(n) = noise(&f, x) else {
        return vec![];
    };
    hs.iter()
        .filter_map(|&h| est_central(&f, x, h * x.abs(), &n))
        .collect()
}

/// estimates of the derivative w.r.t. a mole number n_k: steps relative to the total
/// amount (central if the component is abundant enough, forward otherwise) and steps
/// relative to n_k itself
pub fn ests_n<F: Fn(f64) -> Option<Vec<f64>>>(f: F, nk: f64, ntot: f64) -> Vec<Est> {
    let Some(n) = noise(&f, nk) else {
        return vec![];
    };
    let mut out = Vec::new();
    for h in [1e-3, 1e-4] {
        let dx = h * ntot;
        let e = if nk > 2.0 * dx {
            est_central(&f, nk, dx, &n)
        } else {
            est_forward(&f, nk, dx, &n)
        };
        if let Some(e) = e {
            out.push(e);
        }
    }
    for h in [3e-2, 1e-3] {
        if let Some(e) = est_central(&f, nk, h * nk, &n) {
            out.push(e);
        }
    }
    out
}

pub struct Judgement {
    /// deviation beyond three error bars, scaled by max(|ad|,|fd|,scale)
    pub dev: f64,
    pub fd: f64,
    /// error bar of the estimate used, same scaling
    pub relerr: f64,
}

/// compare the analytic value with the estimate of component `i` that has the
/// smallest error bar (`sign` flips the estimate, e.g. p = -dA/dV)
pub fn judge(ad: f64, ests: &[Est], i: usize, sign: f64, scale: f64) -> Option<Judgement> {
    let e = ests
        .iter()
        .filter(|e| e.d[i].is_finite() && e.err[i].is_finite())
        .min_by(|a, b| a.err[i].partial_cmp(&b.err[i]).unwrap())?;
    let fd = sign * e.d[i];
    if !ad.is_finite() {
        return Some(Judgement {
            dev: f64::INFINITY,
            fd,
            relerr: 0.0,
        });
    }
    let den = ad.abs().max(fd.abs()).max(scale.abs()).max(f64::MIN_POSITIVE);
    Some(Judgement {
        dev: ((ad - fd).abs() - 3.0 * e.err[i]).max(0.0) / den,
        fd,
        relerr: e.err[i] / den,
    })
}

/// |a-b| / max(|a|,|b|,scale)
pub fn serr(a: f64, b: f64, scale: f64) -> f64 {
    crate::monitor::scaled_err(a, b, scale)
}
