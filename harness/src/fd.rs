//! Finite differences with one Richardson step.

/// d f / d x at x, central differences with relative step `h` (absolute step h*|x|)
/// and one Richardson extrapolation. `f` returns a vector of observables; `None`
/// (state could not be built) propagates.
pub fn deriv<F: Fn(f64) -> Option<Vec<f64>>>(f: F, x: f64, h: f64) -> Option<Vec<f64>> {
    deriv_abs(f, x, h * x.abs())
}

/// same with an absolute step
pub fn deriv_abs<F: Fn(f64) -> Option<Vec<f64>>>(f: F, x: f64, dx: f64) -> Option<Vec<f64>> {
    let d = |dx: f64| -> Option<Vec<f64>> {
        let a = f(x + dx)?;
        let b = f(x - dx)?;
        Some(a.iter().zip(&b).map(|(a, b)| (a - b) / (2.0 * dx)).collect())
    };
    let d1 = d(dx)?;
    let d2 = d(0.5 * dx)?;
    Some(
        d1.iter()
            .zip(&d2)
            .map(|(d1, d2)| (4.0 * d2 - d1) / 3.0)
            .collect(),
    )
}

/// |a-b| / max(|a|,|b|,scale)
pub fn serr(a: f64, b: f64, scale: f64) -> f64 {
    crate::monitor::scaled_err(a, b, scale)
}

/// forward (one-sided) second-order difference with one Richardson step; used when
/// x - dx would leave the domain (mole number of a dilute component)
pub fn deriv_fwd<F: Fn(f64) -> Option<Vec<f64>>>(f: F, x: f64, dx: f64) -> Option<Vec<f64>> {
    let f0 = f(x)?;
    let d = |dx: f64| -> Option<Vec<f64>> {
        let a = f(x + dx)?;
        let b = f(x + 2.0 * dx)?;
        Some(
            (0..f0.len())
                .map(|i| (-3.0 * f0[i] + 4.0 * a[i] - b[i]) / (2.0 * dx))
                .collect(),
        )
    };
    let d1 = d(dx)?;
    let d2 = d(0.5 * dx)?;
    Some(
        d1.iter()
            .zip(&d2)
            .map(|(d1, d2)| (4.0 * d2 - d1) / 3.0)
            .collect(),
    )
}

/// derivative w.r.t. a mole number: step relative to the total amount; central if the
/// component is abundant enough, forward otherwise
pub fn deriv_n<F: Fn(f64) -> Option<Vec<f64>>>(f: F, nk: f64, ntot: f64, h: f64) -> Option<Vec<f64>> {
    let dx = h * ntot;
    if nk > 2.0 * dx {
        deriv_abs(f, nk, dx)
    } else {
        deriv_fwd(f, nk, dx)
    }
}

/// Several finite-difference estimates of the same derivative with different step
/// choices. A derivative getter is accepted if it agrees with any of them: a wrong
/// analytic value disagrees with all, while a single step choice can be spoiled by
/// round-off (tiny steps at low density) or by truncation (a step that is large on
/// the scale on which the function varies, e.g. association of a dilute component).
pub fn deriv_t_or_v<F: Fn(f64) -> Option<Vec<f64>>>(f: F, x: f64) -> Vec<Vec<f64>> {
    [1e-3, 1e-4]
        .iter()
        .filter_map(|&h| deriv(&f, x, h))
        .collect()
}

pub fn deriv_n_multi<F: Fn(f64) -> Option<Vec<f64>>>(f: F, nk: f64, ntot: f64) -> Vec<Vec<f64>> {
    let mut out = Vec::new();
    if let Some(d) = deriv_n(&f, nk, ntot, 1e-3) {
        out.push(d);
    }
    if let Some(d) = deriv(&f, nk, 1e-3) {
        out.push(d);
    }
    if let Some(d) = deriv(&f, nk, 3e-2) {
        out.push(d);
    }
    out
}

/// smallest scaled deviation of `ad` from the estimates (component `i`)
pub fn best_dev(ad: f64, ests: &[Vec<f64>], i: usize, sign: f64, scale: f64) -> (f64, f64) {
    let mut best = (f64::INFINITY, f64::NAN);
    for e in ests {
        let d = serr(ad, sign * e[i], scale);
        if d < best.0 || best.1.is_nan() {
            best = (d, sign * e[i]);
        }
    }
    best
}
