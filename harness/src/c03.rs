//! C03 — a constructed state reproduces its specification, or construction fails.
use crate::c01::{joback_for, Eos};
use crate::monitor::*;
use crate::prng::{hash_f64s, Rng};
use crate::zoo::*;
use feos_core::verif::{self, Site};
use feos_core::{
    Contributions, DensityInitialization, EquationOfState, ReferenceSystem, Residual, State,
};
use ndarray::{arr1, Array1};
use quantity::*;
use serde_json::{json, Value};
use std::panic::{catch_unwind, AssertUnwindSafe};
use std::sync::Arc;

const TOL_P: f64 = 1e-7;

/// pressure mismatch in the solver's own terms: the density iteration stops at an absolute
/// error of 1e-12 (reduced units) or a relative error of 1e-14 of the density scale
fn p_dev(got: f64, want: f64) -> f64 {
    ((got - want).abs() - 5e-12).max(0.0) / want.abs()
}

pub fn run(cfg: Config) -> i32 {
    let mut m = Monitor::new(cfg.clone());
    // library panics are observations, not crashes of the harness
    std::panic::set_hook(Box::new(|_| {}));
    echo(&mut m, &cfg);
    tp_grid(&mut m, &cfg);
    tp_random(&mut m, &cfg);
    caloric_targets(&mut m, &cfg);
    let _ = std::panic::take_hook();
    m.gate(m.clause_checked("echo:class matches documented rule") >= 200, "fewer than 200 input subsets");
    m.gate(m.clause_checked("tp:success") >= 2000, "(T,p) success grid too small");
    m.gate(m.clause_checked("tp:root selection (no hint)") >= 200, "fewer than 200 root-selection cases");
    m.gate(m.clause_checked("newton:target reproduced") >= 100, "fewer than 100 converged (p,h)/(p,s)/(T,h)/(T,s)/(V,u) constructions");
    m.finish(
        "(a) subsets of the optional State::new / new_full inputs (all 2^10 subsets at thorough, 250 random at quick) with valid / NaN / inf / negative / wrong-length values against a re-implementation of the documented determination rule; (b) deterministic (T,p,hint) success grid over every record of the gross2001/2002/2005/2006 collections (T in [0.45,1.65] T_c, p in [1e-4,10] p_c log-spaced, 3 hints), root selection against a 400-point density scan; (c) seeded random (T,p,initial density) over the model zoo, p reproduced whenever Ok, hook trace 'exhausted loop => pressure still matches'; (d) (p,h),(p,s),(T,h),(T,s),(V,u) targets generated from reachable single-phase states. distinct by hash of the case",
        false,
        &[
            "documented determination rule re-implemented in the harness (echo_expect) is the reference for Ok/Err classification",
            "density scan with 400 log-spaced points + bisection finds all mechanically stable roots that matter for root selection",
        ],
    )
}

// ------------------------------------------------------------------------------------
// (a) echo of the inputs
// ------------------------------------------------------------------------------------

#[derive(Clone, Debug, Default)]
struct Inputs {
    t: Option<f64>,
    v: Option<f64>,
    rho: Option<f64>,
    rho_i: Option<Vec<f64>>,
    n: Option<f64>,
    n_i: Option<Vec<f64>>,
    x: Option<Vec<f64>>,
    p: Option<f64>,
}

#[derive(Debug, PartialEq, Clone, Copy)]
enum Class {
    Direct,
    Iterative,
    Err,
}

/// the documented rule (State::new doc comment): which input sets determine a state
fn echo_expect(i: &Inputs, ncomp: usize) -> Class {
    if i.rho.is_some() && i.rho_i.is_some() {
        return Class::Err;
    }
    let rho = i.rho.or_else(|| i.rho_i.as_ref().map(|r| r.iter().sum()));
    if i.n.is_some() && i.n_i.is_some() {
        return Class::Err;
    }
    let mut n = i.n.or_else(|| i.n_i.as_ref().map(|r| r.iter().sum()));
    if rho.is_some() && n.is_some() && i.v.is_some() {
        return Class::Err;
    }
    if n.is_none() {
        if let (Some(r), Some(v)) = (rho, i.v) {
            n = Some(r * v);
        }
    }
    if i.rho_i.is_some() && i.n_i.is_some() {
        return Class::Err;
    }
    let have_x = i.rho_i.is_some() || i.n_i.is_some();
    if have_x && i.x.is_some() {
        return Class::Err;
    }
    if !have_x && i.x.is_none() && ncomp != 1 {
        return Class::Err;
    }
    // vector lengths
    for v in [&i.rho_i, &i.n_i, &i.x].into_iter().flatten() {
        if v.len() != ncomp {
            return Class::Err;
        }
    }
    if i.v.is_none() && n.is_none() {
        n = Some(1.0);
    }
    let v = i.v.or_else(|| rho.and_then(|r| n.map(|n| n / r)));
    if v.is_some() && i.t.is_some() && n.is_some() {
        return Class::Direct;
    }
    if i.p.is_some() && i.t.is_some() && (n.is_some() || v.is_some()) {
        return Class::Iterative;
    }
    Class::Err
}

fn echo(m: &mut Monitor, cfg: &Config) {
    let col = Collections::load();
    let ncases: u64 = cfg.tier.pick(256 * 6, 256 * 48);
    let idx: Vec<u64> = (0..ncases).collect();
    par_cases(m, &idx, |m, _, &i| {
        let mut rng = Rng::derive(cfg.seed, "c03-echo", i);
        let nc = 1 + rng.below(3);
        let fam = *rng.choose(&["pr", "pcsaft", "pets"]);
        let Some(spec) = random_spec(&col, fam, nc, &mut rng) else {
            return;
        };
        let Ok(mc) = ModelCase::new(fam, spec) else {
            return;
        };
        let eos = &mc.eos;
        // subset mask: exhaustive over the 8 bits, 6 (quick) / 16 (thorough) random value sets each
        let mask = (i % 256) as u32;
        let base = sample_state(&mc, &mut rng, 1.05, 2.0);
        let x = base.x.clone();
        let rho = base.rho.min(0.3 * max_density(eos, &x));
        let ntot = base.ntot;
        let vol = ntot / rho;
        let Some(st0) = state_tvn(eos, base.t, vol, &(Array1::from_vec(x.clone()) * ntot)) else {
            return;
        };
        let p0 = st0.pressure(Contributions::Total).to_reduced();
        // corruption of one supplied value
        let corrupt = rng.below(8); // 0..3: none; 4 NaN, 5 inf, 6 negative, 7 wrong length
        let mut inp = Inputs::default();
        let bit = |k: u32| mask & (1 << k) != 0;
        if bit(0) { inp.t = Some(base.t); }
        if bit(1) { inp.v = Some(vol); }
        if bit(2) { inp.rho = Some(rho); }
        if bit(3) { inp.rho_i = Some(x.iter().map(|x| x * rho).collect()); }
        if bit(4) { inp.n = Some(ntot); }
        if bit(5) { inp.n_i = Some(x.iter().map(|x| x * ntot).collect()); }
        if bit(6) { inp.x = Some(x.clone()); }
        if bit(7) && p0 > 0.0 { inp.p = Some(p0); }
        let mut corrupted = false;
        let mut wrong_len = false;
        if corrupt >= 4 {
            let bad = match corrupt { 4 => f64::NAN, 5 => f64::INFINITY, _ => -1.0 };
            // corrupt the first present scalar among T, V, N (the quantities the statement names)
            if corrupt == 7 {
                if let Some(v) = inp.n_i.as_mut() { v.push(0.1); wrong_len = true; }
                else if let Some(v) = inp.x.as_mut() { v.push(0.1); wrong_len = true; }
            } else if inp.t.is_some() && rng.bool(0.5) { inp.t = Some(bad * inp.t.unwrap().abs().max(1.0)); corrupted = true; }
            else if inp.v.is_some() { inp.v = Some(bad * inp.v.unwrap().abs().max(1.0)); corrupted = true; }
            else if inp.n.is_some() { inp.n = Some(bad * 1.0); corrupted = true; }
            else if let Some(v) = inp.n_i.as_mut() { v[0] = bad; corrupted = true; }
            else if inp.t.is_some() { inp.t = Some(bad * 300.0); corrupted = true; }
        }
        let case = 10_000_000 + i;
        let q = |o: Option<f64>| o;
        let rho_i_q = inp.rho_i.as_ref().map(|v| Density::from_reduced(Array1::from_vec(v.clone())));
        let n_i_q = inp.n_i.as_ref().map(|v| Moles::from_reduced(Array1::from_vec(v.clone())));
        let x_q = inp.x.as_ref().map(|v| Array1::from_vec(v.clone()));
        let hint = match rng.below(3) { 0 => DensityInitialization::None, 1 => DensityInitialization::Vapor, _ => DensityInitialization::Liquid };
        let res = catch_unwind(AssertUnwindSafe(|| {
            State::new(
                eos,
                q(inp.t).map(Temperature::from_reduced),
                q(inp.v).map(Volume::from_reduced),
                q(inp.rho).map(Density::from_reduced),
                rho_i_q.as_ref(),
                q(inp.n).map(Moles::from_reduced),
                n_i_q.as_ref(),
                x_q.as_ref(),
                q(inp.p).map(Pressure::from_reduced),
                hint,
            )
        }));
        let info = json!({"model": mc.label(), "mask": mask, "inputs": format!("{inp:?}"), "corruption": corrupt});
        m.case("echo", hash_f64s("echo", &[mask as f64, corrupt as f64, nc as f64, base.t]), true);
        if m.samples.len() < 2 { m.sample(info.clone()); }
        let Ok(res) = res else {
            m.check_bool("echo:no panic", "echo|panic", case, false, || info.clone());
            return;
        };
        m.check_bool("echo:no panic", "echo|panic", case, true, || info.clone());
        let expect = if corrupted || wrong_len { Class::Err } else { echo_expect(&inp, nc) };
        match (&res, expect) {
            (Err(_), Class::Err) => {
                m.check_bool("echo:class matches documented rule", "echo|class", case, true, || info.clone());
            }
            (Ok(_), Class::Err) => {
                let what = if corrupted { "echo|invalid value accepted" } else if wrong_len { "echo|wrong length accepted" } else { "echo|undetermined or overdetermined set accepted" };
                m.check_bool("echo:class matches documented rule", what, case, false, || info.clone());
            }
            (Err(e), Class::Direct) => {
                let e = format!("{e}");
                m.check_bool("echo:class matches documented rule", "echo|determined set rejected", case, false, || json!({"info": info, "error": e}));
            }
            (Err(_), Class::Iterative) => {
                // density iteration may legitimately fail
                m.skip("echo", "iterative construction failed (allowed)");
            }
            (Ok(_), _) => {
                m.check_bool("echo:class matches documented rule", "echo|class", case, true, || info.clone());
            }
        }
        if let Ok(s) = &res {
            let tol = 1e-13;
            let chk = |m: &mut Monitor, nm: &str, got: f64, want: f64| {
                m.check(&format!("echo:{nm}"), &format!("echo|{nm}"), case, crate::fd::serr(got, want, 0.0), tol, || json!({"info": info, "got": got, "want": want}));
            };
            if let Some(t) = inp.t { chk(m, "T", s.temperature.to_reduced(), t); }
            if let Some(v) = inp.v { chk(m, "V", s.volume.to_reduced(), v); }
            if let Some(r) = inp.rho { chk(m, "rho", s.density.to_reduced(), r); }
            if let Some(r) = &inp.rho_i { for k in 0..nc { chk(m, "rho_i", s.partial_density.to_reduced()[k], r[k]); } }
            if let Some(n) = inp.n { chk(m, "N", s.total_moles.to_reduced(), n); }
            if let Some(n) = &inp.n_i { for k in 0..nc { chk(m, "N_i", s.moles.to_reduced()[k], n[k]); } }
            if let Some(x) = &inp.x { for k in 0..nc { chk(m, "x_i", s.molefracs[k], x[k]); } }
            if let (Some(p), Class::Iterative) = (inp.p, expect) {
                m.check("echo:p", "echo|p", case, p_dev(s.pressure(Contributions::Total).to_reduced(), p), TOL_P, || info.clone());
            }
            let fin = s.temperature.to_reduced().is_finite() && s.volume.to_reduced() > 0.0 && s.moles.to_reduced().iter().all(|n| n.is_finite() && *n >= 0.0);
            m.check_bool("echo:state finite and non-negative", "echo|finite", case, fin, || info.clone());
        }
    });
}

// ------------------------------------------------------------------------------------
// (b) (T,p) success grid and root selection
// ------------------------------------------------------------------------------------

/// mechanically stable roots of p(rho) = p at temperature t, by scan + bisection
fn stable_roots(eos: &Arc<Model>, t: f64, p: f64) -> Vec<f64> {
    let rmax = eos.compute_max_density(&arr1(&[1.0]));
    let pf = |rho: f64| -> Option<(f64, f64)> {
        let s = state_tvn(eos, t, 1.0 / rho, &arr1(&[1.0]))?;
        Some((
            s.pressure(Contributions::Total).to_reduced() - p,
            s.dp_drho(Contributions::Total).to_reduced(),
        ))
    };
    let n = 400;
    let grid: Vec<f64> = (0..=n)
        .map(|i| (1e-9f64.ln() + (1.0f64.ln() - 1e-9f64.ln()) * i as f64 / n as f64).exp() * rmax)
        .collect();
    let mut roots = Vec::new();
    let mut prev: Option<(f64, f64)> = None;
    for &r in &grid {
        let Some((f, _)) = pf(r) else {
            prev = None;
            continue;
        };
        if let Some((r0, f0)) = prev {
            if f0 < 0.0 && f >= 0.0 {
                // increasing crossing: bisect
                let (mut a, mut b) = (r0, r);
                for _ in 0..60 {
                    let c = 0.5 * (a + b);
                    match pf(c) {
                        Some((fc, _)) if fc < 0.0 => a = c,
                        Some(_) => b = c,
                        None => break,
                    }
                }
                let root = 0.5 * (a + b);
                if let Some((_, d)) = pf(root) {
                    if d > 0.0 {
                        roots.push(root);
                    }
                }
            }
        }
        prev = Some((r, f));
    }
    roots
}

fn g_res(eos: &Arc<Model>, t: f64, rho: f64) -> Option<f64> {
    let s = state_tvn(eos, t, 1.0 / rho, &arr1(&[1.0]))?;
    Some(s.residual_molar_gibbs_energy().to_reduced())
}

fn tp_grid(m: &mut Monitor, cfg: &Config) {
    let recs = shipped_pcsaft(GROSS_FILES);
    let (nt, np) = cfg.tier.pick((13, 9), (49, 41));
    par_cases(m, &recs, |m, ci, s| {
        let spec = Spec::new(Kind::PcSaft, vec![s.record.clone()]);
        let Ok(eos) = spec.build() else {
            return;
        };
        let Ok(cp) = State::critical_point(&eos, None, None, Default::default()) else {
            return;
        };
        let (tc, pc) = (cp.temperature.to_reduced(), cp.pressure(Contributions::Total).to_reduced());
        let one = Moles::from_reduced(arr1(&[1.0]));
        let mut rng = Rng::derive(cfg.seed, "c03-grid", ci);
        let scan_at: Vec<(usize, usize)> = (0..4).map(|_| (rng.below(nt), rng.below(np))).collect();
        for it in 0..nt {
            let t = tc * (0.45 + 1.2 * it as f64 / (nt - 1) as f64);
            for ip in 0..np {
                let p = pc * (1e-4f64.ln() + (10.0f64.ln() - 1e-4f64.ln()) * ip as f64 / (np - 1) as f64).exp();
                let mut returned = [f64::NAN; 3];
                for (ih, hint) in [DensityInitialization::None, DensityInitialization::Vapor, DensityInitialization::Liquid].into_iter().enumerate() {
                    let case = ci * 100_000 + (it * 1000 + ip * 10 + ih) as u64;
                    let hn = ["None", "Vapor", "Liquid"][ih];
                    let sig = format!("tp success|{}|{}|hint={}", s.file, s.name, hn);
                    verif::trace_begin();
                    let r = State::new_npt(&eos, Temperature::from_reduced(t), Pressure::from_reduced(p), &one, hint);
                    let trace = verif::trace_end();
                    let info = || json!({"file": s.file, "name": s.name, "T/Tc": t / tc, "p/pc": p / pc, "hint": hn});
                    match r {
                        Ok(st) => {
                            m.check_bool("tp:success", &sig, case, true, info);
                            let dev = p_dev(st.pressure(Contributions::Total).to_reduced(), p);
                            m.check("tp:pressure reproduced", &format!("tp pressure|hint={hn}"), case, dev, TOL_P, info);
                            m.check_bool("tp:T echoed", "tp T", case, st.temperature.to_reduced() == t, info);
                            if trace.contains(&Site::DensityIterExhausted) {
                                m.count("density_iteration_exhausted_but_ok", 1);
                            }
                            returned[ih] = st.density.to_reduced();
                            m.case("tp-grid", hash_f64s(&s.name, &[t, p, ih as f64]), true);
                            // cross-route oracle: the (T,p,V) input set must honour the same hint as (T,p,N):
                            // same density (hence same branch), and V echoed exactly.
                            if (it + 2 * ip + ih) % 3 == 0 || scan_at.contains(&(it, ip)) {
                                let v = 1e3 * (1.0 + 0.37 * ((it * 31 + ip * 7) % 11) as f64);
                                let r2 = State::new(&eos, Some(Temperature::from_reduced(t)), Some(Volume::from_reduced(v)), None, None, None, None, None, Some(Pressure::from_reduced(p)), hint);
                                match r2 {
                                    Ok(s2) => {
                                        let d = (s2.density.to_reduced() / returned[ih] - 1.0).abs();
                                        m.check("tpv:same branch as (T,p,N) with the same hint", &format!("tpv branch|hint={hn}"), case, d, 1e-6, info);
                                        m.check_bool("tpv:V and T echoed", "tpv echo", case, s2.volume.to_reduced() == v && s2.temperature.to_reduced() == t, info);
                                    }
                                    Err(e) => {
                                        let e = format!("{e}");
                                        m.check_bool("tpv:succeeds where (T,p,N) succeeds", &format!("tpv success|hint={hn}"), case, false, || json!({"file": s.file, "name": s.name, "T/Tc": t / tc, "p/pc": p / pc, "hint": hn, "error": e}));
                                    }
                                }
                            }
                        }
                        Err(e) => {
                            let e = format!("{e}");
                            m.check_bool("tp:success", &sig, case, false, || json!({"file": s.file, "name": s.name, "T/Tc": t / tc, "p/pc": p / pc, "hint": hn, "error": e}));
                        }
                    }
                }
                // root selection at one grid point per record (the scan costs 400+ evaluations)
                if scan_at.contains(&(it, ip)) || cfg.tier == Tier::Thorough && (it * 7 + ip) % 97 == 0 {
                    let roots = stable_roots(&eos, t, p);
                    if roots.is_empty() {
                        m.skip("tp:root selection", "scan found no root");
                        continue;
                    }
                    let case = ci * 100_000 + (it * 1000 + ip * 10) as u64 + 9;
                    let info = || json!({"file": s.file, "name": s.name, "T/Tc": t / tc, "p/pc": p / pc, "roots": roots, "returned": returned});
                    let (lo, hi) = (roots[0], roots[roots.len() - 1]);
                    let near = |a: f64, b: f64| (a / b - 1.0).abs() < 1e-6;
                    if returned[0].is_finite() {
                        let gs: Vec<f64> = roots.iter().filter_map(|r| g_res(&eos, t, *r)).collect();
                        if gs.len() == roots.len() {
                            let (kbest, gbest) = gs.iter().enumerate().min_by(|a, b| a.1.partial_cmp(b.1).unwrap()).map(|(k, g)| (k, *g)).unwrap();
                            let second = gs.iter().enumerate().filter(|(k, _)| *k != kbest).map(|(_, g)| *g).fold(f64::INFINITY, f64::min);
                            if roots.len() == 1 || (second - gbest) > 1e-6 * t {
                                m.check_bool("tp:root selection (no hint)", "tp root|None", case, near(returned[0], roots[kbest]), info);
                            } else {
                                m.skip("tp:root selection", "roots degenerate in Gibbs energy");
                            }
                        }
                    }
                    if roots.len() >= 2 {
                        if returned[1].is_finite() {
                            m.check_bool("tp:root selection (vapor hint)", "tp root|Vapor", case, near(returned[1], lo), info);
                        }
                        if returned[2].is_finite() {
                            m.check_bool("tp:root selection (liquid hint)", "tp root|Liquid", case, near(returned[2], hi), info);
                        }
                    }
                }
            }
        }
    });
}

fn tp_random(m: &mut Monitor, cfg: &Config) {
    let col = Collections::load();
    let n = cfg.tier.pick(12_000, 600_000);
    let idx: Vec<u64> = (0..n).collect();
    par_cases(m, &idx, |m, _, &i| {
        let mut rng = Rng::derive(cfg.seed, "c03-tp", i / 20);
        let fam = *rng.choose(EOS_FAMILIES);
        if fam == "epcsaft" {
            return;
        }
        let nc = 1 + rng.below(3);
        let Some(spec) = random_spec(&col, fam, nc, &mut rng) else {
            return;
        };
        let Ok(mc) = ModelCase::new(fam, spec) else {
            return;
        };
        let mut rng = Rng::derive(cfg.seed, "c03-tp-state", i);
        let ss = sample_state(&mc, &mut rng, 0.45, 2.0);
        let Some(st0) = make_state(&mc.eos, &ss) else {
            return;
        };
        // target pressure from a reachable state, scaled by a random factor
        let p0 = st0.pressure(Contributions::Total).to_reduced();
        if !(p0.is_finite() && p0 > 0.0) {
            return;
        }
        let p = p0 * rng.log_range(0.3, 3.0);
        let rmax = max_density(&mc.eos, &ss.x);
        let init = match rng.below(4) {
            0 => DensityInitialization::None,
            1 => DensityInitialization::Vapor,
            2 => DensityInitialization::Liquid,
            _ => DensityInitialization::InitialDensity(Density::from_reduced(rmax * rng.log_range(1e-6, 1.0))),
        };
        let case = 30_000_000 + i;
        verif::trace_begin();
        let r = catch_unwind(AssertUnwindSafe(|| State::new_npt(&mc.eos, ss.temperature(), Pressure::from_reduced(p), &ss.moles(), init)));
        let trace = verif::trace_end();
        let info = json!({"model": mc.spec, "state": ss.json(), "p_target": p});
        let Ok(r) = r else {
            m.check_bool("tp-random:no panic", &format!("{fam}|tp panic"), case, false, || info.clone());
            return;
        };
        let Ok(st) = r else {
            m.skip("tp-random", "Err (allowed)");
            return;
        };
        m.case(&format!("tp:{fam}"), ss.hash(&format!("{}{p}", mc.label())), true);
        let dev = p_dev(st.pressure(Contributions::Total).to_reduced(), p);
        let exhausted = trace.contains(&Site::DensityIterExhausted);
        if exhausted {
            m.count("density_iteration_exhausted_but_ok", 1);
        }
        // trace specification: an accepted state after an exhausted loop must still match
        let clause = if exhausted { "tp-random:pressure reproduced after exhausted loop" } else { "tp-random:pressure reproduced" };
        m.check(clause, &format!("{fam}|tp pressure"), case, dev, TOL_P, || info.clone());
        m.check_bool("tp-random:T and N echoed", &format!("{fam}|tp echo"), case, st.temperature.to_reduced() == ss.t && st.moles.to_reduced().iter().zip(ss.moles().to_reduced().iter()).all(|(a, b)| a == b), || info.clone());
    });
}

// ------------------------------------------------------------------------------------
// (d) Newton wrappers
// ------------------------------------------------------------------------------------

fn caloric_targets(m: &mut Monitor, cfg: &Config) {
    let col = Collections::load();
    let n = cfg.tier.pick(2500, 150_000);
    let idx: Vec<u64> = (0..n).collect();
    par_cases(m, &idx, |m, _, &i| {
        let mut rng = Rng::derive(cfg.seed, "c03-cal", i / 10);
        let fam = *rng.choose(&["pr", "pcsaft", "pcsaft-assoc", "pcsaft-polar", "saftvrmie", "pets", "gc-pcsaft"]);
        let nc = 1 + rng.below(2);
        let Some(spec) = random_spec(&col, fam, nc, &mut rng) else {
            return;
        };
        let Ok(mc) = ModelCase::new(fam, spec) else {
            return;
        };
        let ig = joback_for(nc, &mut rng);
        let eos: Arc<Eos> = Arc::new(EquationOfState::new(ig, mc.eos.clone()));
        let mut rng = Rng::derive(cfg.seed, "c03-cal-state", i);
        // reachable single-phase state: supercritical or clearly one-phase
        let ss = sample_state(&mc, &mut rng, 1.1, 2.5);
        let Ok(s0) = State::new_nvt(&eos, ss.temperature(), ss.volume(), &ss.moles()) else {
            return;
        };
        let c = Contributions::Total;
        let p0 = s0.pressure(c);
        if !(p0.to_reduced() > 0.0 && s0.dp_dv(c).to_reduced() < 0.0) {
            return;
        }
        let (h, s, u) = (s0.molar_enthalpy(c), s0.molar_entropy(c), s0.molar_internal_energy(c));
        let n_ = ss.moles();
        let t_init = if rng.bool(0.5) { None } else { Some(Temperature::from_reduced(ss.t * rng.range(0.7, 1.4))) };
        let rho_init = match rng.below(3) {
            0 => DensityInitialization::None,
            1 => DensityInitialization::InitialDensity(s0.density * rng.range(0.5, 2.0)),
            _ => DensityInitialization::Vapor,
        };
        let which = rng.below(5);
        let case = 40_000_000 + i;
        let name = ["(p,h)", "(p,s)", "(T,h)", "(T,s)", "(V,u)"][which];
        let r = catch_unwind(AssertUnwindSafe(|| match which {
            0 => State::new_nph(&eos, p0, h, &n_, rho_init, t_init),
            1 => State::new_nps(&eos, p0, s, &n_, rho_init, t_init),
            2 => State::new_nth(&eos, ss.temperature(), h, &n_, rho_init),
            3 => State::new_nts(&eos, ss.temperature(), s, &n_, rho_init),
            _ => State::new_nvu(&eos, ss.volume(), u, &n_, t_init),
        }));
        let info = json!({"model": mc.spec, "state": ss.json(), "spec": name});
        let Ok(r) = r else {
            m.check_bool("newton:no panic", &format!("{fam}|newton panic|{name}"), case, false, || info.clone());
            return;
        };
        let Ok(st) = r else {
            m.skip("newton", "Err (allowed)");
            return;
        };
        m.case(&format!("newton:{name}"), ss.hash(&format!("{}{which}", mc.label())), true);
        // natural scales: R T for energies, R for entropies (reduced: k_B = 1)
        let t = st.temperature.to_reduced();
        let (got, want, scale) = match which {
            0 | 2 => (st.molar_enthalpy(c).to_reduced(), h.to_reduced(), t),
            1 | 3 => (st.molar_entropy(c).to_reduced(), s.to_reduced(), 1.0),
            _ => (st.molar_internal_energy(c).to_reduced(), u.to_reduced(), t),
        };
        // solver tolerance: the wrapper returns the state of the last iterate once the Newton
        // step is below atol + rtol |x| (x = density for (T,h),(T,s): atol 1e-12 A^-3;
        // x = temperature otherwise: atol 1e-8 K; rtol 1e-10). The admissible error of the
        // target is that step times the slope of the target, measured here by a finite difference.
        let slope_allow = if which == 2 || which == 3 {
            let rho = st.density.to_reduced();
            let f = |r: f64| -> Option<f64> {
                let s2 = State::new_nvt(&eos, st.temperature, st.total_moles / Density::from_reduced(r), &n_).ok()?;
                Some(if which == 2 { s2.molar_enthalpy(c).to_reduced() } else { s2.molar_entropy(c).to_reduced() })
            };
            match (f(rho * (1.0 + 1e-5)), f(rho * (1.0 - 1e-5))) {
                (Some(a), Some(b)) => ((a - b) / (2e-5 * rho)).abs() * 2.0 * (1e-12 + 1e-10 * rho),
                _ => 0.0,
            }
        } else {
            0.0
        };
        let dev = ((got - want).abs() - slope_allow).max(0.0) / want.abs().max(scale);
        m.check("newton:target reproduced", &format!("{fam}|newton target|{name}"), case, dev, 1e-7, || json!({"info": info, "got": got, "want": want, "solver_tolerance_allowance": slope_allow}));
        let echo = match which {
            0 | 1 => (st.pressure(c).to_reduced() / p0.to_reduced() - 1.0).abs(),
            2 | 3 => (st.temperature.to_reduced() / ss.t - 1.0).abs(),
            _ => (st.volume.to_reduced() / ss.volume().to_reduced() - 1.0).abs(),
        };
        m.check("newton:specified p / T / V echoed", &format!("{fam}|newton echo|{name}"), case, echo, if which < 2 { TOL_P } else { 1e-14 }, || info.clone());
        let _: Option<Value> = None;
    });
}
