//! C02 — extensivity: Euler and Gibbs-Duhem relations between the cached derivatives of
//! one state, scale invariance under (V,N) -> (lambda V, lambda N), partial molar sums.
use crate::c01::{joback_for, Eos};
use crate::monitor::*;
use crate::prng::Rng;
use crate::stream::*;
use crate::zoo::*;
use feos_core::{Contributions, Derivative, EquationOfState, ReferenceSystem, Residual, State};
use ndarray::Array1;
use quantity::*;
use serde_json::json;
use std::sync::Arc;

// worst round-off seen on the unchanged tree over ~2e6 thorough cases: 3.05e-10 (gc-PC-SAFT, second
// composition derivatives); seeded errors are >= 1e-6
pub const TOL: f64 = 1e-9;
pub const TOL_SCALE: f64 = 1e-9;

fn rel(terms: &[f64]) -> f64 {
    let s: f64 = terms.iter().sum();
    let a: f64 = terms.iter().map(|t| t.abs()).sum();
    if !s.is_finite() {
        return f64::INFINITY;
    }
    if a == 0.0 {
        0.0
    } else {
        s.abs() / a
    }
}

pub fn run(cfg: Config) -> i32 {
    let mut m = Monitor::new(cfg.clone());
    let (reps, nstates) = stream_sizes(cfg.tier);
    let stream = build_stream(
        cfg.seed,
        "c02",
        EOS_FAMILIES,
        &[1, 2, 3, 4],
        reps,
        nstates,
        true,
        0.4,
        3.0,
    );
    m.note("models", json!(stream.len()));
    par_cases(&mut m, &stream, |m, ci, sc| {
        for (si, ss) in sc.states.iter().enumerate() {
            let case = ci * 10_000 + si as u64;
            check_state(m, case, &sc.mc, ss, cfg.seed);
        }
    });
    let fams: Vec<String> = m.families.keys().cloned().collect();
    for f in EOS_FAMILIES {
        m.gate(
            fams.iter().any(|x| x == f),
            &format!("family {f} produced no case"),
        );
    }
    m.gate(m.distinct.len() >= 200, "fewer than 200 distinct non-trivial states");
    m.finish(
        "same state stream as C01 (all model families incl. functionals, 1-4 components); identities between derivatives of one state, swapped hyper-dual seeding for symmetry, (lambda V, lambda N) copies with lambda log-uniform in [1e-3,1e3]; non-trivial = |A_res| > 1e-9 N k T",
        false,
        &[
            "identities are evaluated relative to the sum of the absolute values of their terms",
            "verif hooks do not alter results",
        ],
    )
}

fn check_state(m: &mut Monitor, case: u64, mc: &ModelCase, ss: &StateSpec, seed: u64) {
    let eos = &mc.eos;
    let Some(st) = make_state(eos, ss) else {
        m.skip("state", "invalid");
        return;
    };
    let t = ss.t;
    let v = ss.volume().to_reduced();
    let n: Array1<f64> = ss.moles().to_reduced();
    let ntot = ss.ntot;
    let a = st.residual_helmholtz_energy().to_reduced();
    if !a.is_finite() {
        m.skip("state", &format!("non-finite A ({})", mc.family));
        return;
    }
    let nontrivial = a.abs() > 1e-9 * ntot * t;
    m.case(&mc.family, ss.hash(&mc.label()), nontrivial);
    if !nontrivial {
        return;
    }
    let fam = mc.family.as_str();
    let nc = mc.n;
    let det = |clause: &str, terms: Vec<f64>| {
        let model = mc.spec.clone();
        let ss = ss.clone();
        let clause = clause.to_string();
        move || json!({"clause": clause, "model": model, "state": ss.json(), "terms": terms})
    };
    if m.samples.len() < 3 {
        m.sample(json!({"model": mc.label(), "state": ss.json()}));
    }
    // round-off model: residual properties lose ~1e-16/eta relative precision at low
    // packing fraction; second composition derivatives of chain functionals carry
    // cancelling (m-1)/N_k terms for dilute components
    let xmin = ss.x.iter().cloned().fold(1.0, f64::min);
    let lowdens = (1e-1 / ss.eta_frac).max(1.0) * if mc.family.ends_with("functional") { 10.0 } else { 1.0 };
    let dilute = (1e-2 / xmin).max(1.0);
    let chk = |m: &mut Monitor, name: &str, terms: Vec<f64>, tol: f64| {
        // the Helmholtz energy of the state is finite (checked above); a NaN in one of its
        // derivatives is a failure of its own (iterative association solvers, findings F26 / F36),
        // reported once per family instead of as an infinite deviation of every identity
        if terms.iter().any(|t| !t.is_finite()) {
            m.check_bool("identities:terms finite", &format!("{fam}|non-finite derivative in an identity"), case, false, det(name, terms.clone()));
            return;
        }
        let sig = format!("{fam}|{name}");
        m.check(name, &sig, case, rel(&terms), tol * lowdens, det(name, terms.clone()));
    };

    {
        // A is finite; are its derivatives?
        let r = Contributions::Residual;
        let all_finite = st.pressure(r).to_reduced().is_finite()
            && st.residual_chemical_potential().to_reduced().iter().all(|x| x.is_finite())
            && st.dp_dv(r).to_reduced().is_finite()
            && st.dp_dni(r).to_reduced().iter().all(|x| x.is_finite())
            && st.dmu_dni(r).to_reduced().iter().all(|x| x.is_finite())
            && st.residual_entropy().to_reduced().is_finite();
        if !all_finite {
            m.check_bool("identities:terms finite", &format!("{fam}|non-finite derivative in an identity"), case, false, det("derivatives of a finite A_res", vec![a]));
            return;
        }
    }
    let p = st.pressure(Contributions::Residual).to_reduced();
    let mu = st.residual_chemical_potential().to_reduced();
    // Euler: A + pV - sum mu_i N_i = 0
    let mut terms = vec![a, p * v];
    for i in 0..nc {
        terms.push(-mu[i] * n[i]);
    }
    chk(m, "euler:A+pV-sum(mu N)", terms, TOL);

    // V dp/dV + sum N_i dp/dN_i = 0 (residual and total)
    for (c, nm) in [
        (Contributions::Residual, "gd:V dp/dV+sum(N dp/dN) residual"),
        (Contributions::Total, "gd:V dp/dV+sum(N dp/dN) total"),
    ] {
        let dpdv = st.dp_dv(c).to_reduced();
        let dpdn = st.dp_dni(c).to_reduced();
        let mut terms = vec![v * dpdv];
        for i in 0..nc {
            terms.push(n[i] * dpdn[i]);
        }
        chk(m, nm, terms, TOL);
    }

    // sum_j N_j dmu_i/dN_j = V dp/dN_i
    let dmu = st.dmu_dni(Contributions::Residual).to_reduced();
    let dpdn = st.dp_dni(Contributions::Residual).to_reduced();
    for i in 0..nc {
        let mut terms = vec![-v * dpdn[i]];
        for j in 0..nc {
            terms.push(n[j] * dmu[[i, j]]);
        }
        chk(m, "gd:sum_j N_j dmu_i/dN_j=V dp/dN_i", terms, TOL);
    }

    // symmetry of dmu/dN: independent evaluation with swapped hyper-dual seeding
    for i in 0..nc {
        for j in 0..i {
            let hd = st.derive2_mixed(Derivative::DN(i), Derivative::DN(j));
            let val = (eos.residual_helmholtz_energy(&hd) * hd.temperature).eps1eps2;
            let scale = (a.abs() / (ntot * ntot)).max(dmu[[j, i]].abs());
            let dev = (val - dmu[[j, i]]).abs() / scale;
            let sig = format!("{fam}|symmetry dmu/dN");
            m.check("symmetry:dmu_i/dN_j=dmu_j/dN_i", &sig, case, dev, 1e-9 * lowdens, det("symmetry", vec![val, dmu[[j, i]], dmu[[i, j]]]));
        }
    }

    // sum_i N_i dlnphi_i/dN_j = 0 (T,p const) — needs a mechanically meaningful state
    let dpdv_tot = st.dp_dv(Contributions::Total).to_reduced();
    if dpdv_tot < 0.0 && -dpdv_tot * v > 1e-3 * ntot * t / v {
        let dl = st.dln_phi_dnj().to_reduced();
        for j in 0..nc {
            let terms: Vec<f64> = (0..nc).map(|i| n[i] * dl[[i, j]]).collect();
            // relative to the natural magnitude 1 (ln phi is O(1) per unit composition change)
            let s: f64 = terms.iter().sum();
            // ln phi is O(1) per unit change of composition
            let a_: f64 = terms.iter().map(|x| x.abs()).sum::<f64>().max(1.0);
            let sig = format!("{fam}|gd:sum N dlnphi/dN");
            m.check("gd:sum_i N_i dlnphi_i/dN_j=0", &sig, case, s.abs() / a_, 1e-7 * lowdens, det("gd lnphi", terms.clone()));
        }
        // partial molar volume
        let vi = st.partial_molar_volume().to_reduced();
        let mut terms = vec![-v / ntot];
        for i in 0..nc {
            terms.push(ss.x[i] * vi[i]);
        }
        chk(m, "pm:sum x_i v_i=v", terms, 1e-9);

        // partial molar entropy / enthalpy (ideal gas attached)
        let mut rng = Rng::derive(seed, "c02-joback", case);
        let ig = joback_for(nc, &mut rng);
        let e2: Arc<Eos> = Arc::new(EquationOfState::new(ig, eos.clone()));
        if let Ok(s2) = State::new_nvt(&e2, ss.temperature(), ss.volume(), &ss.moles()) {
            let c = Contributions::Total;
            let si = s2.partial_molar_entropy().to_reduced();
            let hi = s2.partial_molar_enthalpy().to_reduced();
            let s_m = s2.molar_entropy(c).to_reduced();
            let h_m = s2.molar_enthalpy(c).to_reduced();
            let mut ts = vec![-s_m];
            let mut th = vec![-h_m];
            for i in 0..nc {
                ts.push(ss.x[i] * si[i]);
                th.push(ss.x[i] * hi[i]);
            }
            chk(m, "pm:sum x_i s_i=s", ts, 1e-9);
            chk(m, "pm:sum x_i h_i=h", th, 1e-9);
        }
    } else {
        m.skip("gd:sum_i N_i dlnphi_i/dN_j=0", "mechanically unstable state");
    }

    // scale invariance
    let mut rng = Rng::derive(seed, "c02-lambda", case);
    let lam = rng.log_range(1e-3, 1e3);
    if let Some(s2) = state_tvn(eos, t, v * lam, &(&n * lam)) {
        let cmp = |m: &mut Monitor, name: &str, x: f64, y: f64, floor: f64| {
            let sig = format!("{fam}|scale:{name}");
            let dev = crate::fd::serr(x, y, floor);
            let f = if name == "N dmu/dN" { dilute } else { 1.0 };
            m.check(&format!("scale:{name}"), &sig, case, dev, TOL_SCALE * lowdens * f, det(name, vec![x, y, lam]));
        };
        let a2 = s2.residual_helmholtz_energy().to_reduced();
        if !a2.is_finite() {
            // the original state is finite (checked above), its scaled copy is not: reported once,
            // under its own signature (SAFT-VR Mie cross-association NaN, finding F26 of C09)
            m.check_bool("scale:finite", &format!("{fam}|scale: non-finite A_res of the scaled state"), case, false, det("scaled state not finite", vec![a, a2, lam]));
            return;
        }
        // natural magnitude of the residual energy per particle (A itself passes through zero)
        let sa = crate::c01::energy_scale(&st) / ntot;
        cmp(m, "a/N", a / ntot, a2 / (ntot * lam), sa * 1e-3);
        cmp(m, "p", p, s2.pressure(Contributions::Residual).to_reduced(), sa * ntot / v * 1e-3);
        cmp(
            m,
            "s/N",
            st.residual_entropy().to_reduced() / ntot,
            s2.residual_entropy().to_reduced() / (ntot * lam),
            sa / t * 1e-3,
        );
        let mu2 = s2.residual_chemical_potential().to_reduced();
        for i in 0..nc {
            cmp(m, "mu", mu[i], mu2[i], sa * 1e-3);
        }
        cmp(
            m,
            "V dp/dV",
            v * st.dp_dv(Contributions::Residual).to_reduced(),
            v * lam * s2.dp_dv(Contributions::Residual).to_reduced(),
            sa * ntot / v * 1e-3,
        );
        cmp(
            m,
            "cv_res",
            st.residual_molar_isochoric_heat_capacity().to_reduced(),
            s2.residual_molar_isochoric_heat_capacity().to_reduced(),
            1e-6,
        );
        let dmu2 = s2.dmu_dni(Contributions::Residual).to_reduced();
        for i in 0..nc {
            for j in 0..nc {
                cmp(m, "N dmu/dN", ntot * dmu[[i, j]], ntot * lam * dmu2[[i, j]], sa * 1e-3);
            }
        }
    }
}
