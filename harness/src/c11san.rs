//! C11, sanitizer stage: the concurrent workload of /verif/harness-sched (feos-core only,
//! Peng-Robinson, shared Arc<State>, par_pure) executed under ThreadSanitizer (both tiers)
//! and under Miri (thorough). Both rebuild from /repo's working tree (path dependency).
//!
//! Verdicts: a sanitizer report or a value mismatch is a violation; a build failure, a
//! time-out or a crash of the tool is inconclusive (gate), never a violation.
use crate::monitor::*;
use serde_json::json;
use std::io::Read;
use std::path::Path;
use std::process::{Command, Stdio};
use std::time::{Duration, Instant};

pub const CASE_BASE: u64 = 9_000_000;

struct Out {
    code: Option<i32>,
    timed_out: bool,
    text: String,
}

fn run_cmd(cmd: &mut Command, timeout: Duration) -> Out {
    cmd.stdin(Stdio::null()).stdout(Stdio::piped()).stderr(Stdio::piped());
    let Ok(mut child) = cmd.spawn() else {
        return Out { code: None, timed_out: false, text: "spawn failed".into() };
    };
    let mut so = child.stdout.take().unwrap();
    let mut se = child.stderr.take().unwrap();
    let t1 = std::thread::spawn(move || {
        let mut s = String::new();
        let _ = so.read_to_string(&mut s);
        s
    });
    let t2 = std::thread::spawn(move || {
        let mut s = String::new();
        let _ = se.read_to_string(&mut s);
        s
    });
    let start = Instant::now();
    let mut timed_out = false;
    let code = loop {
        match child.try_wait() {
            Ok(Some(st)) => break st.code(),
            Ok(None) => {
                if start.elapsed() > timeout {
                    let _ = child.kill();
                    let _ = child.wait();
                    timed_out = true;
                    break None;
                }
                std::thread::sleep(Duration::from_millis(20));
            }
            Err(_) => break None,
        }
    };
    let text = format!("{}{}", t1.join().unwrap_or_default(), t2.join().unwrap_or_default());
    Out { code, timed_out, text }
}

fn field(text: &str, key: &str) -> u64 {
    text.lines()
        .filter(|l| l.starts_with("SCHED-DONE"))
        .filter_map(|l| l.split_whitespace().find_map(|w| w.strip_prefix(key).and_then(|v| v.strip_prefix('=')).and_then(|v| v.parse::<u64>().ok())))
        .sum()
}

/// first frame of a sanitizer report that lies in the repository, address-free
fn repo_frame(block: &str) -> String {
    for l in block.lines() {
        if l.contains("/repo/") {
            let l = l.trim();
            let mut it = l.split_whitespace();
            let _ = it.next(); // #N
            let func = it.next().unwrap_or("?");
            let file = it.find(|w| w.contains("/repo/")).unwrap_or("?");
            let file = file.rsplit('/').next().unwrap_or("?");
            let file = file.split(':').next().unwrap_or("?");
            return format!("{func}@{file}");
        }
    }
    "no in-repo frame".into()
}

fn tail(s: &str, n: usize) -> String {
    let lines: Vec<&str> = s.lines().collect();
    lines[lines.len().saturating_sub(n)..].join("\n")
}

pub fn run(m: &mut Monitor, cfg: &Config) {
    let dir = cfg.verif_dir.join("harness-sched");
    if !dir.join("Cargo.toml").exists() {
        m.gate(false, "harness-sched crate missing");
        return;
    }
    tsan(m, cfg, &dir);
    if cfg.tier == Tier::Thorough {
        miri(m, cfg, &dir);
    }
}

fn tsan(m: &mut Monitor, cfg: &Config, dir: &Path) {
    let mut b = Command::new("cargo");
    b.current_dir(dir)
        .args(["+nightly", "build", "-Zbuild-std", "--target", "x86_64-unknown-linux-gnu", "--release", "--offline", "--target-dir", "target/tsan"])
        .env("RUSTFLAGS", "-Zsanitizer=thread")
        .env("CARGO_NET_OFFLINE", "true");
    let o = run_cmd(&mut b, Duration::from_secs(900));
    if o.code != Some(0) {
        m.note("tsan_build_output", json!(tail(&o.text, 30)));
        m.gate(false, "ThreadSanitizer build of harness-sched failed or timed out (inconclusive)");
        return;
    }
    let bin = dir.join("target/tsan/x86_64-unknown-linux-gnu/release/fv-sched");
    let runs = cfg.tier.pick(12, 120);
    let (mut compared, mut events, mut clean, mut reports) = (0u64, 0u64, 0u64, 0u64);
    for r in 0..runs {
        let seed = cfg.seed.wrapping_mul(1000).wrapping_add(r);
        let threads = 2 + (r % 15);
        let case = CASE_BASE + r;
        let args = [seed.to_string(), threads.to_string(), "40".into(), "12".into(), "par".into()];
        let mut c = Command::new(&bin);
        c.args(&args).env("TSAN_OPTIONS", "halt_on_error=0 exitcode=66 second_deadlock_stack=1");
        let o = run_cmd(&mut c, Duration::from_secs(300));
        if o.timed_out || o.code.is_none() {
            m.skip("sanitizer:tsan", "run timed out or was killed (inconclusive)");
            continue;
        }
        compared += field(&o.text, "compared");
        events += field(&o.text, "cache_events");
        let blocks: Vec<&str> = o.text.split("==================").filter(|b| b.contains("WARNING: ThreadSanitizer")).collect();
        reports += blocks.len() as u64;
        if blocks.is_empty() {
            m.check_bool("sanitizer:no ThreadSanitizer report", "tsan|clean", case, o.code != Some(66), || json!({"args": args, "exit": o.code, "tail": tail(&o.text, 20)}));
        }
        for b in &blocks {
            let kind = b.lines().find(|l| l.contains("WARNING: ThreadSanitizer")).unwrap_or("").trim().to_string();
            let sig = format!("tsan|{}", repo_frame(b));
            m.check_bool("sanitizer:no ThreadSanitizer report", &sig, case, false, || json!({"args": args, "report": kind, "block": tail(b, 60)}));
        }
        let mism = o.text.lines().filter(|l| l.starts_with("SCHED-MISMATCH")).count();
        m.check_bool("sanitizer:values under ThreadSanitizer equal first-evaluation values", "tsan|values", case, mism == 0 && o.code != Some(3), || json!({"args": args, "exit": o.code, "mismatches": tail(&o.text, 10)}));
        if o.code == Some(0) {
            clean += 1;
        } else if o.code != Some(66) && o.code != Some(3) {
            m.skip("sanitizer:tsan", "unexpected exit status (inconclusive)");
            m.note("tsan_unexpected_exit", json!({"args": args, "exit": o.code, "tail": tail(&o.text, 15)}));
        }
    }
    m.count("tsan_processes", runs);
    m.count("tsan_clean_processes", clean);
    m.count("tsan_reports", reports);
    m.count("tsan_values_compared", compared);
    m.count("tsan_cache_events", events);
    m.gate(clean + reports > 0, "no ThreadSanitizer run completed");
}

fn miri(m: &mut Monitor, cfg: &Config, dir: &Path) {
    let seeds = 16;
    let shards = 4u64;
    let (mut compared, mut done) = (0u64, 0u64);
    // shards run one after the other; each interprets `seeds` schedules on all cores
    for sh in 0..shards {
        let case = CASE_BASE + 500 + sh;
        let seed = cfg.seed.wrapping_mul(100).wrapping_add(sh);
        let args = [seed.to_string(), (2 + sh).to_string(), "8".into(), "1".into()];
        let mut c = Command::new("cargo");
        c.current_dir(dir)
            .args(["+nightly", "miri", "run", "--offline", "--"])
            .args(&args)
            .env("MIRIFLAGS", format!("-Zmiri-disable-isolation -Zmiri-many-seeds={}..{}", sh * seeds, (sh + 1) * seeds))
            .env("CARGO_NET_OFFLINE", "true");
        let o = run_cmd(&mut c, Duration::from_secs(1800));
        if o.timed_out {
            m.skip("sanitizer:miri", "timed out (inconclusive)");
            continue;
        }
        let ub = o.text.lines().find(|l| l.contains("error: Undefined Behavior") || l.contains("Data race detected") || l.contains("error: deadlock") || l.contains("error: memory leaked"));
        let n_done = o.text.lines().filter(|l| l.starts_with("SCHED-DONE")).count() as u64;
        if ub.is_none() && n_done == 0 {
            m.note("miri_output", json!(tail(&o.text, 25)));
            m.skip("sanitizer:miri", "interpreter produced no result (build problem; inconclusive)");
            continue;
        }
        done += n_done;
        compared += field(&o.text, "compared");
        let sig = match ub {
            Some(l) => {
                let at = o.text.lines().skip_while(|x| *x != l).find(|x| x.contains("/repo/")).map(|x| x.trim().rsplit('/').next().unwrap_or("?").split(':').next().unwrap_or("?").to_string());
                format!("miri|{}|{}", l.trim().chars().take(60).collect::<String>(), at.unwrap_or_else(|| "no in-repo frame".into()))
            }
            None => "miri|clean".into(),
        };
        m.check_bool("sanitizer:no undefined behaviour or data race under Miri", &sig, case, ub.is_none(), || json!({"args": args, "seeds": [sh * seeds, (sh + 1) * seeds], "report": ub, "tail": tail(&o.text, 40)}));
        let mism = o.text.lines().filter(|l| l.starts_with("SCHED-MISMATCH")).count();
        m.check_bool("sanitizer:values under Miri equal first-evaluation values", "miri|values", case, mism == 0, || json!({"args": args, "mismatches": tail(&o.text, 10)}));
    }
    m.count("miri_schedules_interpreted", done);
    m.count("miri_values_compared", compared);
    m.gate(done > 0, "no Miri schedule completed");
}
