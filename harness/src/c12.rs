//! C12 — converged equilibria do not depend on the initial guess or on continuation order.
use crate::c01::{joback_for, Eos};
use crate::c04::shipped_pure_cases;
use crate::c05::hydrocarbon_pairs;
use crate::monitor::*;
use crate::prng::{hash_f64s, Rng};
use crate::zoo::*;
use feos_core::verif::{self, Site};
use feos_core::{
    Contributions, DensityInitialization, EquationOfState, PhaseDiagram, PhaseEquilibrium,
    ReferenceSystem, SolverOptions, State,
};
use ndarray::arr1;
use quantity::*;
use serde_json::{json, Value};
use std::sync::Arc;

const TOL: f64 = 1e-7;

/// reduced-unit comparison of two two-phase equilibria: worst of T, p (abs+rel), the
/// densities and the compositions of both phases
pub fn pe_dev(a: &PhaseEquilibrium<Model, 2>, b: &PhaseEquilibrium<Model, 2>) -> f64 {
    // two solutions whose phases both differ by less than 1e-3 sit on the critical point for
    // all practical purposes: the equilibrium conditions are degenerate there (an error eps in
    // the residual moves the phases by ~sqrt(eps)) and a comparison at 1e-7 resolves nothing
    if near_trivial(a) && near_trivial(b) {
        return 0.0;
    }
    let mut worst = 0.0f64;
    for (x, y) in [(a.vapor(), b.vapor()), (a.liquid(), b.liquid())] {
        worst = worst.max((x.temperature.to_reduced() / y.temperature.to_reduced() - 1.0).abs());
        let (px, py) = (x.pressure(Contributions::Total).to_reduced(), y.pressure(Contributions::Total).to_reduced());
        // each phase is a density iteration with an absolute pressure tolerance; in a stiff liquid
        // at p ~ 1e-5 two converged solves differ by ~1e-11 in p
        worst = worst.max(((px - py).abs() - 1e-10).max(0.0) / px.abs().max(py.abs()));
        worst = worst.max((x.density.to_reduced() / y.density.to_reduced() - 1.0).abs());
        for (u, v) in x.molefracs.iter().zip(y.molefracs.iter()) {
            worst = worst.max((u - v).abs());
        }
    }
    worst
}

/// phases closer than 1e-3 in every partial density: a collapsed (near-trivial) solution
/// largest relative difference of the partial densities of the two phases
pub fn phase_distance(a: &PhaseEquilibrium<Model, 2>) -> f64 {
    a.vapor()
        .partial_density
        .to_reduced()
        .iter()
        .zip(a.liquid().partial_density.to_reduced().iter())
        .map(|(x, y)| (x / y - 1.0).abs())
        .fold(0.0, f64::max)
}

/// signature of a comparison in which exactly one side is a collapsed pair of phases: the
/// recorded defect F33 is a collapse that stays just above the library's trivial-solution
/// threshold (1e-5); a pair closer than that is a trivial solution the library itself
/// promises to reject and is reported under its own signature
pub fn collapse_sig(a: &PhaseEquilibrium<Model, 2>, b: &PhaseEquilibrium<Model, 2>, what: &str) -> String {
    let d = if near_trivial(a) { phase_distance(a) } else { phase_distance(b) };
    if d < 0.99e-5 {
        format!("trivial solution returned (phases closer than 1e-5)|{what}")
    } else {
        format!("near-critical collapse|{what}")
    }
}

pub fn near_trivial(a: &PhaseEquilibrium<Model, 2>) -> bool {
    a.vapor()
        .partial_density
        .to_reduced()
        .iter()
        .zip(a.liquid().partial_density.to_reduced().iter())
        .all(|(x, y)| (x / y - 1.0).abs() < 1e-3)
}

/// both phases liquid-like (density ratio above 0.3) without being a collapsed pair: a
/// liquid-liquid equilibrium. A hydrocarbon pair for which one of the two solves returns
/// such a solution demixes at that temperature in the model and is outside the quantifier
/// ("without liquid-liquid demixing").
pub fn lle_like(a: &PhaseEquilibrium<Model, 2>) -> bool {
    let (r1, r2) = (a.vapor().density.to_reduced(), a.liquid().density.to_reduced());
    !near_trivial(a) && r1.min(r2) / r1.max(r2) > 0.3
}

pub fn pe_json(a: &PhaseEquilibrium<Model, 2>) -> Value {
    json!({"T": a.vapor().temperature.to_reduced(), "p_v": a.vapor().pressure(Contributions::Total).to_reduced(), "p_l": a.liquid().pressure(Contributions::Total).to_reduced(),
        "rho_v": a.vapor().density.to_reduced(), "rho_l": a.liquid().density.to_reduced(), "x_v": a.vapor().molefracs.to_vec(), "x_l": a.liquid().molefracs.to_vec()})
}

pub fn run(cfg: Config) -> i32 {
    let mut m = Monitor::new(cfg.clone());
    pure(&mut m, &cfg);
    mixtures(&mut m, &cfg);
    diagrams(&mut m, &cfg);
    constructors(&mut m, &cfg);
    m.gate(m.clause_checked("pure:guided equals unguided") >= 300, "fewer than 300 guided pure equilibria");
    m.gate(m.clause_checked("bubble:guided equals unguided") >= 300, "fewer than 300 guided bubble points");
    m.gate(m.clause_checked("flash:guided equals unguided") >= 100, "fewer than 100 guided flashes");
    m.gate(m.clause_checked("diagram:pure point equals stand-alone solve") >= 300, "fewer than 300 diagram points");
    m.gate(m.clause_checked("diagram:forced spinodal starts leave points unchanged") >= 10, "forced-fallback diagrams not observed");
    m.finish(
        "pure fluids of the shipped collections: solve at T (or p) without guess, then with a previous equilibrium up to 0.3 T_c away; binary PC-SAFT hydrocarbon pairs without liquid-liquid demixing: bubble/dew points with pressure guesses within a factor 3 and several vapour-composition guesses, flashes started from other equilibria; every point of PhaseDiagram::pure / binary_vle / bubble_point_line / dew_point_line against the stand-alone solve, with random npoints, and with the initialisation cascade forced to its last stage by failpoints; Newton-wrapper state constructors with varied initial temperature / density. Guided results are compared whenever the guided call converges; distinct by (system, T, x, guess)",
        false,
        &[
            "systems are restricted to those without liquid-liquid demixing, as the quantifier says; a guided call that fails is allowed",
            "two solutions that are both within 1e-3 of the critical point (phases differ by less than 1e-3 in every partial density) are not compared: the conditions are degenerate there; a comparison in which exactly one side is collapsed is judged, under its own signature",
            "between the mixture critical temperature and the cricondentherm a composition has two saturation pressures; a stand-alone solve on the other one is a different problem and skipped",
        ],
    )
}

fn pure(m: &mut Monitor, cfg: &Config) {
    let cases = shipped_pure_cases();
    let stride = cfg.tier.pick(1, 1);
    let sel: Vec<_> = cases.into_iter().enumerate().filter(|(i, c)| i % stride == 0 && c.must_succeed).map(|(_, c)| c).collect();
    let reps = cfg.tier.pick(3, 20);
    par_cases(m, &sel, |m, ci, pc| {
        let Ok(eos) = pc.spec.build() else {
            return;
        };
        let Some(tc) = pure_tc(&eos) else {
            return;
        };
        let mut rng = Rng::derive(cfg.seed, "c12-pure", ci);
        for k in 0..reps {
            let tr = rng.range(pc.tr_min.max(0.5), 0.99);
            let t = Temperature::from_reduced(tr * tc);
            let Ok(reference) = PhaseEquilibrium::pure(&eos, t, None, SolverOptions::default()) else {
                continue;
            };
            let case = ci * 100 + k as u64;
            // a previous equilibrium up to 0.3 T_c away
            let tr0 = (tr + rng.range(-0.3, 0.3)).clamp(pc.tr_min.max(0.46), 0.99);
            let Ok(init) = PhaseEquilibrium::pure(&eos, Temperature::from_reduced(tr0 * tc), None, SolverOptions::default()) else {
                continue;
            };
            let info = json!({"file": pc.file, "name": pc.name, "T/Tc": tr, "guess T/Tc": tr0});
            verif::trace_begin();
            let guided = PhaseEquilibrium::pure(&eos, t, Some(&init), SolverOptions::default());
            let tr_ = verif::trace_end();
            if let Ok(g) = guided {
                m.case(pc.family, hash_f64s(&pc.name, &[tr, tr0]), true);
                if tr_.contains(&Site::PureTInitGiven) {
                    m.count("pure_converged_from_given_state", 1);
                }
                let sig = if near_trivial(&g) != near_trivial(&reference) { collapse_sig(&g, &reference, "pure guided vs unguided") } else { format!("{}|pure guided", pc.family) };
                m.check("pure:guided equals unguided", &sig, case, pe_dev(&g, &reference), TOL, || json!({"info": info, "guided": pe_json(&g), "unguided": pe_json(&reference)}));
            } else {
                m.skip("pure", "guided call failed (allowed)");
            }
            // at given pressure, guided by the same previous equilibrium
            let p = reference.vapor().pressure(Contributions::Total);
            if let Ok(g) = PhaseEquilibrium::pure(&eos, p, Some(&init), SolverOptions::default()) {
                let sig = if near_trivial(&g) != near_trivial(&reference) { collapse_sig(&g, &reference, "pure(p) guided vs unguided") } else { format!("{}|pure(p) guided", pc.family) };
                m.check("pure(p):guided equals solution at T", &sig, case, pe_dev(&g, &reference), 1e-6, || json!({"info": info, "guided": pe_json(&g), "unguided": pe_json(&reference)}));
            }
        }
    });
}

fn mixtures(m: &mut Monitor, cfg: &Config) {
    let pairs = hydrocarbon_pairs(1.5);
    let n = cfg.tier.pick(8_000, 400_000);
    let idx: Vec<u64> = (0..n).collect();
    par_cases(m, &idx, |m, _, &i| {
        let mut rng = Rng::derive(cfg.seed, "c12-mix", i);
        let pr = &pairs[rng.below(pairs.len())];
        let tlow = pr.tc[0].min(pr.tc[1]);
        let t = tlow * rng.range(0.6, 0.92);
        let temp = Temperature::from_reduced(t);
        let x1 = rng.range(0.05, 0.95);
        let x = arr1(&[x1, 1.0 - x1]);
        let sys = format!("{}+{}", pr.names[0], pr.names[1]);
        let case = 10_000_000 + i * 10;
        let Ok(b0) = PhaseEquilibrium::bubble_point(&pr.eos, temp, &x, None, None, Default::default()) else {
            return;
        };
        let pb = b0.vapor().pressure(Contributions::Total);
        if pb.to_reduced() < 1e-9 {
            return; // collapsed pseudo-equilibrium (C05 finding)
        }
        m.case("hc-pair", hash_f64s(&sys, &[t, x1]), true);
        // pressure guess within a factor 3, vapour composition guess: none / exact / blurred
        let f = rng.log_range(1.0 / 3.0, 3.0);
        let yg = match rng.below(3) {
            0 => None,
            1 => Some(b0.vapor().molefracs.clone()),
            _ => {
                let y = &b0.vapor().molefracs * 0.7 + &x * 0.3;
                Some(&y / y.sum())
            }
        };
        let info = json!({"system": sys, "T": t, "x1": x1, "pressure guess factor": f, "vapour guess": yg.as_ref().map(|y| y.to_vec())});
        match PhaseEquilibrium::bubble_point(&pr.eos, temp, &x, Some(pb * f), yg.as_ref(), Default::default()) {
            Ok(b1) if b1.vapor().pressure(Contributions::Total).to_reduced() > 1e-9 => {
                if lle_like(&b1) != lle_like(&b0) {
                    m.skip("bubble", "one solve returned a liquid-liquid equilibrium: the pair demixes here (outside the quantifier)");
                    return;
                }
                let sig = if near_trivial(&b1) != near_trivial(&b0) { collapse_sig(&b1, &b0, "bubble guided vs unguided") } else { "pcsaft-hc|bubble guided".to_string() };
                m.check("bubble:guided equals unguided", &sig, case, pe_dev(&b1, &b0), TOL, || json!({"info": info, "guided": pe_json(&b1), "unguided": pe_json(&b0)}));
            }
            _ => m.skip("bubble", "guided call failed (allowed)"),
        }
        if let Ok(d0) = PhaseEquilibrium::dew_point(&pr.eos, temp, &x, None, None, Default::default()) {
            let pd = d0.vapor().pressure(Contributions::Total);
            if pd.to_reduced() > 1e-9 {
                match PhaseEquilibrium::dew_point(&pr.eos, temp, &x, Some(pd * f), None, Default::default()) {
                    Ok(d1) if d1.vapor().pressure(Contributions::Total).to_reduced() > 1e-9 => {
                        let sig = if near_trivial(&d1) != near_trivial(&d0) { collapse_sig(&d1, &d0, "dew guided vs unguided") } else { "pcsaft-hc|dew guided".to_string() };
                        m.check("dew:guided equals unguided", &sig, case + 1, pe_dev(&d1, &d0), TOL, || json!({"info": info, "guided": pe_json(&d1), "unguided": pe_json(&d0)}));
                    }
                    _ => m.skip("dew", "guided call failed (allowed)"),
                }
                // flash inside the envelope: unguided vs started from the bubble / dew equilibrium
                if (pb / pd).into_value() > 1.05 {
                    let p = pd + (pb - pd) * rng.range(0.15, 0.85);
                    let feed = Moles::from_reduced(&x * 1.0);
                    if let Ok(f0) = PhaseEquilibrium::tp_flash(&pr.eos, temp, p, &feed, None, SolverOptions::default(), None) {
                        let init = if rng.bool(0.5) { &b0 } else { &d0 };
                        match PhaseEquilibrium::tp_flash(&pr.eos, temp, p, &feed, Some(init), SolverOptions::default(), None) {
                            Ok(f1) => {
                                // flash tolerance 1e-8 on the K-factor residual
                                m.check("flash:guided equals unguided", "pcsaft-hc|flash guided", case + 2, pe_dev(&f1, &f0), 1e-6, || info.clone());
                                let b0v = (f0.vapor().total_moles / (f0.vapor().total_moles + f0.liquid().total_moles)).into_value();
                                let b1v = (f1.vapor().total_moles / (f1.vapor().total_moles + f1.liquid().total_moles)).into_value();
                                m.check("flash:guided phase fraction equals unguided", "pcsaft-hc|flash beta", case + 2, (b0v - b1v).abs(), 1e-6, || info.clone());
                            }
                            Err(_) => m.skip("flash", "guided call failed (allowed)"),
                        }
                        // guided by an equilibrium of another temperature (continuation along an isobar)
                        let t_other = Temperature::from_reduced(t * rng.range(0.95, 1.05));
                        if let Ok(bo) = PhaseEquilibrium::bubble_point(&pr.eos, t_other, &x, None, None, Default::default()) {
                            if let Ok(f2) = PhaseEquilibrium::tp_flash(&pr.eos, temp, p, &feed, Some(&bo), SolverOptions::default(), None) {
                                m.check("flash:guided from another temperature equals unguided", "pcsaft-hc|flash guided other T", case + 3, pe_dev(&f2, &f0), 1e-6, || json!({"info": info, "T of the initial equilibrium": t_other.to_reduced(), "guided": pe_json(&f2), "unguided": pe_json(&f0)}));
                            }
                        }
                    }
                }
            }
        }
    });
}

fn diagrams(m: &mut Monitor, cfg: &Config) {
    let cases = shipped_pure_cases();
    let pairs = hydrocarbon_pairs(1.5);
    let n = cfg.tier.pick(800, 20_000);
    let idx: Vec<u64> = (0..n).collect();
    par_cases(m, &idx, |m, _, &i| {
        let mut rng = Rng::derive(cfg.seed, "c12-diag", i);
        // ---- pure diagram vs stand-alone solves, and with the cascade forced to the spinodal start
        let pc = &cases[rng.below(cases.len())];
        if let (true, Ok(eos)) = (pc.must_succeed, pc.spec.build()) {
            if let Some(tc) = pure_tc(&eos) {
                let np = 3 + rng.below(60);
                let tmin = Temperature::from_reduced(tc * rng.range(pc.tr_min.max(0.5), 0.85));
                let tcq = Some(Temperature::from_reduced(tc));
                let case = 20_000_000 + i * 1000;
                let info = json!({"file": pc.file, "name": pc.name, "npoints": np});
                if let Ok(d) = PhaseDiagram::pure(&eos, tmin, np, tcq, SolverOptions::default()) {
                    m.case("diagram-pure", hash_f64s(&pc.name, &[np as f64, tmin.to_reduced()]), true);
                    let nst = d.states.len();
                    for (k, s) in d.states.iter().enumerate().take(nst - 1) {
                        if let Ok(r) = PhaseEquilibrium::pure(&eos, s.vapor().temperature, None, SolverOptions::default()) {
                            let sig = if near_trivial(s) != near_trivial(&r) { collapse_sig(s, &r, "diagram pure vs stand-alone") } else { format!("{}|diagram pure", pc.family) };
                            m.check("diagram:pure point equals stand-alone solve", &sig, case + k as u64, pe_dev(s, &r), TOL, || json!({"info": info, "diagram": pe_json(s), "stand-alone": pe_json(&r)}));
                        }
                    }
                    // same diagram with "given state" and "ideal gas" initialisations failing
                    verif::arm(Site::FailPureTInitGiven);
                    verif::arm(Site::FailPureTInitIdealGas);
                    let d2 = PhaseDiagram::pure(&eos, tmin, np, tcq, SolverOptions::default());
                    verif::disarm_all();
                    if let Ok(d2) = d2 {
                        // points may be missing (a start can fail); the remaining ones must coincide
                        let mut worst = 0.0f64;
                        let mut matched = 0;
                        for s2 in d2.states.iter().take(d2.states.len() - 1) {
                            if let Some(s) = d.states.iter().find(|s| s.vapor().temperature == s2.vapor().temperature) {
                                worst = worst.max(pe_dev(s, s2));
                                matched += 1;
                            }
                        }
                        if matched > 0 {
                            m.check("diagram:forced spinodal starts leave points unchanged", &format!("{}|diagram forced", pc.family), case + 999, worst, TOL, || json!({"info": info, "points compared": matched}));
                        }
                    }
                }
            }
        }
        // ---- binary diagrams
        let pr = &pairs[rng.below(pairs.len())];
        let tlow = pr.tc[0].min(pr.tc[1]);
        let t = tlow * rng.range(0.6, 0.9);
        let temp = Temperature::from_reduced(t);
        let np = 5 + rng.below(46);
        let sys = format!("{}+{}", pr.names[0], pr.names[1]);
        let info = json!({"system": sys, "T": t, "npoints": np});
        let case = 30_000_000 + i * 1000;
        if let Ok(d) = PhaseDiagram::binary_vle(&pr.eos, temp, Some(np), None, Default::default()) {
            m.case("diagram-binary", hash_f64s(&sys, &[t, np as f64]), true);
            for (k, s) in d.states.iter().enumerate() {
                let x = &s.liquid().molefracs;
                if x.iter().any(|v| *v <= 1e-12) {
                    continue; // pure end points
                }
                if s.vapor().pressure(Contributions::Total).to_reduced() < 1e-9 {
                    continue;
                }
                if let Ok(r) = PhaseEquilibrium::bubble_point(&pr.eos, temp, x, None, None, Default::default()) {
                    if r.vapor().pressure(Contributions::Total).to_reduced() > 1e-9 {
                        if lle_like(&r) != lle_like(s) {
                            m.skip("diagram:binary_vle", "one solve returned a liquid-liquid equilibrium: the pair demixes here (outside the quantifier)");
                            continue;
                        }
                        let sig = if near_trivial(&r) != near_trivial(s) { collapse_sig(&r, s, "binary_vle vs stand-alone") } else { "pcsaft-hc|diagram binary".to_string() };
                        m.check("diagram:binary_vle point equals stand-alone bubble point", &sig, case + k as u64, pe_dev(s, &r), TOL, || json!({"info": info, "diagram": pe_json(s), "stand-alone": pe_json(&r)}));
                    }
                }
            }
        }
        // the same above the critical temperature of the lighter component: the diagram ends in
        // the mixture critical point, the stand-alone solves near it have no guess
        let thigh = pr.tc[0].max(pr.tc[1]);
        if thigh / tlow > 1.05 {
            let t2 = tlow + (thigh - tlow) * rng.range(0.1, 0.8);
            let temp2 = Temperature::from_reduced(t2);
            let info2 = json!({"system": sys, "T": t2, "npoints": np, "region": "between the pure critical temperatures"});
            if let Ok(Ok(d)) = no_panic(|| PhaseDiagram::binary_vle(&pr.eos, temp2, Some(np), None, Default::default())) {
                m.case("diagram-binary-critical", hash_f64s(&sys, &[t2, np as f64]), true);
                for (k, s) in d.states.iter().enumerate() {
                    let x = &s.liquid().molefracs;
                    if x.iter().any(|v| *v <= 1e-12) || s.vapor().pressure(Contributions::Total).to_reduced() < 1e-9 {
                        continue;
                    }
                    // the diagram closes with the critical point itself, stored as two identical states
                    if phase_distance(s) < 1e-12 {
                        continue;
                    }
                    if let Ok(r) = PhaseEquilibrium::bubble_point(&pr.eos, temp2, x, None, None, Default::default()) {
                        if lle_like(&r) != lle_like(s) {
                            m.skip("diagram:binary_vle", "one solve returned a liquid-liquid equilibrium: the pair demixes here (outside the quantifier)");
                            continue;
                        }
                        let dense_spec = |pe: &PhaseEquilibrium<Model, 2>| pe.liquid().density > pe.vapor().density;
                        if dense_spec(&r) != dense_spec(s) {
                            m.skip("diagram:binary_vle", "stand-alone solve on the other saturation branch (retrograde region)");
                            continue;
                        }
                        let sig = if near_trivial(&r) != near_trivial(s) { collapse_sig(&r, s, "binary_vle vs stand-alone") } else { "pcsaft-hc|diagram binary (critical region)".to_string() };
                        m.check("diagram:binary_vle point equals stand-alone bubble point", &sig, case + 500 + k as u64, pe_dev(s, &r), TOL, || json!({"info": info2, "diagram": pe_json(s), "stand-alone": pe_json(&r)}));
                    }
                }
            }
        }
        let x1 = rng.range(0.1, 0.9);
        let moles = Moles::from_reduced(arr1(&[x1, 1.0 - x1]));
        let x = arr1(&[x1, 1.0 - x1]);
        let tmin = Temperature::from_reduced(tlow * rng.range(0.6, 0.8));
        if let Ok(Ok(d)) = no_panic(|| PhaseDiagram::bubble_point_line(&pr.eos, &moles, tmin, np, None, Default::default())) {
            let nst = d.states.len();
            for (k, s) in d.states.iter().enumerate().take(nst.saturating_sub(1)) {
                if s.vapor().pressure(Contributions::Total).to_reduced() < 1e-9 {
                    continue;
                }
                if let Ok(r) = PhaseEquilibrium::bubble_point(&pr.eos, s.liquid().temperature, &x, None, None, Default::default()) {
                    if r.vapor().pressure(Contributions::Total).to_reduced() > 1e-9 {
                        // between the mixture critical temperature and the cricondentherm a composition has two
                        // saturation pressures; a stand-alone solve that lands on the other one (the specified
                        // phase is the lighter phase there) solved a different, equally valid problem
                        if lle_like(&r) != lle_like(s) {
                            m.skip("diagram:bubble line", "one solve returned a liquid-liquid equilibrium: the pair demixes here (outside the quantifier)");
                            continue;
                        }
                        let dense_spec = |pe: &PhaseEquilibrium<Model, 2>| pe.liquid().density > pe.vapor().density;
                        if dense_spec(&r) != dense_spec(s) {
                            m.skip("diagram:bubble line", "stand-alone solve on the other saturation branch (retrograde region)");
                            continue;
                        }
                        let sig = if near_trivial(&r) != near_trivial(s) { collapse_sig(&r, s, "bubble line vs stand-alone") } else { "pcsaft-hc|bubble line".to_string() };
                        m.check("diagram:bubble line point equals stand-alone bubble point", &sig, case + 100 + k as u64, pe_dev(s, &r), TOL, || json!({"info": info, "x1": x1, "line": pe_json(s), "stand-alone": pe_json(&r)}));
                    }
                }
            }
        }
        if let Ok(Ok(d)) = no_panic(|| PhaseDiagram::dew_point_line(&pr.eos, &moles, tmin, np, None, Default::default())) {
            let nst = d.states.len();
            let t_max = d.states.iter().map(|s| s.vapor().temperature.to_reduced()).fold(0.0, f64::max);
            for (k, s) in d.states.iter().enumerate().take(nst.saturating_sub(1)) {
                if s.vapor().pressure(Contributions::Total).to_reduced() < 1e-9 {
                    continue;
                }
                if s.vapor().temperature.to_reduced() > 0.97 * t_max {
                    // the two dew-pressure branches merge at the cricondentherm: the dew point
                    // at given T is not unique there and the 1e-3 branch filter cannot separate them
                    m.skip("diagram:dew line", "within 3 % of the highest dew temperature (two merging dew-pressure branches)");
                    continue;
                }
                // the temperature branch of the line; the pressure branch is compared at its own T
                if let Ok(r) = PhaseEquilibrium::dew_point(&pr.eos, s.vapor().temperature, &x, None, None, Default::default()) {
                    if r.vapor().pressure(Contributions::Total).to_reduced() > 1e-9 {
                        // near the cricondentherm a dew temperature has two dew pressures: compare
                        // only when the stand-alone solve found the same branch
                        let same_branch = (r.vapor().pressure(Contributions::Total) / s.vapor().pressure(Contributions::Total)).into_value();
                        if near_trivial(&r) != near_trivial(s) {
                            m.check_bool("diagram:dew line point equals stand-alone dew point", &collapse_sig(&r, s, "dew line vs stand-alone"), case + 200 + k as u64, false, || json!({"info": info, "x1": x1, "line": pe_json(s), "stand-alone": pe_json(&r)}));
                        } else if (same_branch - 1.0).abs() < 1e-3 {
                            m.check("diagram:dew line point equals stand-alone dew point", "pcsaft-hc|dew line", case + 200 + k as u64, pe_dev(s, &r), 1e-6, || json!({"info": info, "x1": x1, "line": pe_json(s), "stand-alone": pe_json(&r)}));
                        } else {
                            m.skip("diagram:dew line", "stand-alone solve on the other dew-pressure branch");
                        }
                    }
                }
            }
        }
    });
}

fn constructors(m: &mut Monitor, cfg: &Config) {
    let col = Collections::load();
    let n = cfg.tier.pick(3_000, 300_000);
    let idx: Vec<u64> = (0..n).collect();
    par_cases(m, &idx, |m, _, &i| {
        let mut rng = Rng::derive(cfg.seed, "c12-ctor", i);
        let fam = *rng.choose(&["pr", "pcsaft", "saftvrmie", "pets"]);
        let nc = 1 + rng.below(2);
        let Some(spec) = random_spec(&col, fam, nc, &mut rng) else {
            return;
        };
        let Ok(mc) = ModelCase::new(fam, spec) else {
            return;
        };
        let eos: Arc<Eos> = Arc::new(EquationOfState::new(joback_for(nc, &mut rng), mc.eos.clone()));
        // supercritical single-phase targets: the solution is unique
        let ss = sample_state(&mc, &mut rng, 1.2, 2.5);
        let Ok(s0) = State::new_nvt(&eos, ss.temperature(), ss.volume(), &ss.moles()) else {
            return;
        };
        let c = Contributions::Total;
        if !(s0.pressure(c).to_reduced() > 0.0 && s0.dp_dv(c).to_reduced() < 0.0) {
            return;
        }
        // the inverse problems are unique only if p(rho) is monotonic along the isotherm (a mixture
        // below the critical temperature of its heavier component has several density roots)
        let rmax = max_density(&mc.eos, &ss.x);
        let monotonic = (0..80).all(|k| {
            let rho = rmax * 1e-6f64.powf(1.0 - k as f64 / 79.0) * 0.95;
            State::new_nvt(&eos, ss.temperature(), Volume::from_reduced(ss.ntot / rho), &ss.moles()).map_or(false, |s| s.dp_dv(c).to_reduced() < 0.0)
        });
        if !monotonic {
            m.skip("constructor", "isotherm not monotonic: several density roots");
            return;
        }
        let n_ = ss.moles();
        let (p0, h, s) = (s0.pressure(c), s0.molar_enthalpy(c), s0.molar_entropy(c));
        let case = 40_000_000 + i;
        let info: Value = json!({"model": mc.spec, "state": ss.json()});
        let t1 = Some(Temperature::from_reduced(ss.t * rng.range(0.8, 1.3)));
        let t2 = Some(Temperature::from_reduced(ss.t * rng.range(0.8, 1.3)));
        let cmp = |m: &mut Monitor, name: &str, a: feos_core::EosResult<State<Eos>>, b: feos_core::EosResult<State<Eos>>| {
            if let (Ok(a), Ok(b)) = (a, b) {
                // solver tolerances of the Newton wrappers: 1e-8 K / 1e-12 A^-3 absolute on the iterate
                let (ra, rb) = (a.density.to_reduced(), b.density.to_reduced());
                let (ta, tb) = (a.temperature.to_reduced(), b.temperature.to_reduced());
                let d = (((ta - tb).abs() - 1e-7).max(0.0) / ta).max(((ra - rb).abs() - 1e-11).max(0.0) / ra);
                m.check("constructor:result independent of the initial value", &format!("{fam}|ctor|{name}"), case, d, 1e-6, || json!({"info": info, "first": [ta, ra], "second": [tb, rb]}));
                m.case(&format!("ctor:{name}"), ss.hash(&format!("{}{name}", mc.label())), true);
            }
        };
        cmp(m, "(p,h)", State::new_nph(&eos, p0, h, &n_, DensityInitialization::None, t1), State::new_nph(&eos, p0, h, &n_, DensityInitialization::None, t2));
        cmp(m, "(p,s)", State::new_nps(&eos, p0, s, &n_, DensityInitialization::None, t1), State::new_nps(&eos, p0, s, &n_, DensityInitialization::None, t2));
        let r1 = DensityInitialization::InitialDensity(s0.density * rng.range(0.5, 1.5));
        let r2 = DensityInitialization::InitialDensity(s0.density * rng.range(0.5, 1.5));
        cmp(m, "(T,s)", State::new_nts(&eos, ss.temperature(), s, &n_, r1), State::new_nts(&eos, ss.temperature(), s, &n_, r2));
        cmp(m, "(T,p) initial density", State::new_npt(&eos, ss.temperature(), p0, &n_, r1), State::new_npt(&eos, ss.temperature(), p0, &n_, r2));
    });
}
