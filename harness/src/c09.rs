//! C09 — results are invariant under relabelling, padding and splitting of components;
//! sub-models extracted with `Components::subset` behave like models built directly
//! from the selected records with the same options.
//!
//! Oracles (all metamorphic: the library is compared with itself on transformed input):
//!  * perm    model(pi(records, binary matrix)), state(pi(N))  ==  pi(model(records), state(N))
//!  * pad     model(n comps), N_z = 0                          ==  model(n-1 comps)
//!  * split   model(.., k, k, ..), N_k = a N_k + (1-a) N_k     ==  model(.., k, ..)
//!  * subset  eos.subset(list)                                 ==  build(select(records, list), same options)
//!  * helpers mixture-level routines that call `subset` internally == the pure model built directly
use crate::monitor::*;
use crate::prng::{hash_f64s, Rng};
use crate::zoo::*;
use feos::ideal_gas::{IdealGasModel, Joback, JobackRecord};
use feos_core::parameter::{Parameter, PureRecord};
use feos_core::{
    Components, Contributions, DensityInitialization, EquationOfState, PhaseEquilibrium,
    ReferenceSystem, Residual, SolverOptions, State,
};
use ndarray::{arr1, Array1, Array2};
use quantity::*;
use serde_json::{json, Value};
use std::sync::Arc;

/// re-ordered / padded / split evaluation of the same formulas: round-off only.
/// Error model: the packing-fraction terms are evaluated as ln(1 - zeta) etc. with an
/// absolute round-off ~eps while the residual properties themselves are O(zeta), so the
/// relative round-off grows like 1/(rho/rho_max) at low density; the Helmholtz energy
/// functionals with a chain term additionally cancel rho ln(rho)-sized terms in their
/// bulk evaluation (measured: <= 8e-14 / (rho/rho_max)).
/// Group-contribution models sum over hundreds of segment pairs and bonds (measured
/// 1.3e-11 at liquid density where the molecular models reach 1e-13): factor 30.
/// Second mole-number derivatives of a trace component i lose precision like eps / x_i
/// (measured 0.1..0.35 eps / x_i for polar trace components): factor 1e-3 / x_i.
const TOL: f64 = 3e-9;
fn tol_at(kind: Kind, eta_frac: f64) -> f64 {
    let f = match kind {
        Kind::PcSaftFunctional | Kind::GcPcSaftFunctional => 1.0,
        _ => 1e-2,
    };
    let g = match kind {
        Kind::GcPcSaft | Kind::GcPcSaftFunctional => 30.0,
        _ => 1.0,
    };
    TOL * g * (f / eta_frac).max(1.0)
}
/// the iterative (Newton) association solver stops at |dX| < tol_cross_assoc; where the
/// transformation switches between the closed-form and the iterative solution, or
/// changes the iteration count, agreement is limited by that tolerance (<= 1e-8 here)
const TOL_ASSOC_ITER: f64 = 3e-7;
/// results of iterative solvers (phase equilibria, critical points, density iteration)
const TOL_SOLVER: f64 = 1e-8;
/// critical density: the critical-point residual is flat in density (error ~ sqrt(tol))
const TOL_SOLVER_RHOC: f64 = 1e-5;

type Eos = EquationOfState<IdealGasModel, Model>;

/// Judge a deviation against the state-dependent error model `tol_state` but report it
/// normalised to the constant base tolerance, so that the recorded worst deviation of a
/// clause is comparable across states.
fn chk<F: FnOnce() -> Value>(m: &mut Monitor, clause: &str, sig: &str, case: u64, dev: f64, tol_state: f64, base: f64, detail: F) -> bool {
    m.check(clause, sig, case, dev * (base / tol_state), base, detail)
}

// ---------------------------------------------------------------------------------------
// observables
// ---------------------------------------------------------------------------------------

struct Obs {
    scal: Vec<(&'static str, f64, f64)>,
    vecs: Vec<(&'static str, Vec<f64>, f64)>,
    mats: Vec<(&'static str, Array2<f64>, f64)>,
    /// |dp/dV total| / |dp/dV ideal|: small next to a spinodal, where quotients by dp/dV
    /// (partial molar volumes, dlnphi/dN) amplify round-off
    stiff: f64,
    t: f64,
    x: Vec<f64>,
    /// chain functionals: the bulk evaluation cancels kT (m_i - 1) / N_i-sized terms in the
    /// diagonal second mole-number derivatives (1/N_i is huge for trace components)
    diag: Vec<f64>,
}

/// Third tuple entry of every observable: the floor of the scaled deviation, i.e. the
/// size of the terms the value is made of (1e-3 of the natural scale for plain
/// derivatives, the full scale for quantities that are differences of such terms).
fn observe<E: Residual>(kind: Kind, s: &State<E>) -> Obs {
    let t = s.temperature.to_reduced();
    let v = s.volume.to_reduced();
    let n = s.total_moles.to_reduced();
    let a = s.residual_helmholtz_energy().to_reduced();
    let p = s.pressure(Contributions::Residual).to_reduced();
    let sr = s.residual_entropy().to_reduced();
    let mu = s.residual_chemical_potential().to_reduced();
    let nv = s.moles.to_reduced();
    let mun: f64 = mu.iter().zip(nv.iter()).map(|(m, n)| (m * n).abs()).sum();
    let sa = a.abs().max((p * v).abs()).max((sr * t).abs()).max(mun).max(1e-300);
    let dp_dv_tot = s.dp_dv(Contributions::Total).to_reduced();
    let dp_dv_id = n * t / (v * v);
    let f = 1e-3;
    let scal = vec![
        ("A", a, f * sa),
        ("p", p, f * sa / v),
        ("S", sr, f * sa / t),
        ("dp_dv", s.dp_dv(Contributions::Residual).to_reduced(), f * sa / (v * v)),
        ("dp_dt", s.dp_dt(Contributions::Residual).to_reduced(), f * sa / (v * t)),
        ("ds_dt", s.ds_res_dt().to_reduced(), f * sa / (t * t)),
        ("d2p_dv2", s.d2p_dv2(Contributions::Residual).to_reduced(), f * sa / (v * v * v)),
    ];
    let vecs = vec![
        ("mu", mu.to_vec(), f * sa / n),
        ("dp_dni", s.dp_dni(Contributions::Residual).to_reduced().to_vec(), f * sa / (v * n)),
        ("dmu_dt", s.dmu_res_dt().to_reduced().to_vec(), f * sa / (t * n)),
        ("ln_phi", s.ln_phi().to_vec(), (sa / (n * t)).max(1.0)),
        ("partial_molar_volume", s.partial_molar_volume().to_reduced().to_vec(), v / n),
    ];
    // dlnphi_i/dN_j = (dmu_ij + dp_i dp_j / dp_dv) / kT + 1/N: scale of the largest term
    let dpn = s.dp_dni(Contributions::Total).to_reduced();
    let dpn_max = dpn.iter().fold(0.0f64, |a, b| a.max(b.abs()));
    let sc_dlnphi = (sa / (n * n * t)).max(1.0 / n).max(dpn_max * dpn_max / (dp_dv_tot.abs() * t));
    let mats = vec![
        ("dmu_dni", s.dmu_dni(Contributions::Residual).to_reduced(), f * sa / (n * n)),
        ("dln_phi_dnj", s.dln_phi_dnj().to_reduced(), sc_dlnphi),
    ];
    let chain_fn = matches!(kind, Kind::PcSaftFunctional | Kind::GcPcSaftFunctional);
    Obs {
        scal,
        vecs,
        mats,
        stiff: (dp_dv_tot / dp_dv_id).abs(),
        t,
        x: nv.iter().map(|ni| ni / n).collect(),
        diag: nv.iter().map(|ni| if chain_fn { t / ni } else { 0.0 }).collect(),
    }
}

/// Compare `b` with `a` where component `c` of `b` is component `map[c]` of `a`.
/// Observables that are NaN/inf on both sides (e.g. ln(Z) at negative pressure) are not
/// counted; non-finite on one side only is a violation.
#[allow(clippy::too_many_arguments)]
fn compare(
    m: &mut Monitor,
    clause: &str,
    sigbase: &str,
    case: u64,
    a: &Obs,
    b: &Obs,
    map: &[usize],
    tol: f64,
    base: f64,
    info: &dyn Fn() -> Value,
    cause: &dyn Fn() -> String,
) -> bool {
    let mut all = true;
    let mut one = |m: &mut Monitor, name: &str, idx: String, x: f64, y: f64, scale: f64, relax: f64| {
        if !x.is_finite() && !y.is_finite() {
            m.skip(clause, "not finite on both sides");
            return;
        }
        let cause = if x.is_finite() != y.is_finite() { cause() } else { String::new() };
        // (all contributions finite: a derived quantity such as ln Z left its domain on one
        // side only because the values differ; judged as a deviation below)
        if x.is_finite() != y.is_finite() && cause != "?" {
            // one signature for the whole state: which contribution is not finite
            let ok = m.check_bool(clause, &format!("nan[{cause}]|{sigbase}"), case, false, || {
                json!({"observable": name, "index": idx, "first": fnum(x), "second": fnum(y), "info": info()})
            });
            all &= ok;
            return;
        }
        let dev = crate::fd::serr(x, y, scale);
        let ok = chk(m, clause, &format!("{sigbase}|{name}"), case, dev, tol * relax, base, || {
            json!({"observable": name, "index": idx, "first": fnum(x), "second": fnum(y), "info": info()})
        });
        all &= ok;
    };
    for ((name, x, sc), (_, y, _)) in a.scal.iter().zip(&b.scal) {
        one(m, name, String::new(), *x, *y, *sc, 1.0);
    }
    let stiff = a.stiff.min(b.stiff) < 1e-3 || !a.stiff.is_finite() || !b.stiff.is_finite();
    for ((name, x, sc), (_, y, _)) in a.vecs.iter().zip(&b.vecs) {
        if stiff && *name == "partial_molar_volume" {
            m.skip(clause, "next to a spinodal: quotient by dp/dV ill-conditioned");
            continue;
        }
        for (c, &ia) in map.iter().enumerate() {
            one(m, name, format!("{ia}->{c}"), x[ia], y[c], *sc, 1.0);
        }
    }
    for ((name, x, sc), (_, y, _)) in a.mats.iter().zip(&b.mats) {
        if stiff && *name == "dln_phi_dnj" {
            continue;
        }
        for (c, &ia) in map.iter().enumerate() {
            for (d, &ja) in map.iter().enumerate() {
                let mut fl = *sc;
                if ia == ja || c == d {
                    // dmu_dni: kT/N_i, dln_phi_dnj: 1/N_i
                    let u = if *name == "dmu_dni" { 1.0 } else { 1.0 / a.t };
                    fl = fl.max(u * a.diag[ia].max(a.diag[ja])).max(u * b.diag[c].max(b.diag[d]));
                }
                let xmin = a.x[ia].min(a.x[ja]).min(b.x[c]).min(b.x[d]);
                let relax = (1e-3 / xmin).max(1.0);
                one(m, name, format!("{ia},{ja}->{c},{d}"), x[[ia, ja]], y[[c, d]], fl, relax);
            }
        }
    }
    all
}

/// name of the first contribution whose Helmholtz energy is not finite in either state
fn nan_cause<A: Residual, B: Residual>(a: &State<A>, b: &State<B>) -> String {
    for s in [contributions(a), contributions(b)] {
        if let Some((n, _)) = s.iter().find(|(_, v)| !v.is_finite()) {
            return n.clone();
        }
    }
    "?".to_string()
}

/// per-contribution Helmholtz energies (locates which term breaks a symmetry); compared
/// only where both models report the same list of contributions
#[allow(clippy::too_many_arguments)]
fn compare_contributions<A: Residual, B: Residual>(
    m: &mut Monitor,
    clause: &str,
    sigbase: &str,
    case: u64,
    a: &State<A>,
    b: &State<B>,
    floor: f64,
    tol: f64,
    base: f64,
    info: &dyn Fn() -> Value,
) {
    let (ca, cb) = (contributions(a), contributions(b));
    if ca.len() != cb.len() || ca.iter().zip(&cb).any(|(x, y)| x.0 != y.0) {
        return;
    }
    for ((name, x), (_, y)) in ca.iter().zip(&cb) {
        if x.is_finite() || y.is_finite() {
            chk(m, clause, &format!("{sigbase}|A[{name}]"), case, crate::fd::serr(*x, *y, floor), tol, base, || {
                json!({"contribution": name, "first": fnum(*x), "second": fnum(*y), "info": info()})
            });
        }
    }
}

// ---------------------------------------------------------------------------------------
// case generation
// ---------------------------------------------------------------------------------------

pub const FAMILIES: &[&str] = &[
    "pr",
    "pcsaft",
    "pcsaft-assoc",
    "pcsaft-crossassoc",
    "pcsaft-solvating",
    "pcsaft-polar",
    "epcsaft",
    "epcsaft-noions",
    "gc-pcsaft",
    "pets",
    "uv-wca",
    "uv-bh",
    "uv-b3",
    "saftvrmie",
    "saftvrmie-crossassoc",
    "saftvrqmie",
    "fmt",
];

struct Case {
    mc: ModelCase,
    fam: String,
    ktag: String,
    states: Vec<StateSpec>,
    /// Joback coefficients per component (ideal-gas part of the total-property clauses)
    jb: Vec<[f64; 4]>,
    /// number of components with association sites (decides closed form vs Newton)
    nassoc: usize,
}

fn sym_set(b: &mut [Vec<Value>], i: usize, j: usize, key: &str, v: Value) {
    b[i][j][key] = v.clone();
    b[j][i][key] = v;
}

fn has_sites(r: &Value) -> bool {
    let m = &r["model_record"];
    ["na", "nb", "nc"]
        .iter()
        .any(|k| m.get(*k).and_then(|x| x.as_f64()).unwrap_or(0.0) > 0.0)
}

/// Pair-specific binary content (every pair its own values; association overrides that
/// address (component, site) pairs; l_ij, gamma_ij) and non-default options.
fn decorate(spec: &mut Spec, fam: &str, rng: &mut Rng) {
    let n = spec.n();
    // --- options -------------------------------------------------------------------
    if rng.bool(0.85) {
        spec.opts.max_eta = rng.range(0.32, 0.55);
        spec.opts.max_iter_cross_assoc = 60 + rng.below(100);
        spec.opts.tol_cross_assoc = *rng.choose(&[1e-12, 1e-11, 1e-9]);
        spec.opts.inc_nonadd = rng.bool(0.6);
        if fam == "pcsaft-polar" {
            spec.opts.dq = rng.below(2) as u8;
        }
        // the revised variant refuses ions at construction (panics by design)
        let ions = spec.pure.iter().any(|p| p["model_record"]["z"].as_f64().unwrap_or(0.0) != 0.0);
        if spec.kind == Kind::EPcSaft && !ions {
            spec.opts.epcsaft_variant = rng.below(2) as u8;
        }
    }
    if n < 2 {
        return;
    }
    // --- binary matrices ---------------------------------------------------------------
    match spec.kind {
        Kind::PcSaft => {
            // induced association: a component with acceptor sites only, which associates
            // solely through the binary override (the two roles are not interchangeable)
            let nsites = spec.pure.iter().filter(|p| has_sites(p)).count();
            if nsites >= 1 && rng.bool(0.35) {
                let cand: Vec<usize> = (0..n).filter(|&i| !has_sites(&spec.pure[i])).collect();
                if !cand.is_empty() {
                    let i = *rng.choose(&cand);
                    let mr = spec.pure[i]["model_record"].as_object_mut().unwrap();
                    mr.insert("kappa_ab".into(), json!(0.0));
                    mr.insert("epsilon_k_ab".into(), json!(0.0));
                    mr.insert("na".into(), json!(0.0));
                    mr.insert("nb".into(), json!(1.0));
                }
            }
            let sites: Vec<usize> = (0..n).filter(|&i| has_sites(&spec.pure[i])).collect();
            if sites.len() >= 2 && rng.bool(0.7) {
                let mut b = spec
                    .binary
                    .clone()
                    .unwrap_or_else(|| scalar_matrix(n, |_, _| json!({"k_ij": 0.0}), json!({"k_ij": 0.0})));
                for (a, &i) in sites.iter().enumerate() {
                    for &j in &sites[a + 1..] {
                        if rng.bool(0.7) {
                            sym_set(&mut b, i, j, "kappa_ab", json!(rng.log_range(0.005, 0.08)));
                            sym_set(&mut b, i, j, "epsilon_k_ab", json!(rng.range(900.0, 2800.0)));
                            if rng.bool(0.5) {
                                sym_set(&mut b, i, j, "site_indices", json!([0, 0]));
                            }
                        }
                    }
                }
                spec.binary = Some(b);
            }
        }
        Kind::SaftVRMie => {
            if rng.bool(0.7) {
                let mut b = scalar_matrix(n, |_, _| json!({}), json!({}));
                for i in 0..n {
                    for j in i + 1..n {
                        sym_set(&mut b, i, j, "k_ij", json!(rng.range(-0.05, 0.08)));
                        sym_set(&mut b, i, j, "gamma_ij", json!(rng.range(-0.04, 0.04)));
                        if has_sites(&spec.pure[i]) && has_sites(&spec.pure[j]) && rng.bool(0.6) {
                            sym_set(&mut b, i, j, "rc_ab", json!(rng.range(0.3, 0.45)));
                            sym_set(&mut b, i, j, "epsilon_k_ab", json!(rng.range(2000.0, 3000.0)));
                        }
                    }
                }
                spec.binary = Some(b);
            }
        }
        Kind::SaftVRQMie => {
            if rng.bool(0.7) {
                let mut b = scalar_matrix(
                    n,
                    |_, _| json!({"k_ij": 0.0, "l_ij": 0.0}),
                    json!({"k_ij": 0.0, "l_ij": 0.0}),
                );
                for i in 0..n {
                    for j in i + 1..n {
                        sym_set(&mut b, i, j, "k_ij", json!(rng.range(-0.05, 0.1)));
                        sym_set(&mut b, i, j, "l_ij", json!(rng.range(-0.03, 0.03)));
                    }
                }
                spec.binary = Some(b);
            }
        }
        Kind::Uv | Kind::Pets | Kind::PetsFunctional => {
            if spec.binary.is_none() && rng.bool(0.6) {
                let mut b = scalar_matrix(n, |_, _| json!({"k_ij": 0.0}), json!({"k_ij": 0.0}));
                for i in 0..n {
                    for j in i + 1..n {
                        sym_set(&mut b, i, j, "k_ij", json!(rng.range(-0.05, 0.1)));
                    }
                }
                spec.binary = Some(b);
            }
        }
        Kind::EPcSaft => {
            if rng.bool(0.6) {
                // temperature-dependent k_ij polynomial, every pair its own
                let mut b = scalar_matrix(n, |_, _| json!({"k_ij": [0.0]}), json!({"k_ij": [0.0]}));
                for i in 0..n {
                    for j in i + 1..n {
                        let k = json!([rng.range(-0.06, 0.1), rng.range(-2e-4, 2e-4), 0.0, 0.0]);
                        sym_set(&mut b, i, j, "k_ij", k);
                    }
                }
                spec.binary = Some(b);
            }
        }
        _ => {}
    }
}

/// PC-SAFT equation of state with two or more quadrupolar components: the order of the
/// components enters the quadrupole pair term (finding of this check, see report)
fn quad_tag(spec: &Spec) -> &'static str {
    if spec.kind == Kind::PcSaft && spec.pure.iter().filter(|p| is_quadrupolar(p)).count() >= 2 {
        "+eos-2quadrupoles"
    } else {
        ""
    }
}

fn kind_tag(k: Kind) -> String {
    format!("{k:?}").to_lowercase()
}

fn fmt_spec(rng: &mut Rng, n: usize) -> Spec {
    let pure: Vec<Value> = (0..n)
        .map(|k| json!({"identifier": {"name": format!("hs{k}")}, "molarweight": 1.0, "model_record": {"sigma": rng.range(2.5, 4.5)}}))
        .collect();
    let mut s = Spec::new(Kind::Fmt, pure);
    s.opts.fmt = rng.below(3) as u8;
    s
}

fn build_cases(seed: u64, reps: usize, nstates: usize) -> Vec<Case> {
    use rayon::prelude::*;
    let col = Collections::load();
    let mut jobs = Vec::new();
    for (fi, fam) in FAMILIES.iter().enumerate() {
        for n in 1usize..=4 {
            for r in 0..reps {
                jobs.push((fi, *fam, n, r));
            }
        }
    }
    jobs.par_iter()
        .flat_map(|&(fi, fam, n, r)| {
            let mut rng = Rng::derive(seed, "c09", (fi * 10_000 + n * 1000 + r) as u64);
            let mut out = Vec::new();
            // some random draws are rejected by the library (e.g. SAFT-VRQ Mie refuses to mix
            // Feynman-Hibbs orders): draw again, a few times
            let mut found = None;
            for _attempt in 0..8 {
                let spec = if fam == "fmt" {
                    Some(fmt_spec(&mut rng, n))
                } else {
                    random_spec(&col, fam, n, &mut rng)
                };
                let Some(mut spec) = spec else {
                    return out;
                };
                // like multipoles interact pairwise: make sure mixtures with two different
                // quadrupolar (dipolar) components are common
                if fam == "pcsaft-polar" && n >= 2 && rng.bool(0.5) {
                    let quad = rng.bool(0.6);
                    let pool: Vec<&Shipped> = col.gross.iter().filter(|s| if quad { is_quadrupolar(&s.record) } else { is_dipolar(&s.record) }).collect();
                    let have = |p: &Value| if quad { is_quadrupolar(p) } else { is_dipolar(p) };
                    let cand: Vec<usize> = (0..n).filter(|&i| !have(&spec.pure[i])).collect();
                    if spec.pure.iter().filter(|p| have(p)).count() < 2 && !cand.is_empty() {
                        let i = *rng.choose(&cand);
                        let names = spec.names();
                        let fresh: Vec<&&Shipped> = pool.iter().filter(|s| !names.contains(&s.name)).collect();
                        if !fresh.is_empty() {
                            spec.pure[i] = rng.choose(&fresh).record.clone();
                        }
                    }
                }
                decorate(&mut spec, fam, &mut rng);
                if let Ok(Ok(mc)) = std::panic::catch_unwind(|| ModelCase::new(fam, spec.clone())) {
                    found = Some((spec, mc));
                    break;
                }
            }
            let Some((spec, mc)) = found else {
                return out;
            };
            let states: Vec<StateSpec> = if fam == "fmt" {
                (0..nstates)
                    .map(|_| {
                        let x = rng.simplex(n, 0.15, 1e-6);
                        let eta = rng.log_range(1e-4, 0.45);
                        let d3: f64 = x
                            .iter()
                            .zip(&spec.pure)
                            .map(|(x, p)| x * p["model_record"]["sigma"].as_f64().unwrap().powi(3))
                            .sum();
                        StateSpec {
                            t: rng.range(100.0, 600.0),
                            rho: eta / (std::f64::consts::FRAC_PI_6 * d3),
                            x,
                            ntot: rng.log_range(1e-3, 1e3),
                            eta_frac: eta,
                        }
                    })
                    .collect()
            } else {
                (0..nstates).map(|_| sample_state(&mc, &mut rng, 0.4, 3.0)).collect()
            };
            let jb: Vec<[f64; 4]> = (0..n)
                .map(|_| {
                    [
                        rng.range(20.0, 60.0),
                        rng.range(0.01, 0.2),
                        rng.range(-1e-4, 1e-4),
                        rng.range(-1e-8, 1e-8),
                    ]
                })
                .collect();
            let nassoc = spec.pure.iter().filter(|p| has_sites(p)).count();
            if let Some(fs) = functional_of(&spec, rng.below(3) as u8) {
                let ffam = format!("{fam}-functional");
                if let Ok(fmc) = ModelCase::with_tscale(&ffam, fs.clone(), mc.tscale.clone()) {
                    out.push(Case {
                        mc: fmc,
                        fam: ffam,
                        ktag: kind_tag(fs.kind),
                        states: states.clone(),
                        jb: jb.clone(),
                        nassoc,
                    });
                }
            }
            out.push(Case {
                ktag: kind_tag(spec.kind),
                mc,
                fam: fam.to_string(),
                states,
                jb,
                nassoc,
            });
            out
        })
        .collect()
}

fn joback(jb: &[[f64; 4]], idx: &[usize]) -> Arc<IdealGasModel> {
    let recs: Vec<PureRecord<JobackRecord>> = idx
        .iter()
        .map(|&i| {
            let c = jb[i];
            PureRecord::new(Default::default(), 1.0, JobackRecord::new(c[0], c[1], c[2], c[3], 0.0))
        })
        .collect();
    Arc::new(IdealGasModel::Joback(Arc::new(Joback::from_records(recs, None).unwrap())))
}

fn tvn<E: Residual>(eos: &Arc<E>, t: f64, v: f64, n: &[f64]) -> Option<State<E>> {
    State::new_nvt(
        eos,
        Temperature::from_reduced(t),
        Volume::from_reduced(v),
        &Moles::from_reduced(Array1::from_vec(n.to_vec())),
    )
    .ok()
}

/// total (ideal + residual) properties with a Joback ideal gas
fn total_obs(s: &State<Eos>, present: &[usize]) -> Option<(Vec<(&'static str, f64, f64)>, Vec<(&'static str, Vec<f64>, f64)>)> {
    let t = s.temperature.to_reduced();
    let n = s.total_moles.to_reduced();
    let a = s.helmholtz_energy(Contributions::Total).to_reduced();
    let ent = s.entropy(Contributions::Total).to_reduced();
    let mu = s.chemical_potential(Contributions::Total).to_reduced();
    let nv = s.moles.to_reduced();
    // size of the individual ideal-gas terms N_i k T (ln(rho_i Lambda^3) - 1)
    let sa = present
        .iter()
        .map(|&i| (mu[i] * nv[i]).abs())
        .sum::<f64>()
        .max(a.abs())
        .max((ent * t).abs())
        .max(n * t);
    if !sa.is_finite() {
        return None;
    }
    let scal = vec![
        ("A_total", a, sa),
        ("S_total", ent, sa / t),
        ("cv_total", s.molar_isochoric_heat_capacity(Contributions::Total).to_reduced(), sa / (n * t)),
    ];
    let vecs = vec![
        ("mu_total", mu.to_vec(), sa / n),
        ("dmu_dt_total", s.dmu_dt(Contributions::Total).to_reduced().to_vec(), sa / (n * t)),
        ("partial_molar_entropy", s.partial_molar_entropy().to_reduced().to_vec(), sa / (n * t)),
        ("partial_molar_enthalpy", s.partial_molar_enthalpy().to_reduced().to_vec(), sa / n),
    ];
    Some((scal, vecs))
}

// ---------------------------------------------------------------------------------------
// run
// ---------------------------------------------------------------------------------------

pub fn run(cfg: Config) -> i32 {
    let mut m = Monitor::new(cfg.clone());
    let (reps, nstates, nvar) = cfg.tier.pick((4, 5, 1), (12, 10, 3));
    // panics of the library are caught (per model / per clause); keep the console small
    let hook = std::panic::take_hook();
    std::panic::set_hook(Box::new(|_| {}));
    let cases = build_cases(cfg.seed, reps, nstates);
    m.note("models", json!(cases.len()));
    par_cases(&mut m, &cases, |m, ci, c| {
        for v in 0..nvar {
            let mut rng = Rng::derive(cfg.seed, "c09-var", ci * 16 + v as u64);
            type Clause = fn(&mut Monitor, u64, &Case, &mut Rng);
            let clauses: [(&str, Clause); 5] = [
                ("perm", permutation),
                ("pad", padding),
                ("split", splitting),
                ("subset", subset),
                ("helpers", helpers),
            ];
            for (k, (name, f)) in clauses.iter().enumerate() {
                // independent stream per clause: a skipped clause does not shift the others
                let mut rng = Rng::derive(rng.next_u64(), name, k as u64);
                let r = std::panic::catch_unwind(std::panic::AssertUnwindSafe(|| {
                    let mut mm = m.fork();
                    f(&mut mm, ci, c, &mut rng);
                    mm
                }));
                match r {
                    Ok(mm) => m.absorb(mm),
                    Err(e) => {
                        let msg = e
                            .downcast_ref::<String>()
                            .cloned()
                            .or_else(|| e.downcast_ref::<&str>().map(|s| s.to_string()))
                            .unwrap_or_default();
                        if *name == "helpers" {
                            // solvers roaming over (T, rho): a panic there is not a statement about
                            // relabelling; counted, not judged
                            m.skip("helpers: vapor pressure", "library panicked inside a solver");
                            m.count("helpers_library_panics", 1);
                            m.note("helpers_last_panic", json!(format!("{}: {}", c.mc.label(), msg)));
                        } else {
                            let spec = c.mc.spec.clone();
                            m.check_bool("no panic", &format!("panic|{}|{}", name, c.fam), ci, false, || {
                                json!({"model": spec, "variant": v, "clause": name, "panic": msg})
                            });
                        }
                    }
                }
            }
        }
    });
    std::panic::set_hook(hook);
    for cl in ["perm", "pad", "split", "subset: state", "subset: max density", "helpers: vapor pressure"] {
        m.gate(m.clause_checked(cl) >= 50, &format!("clause '{cl}' has fewer than 50 oracle evaluations"));
    }
    let fams: Vec<String> = m.families.keys().cloned().collect();
    for f in FAMILIES {
        for cl in ["perm", "pad", "split", "subset"] {
            if *f == "uv-b3" && cl != "subset" {
                continue; // pure components only
            }
            let key = format!("{cl}:{f}");
            m.gate(fams.iter().any(|k| *k == key), &format!("no case for {key}"));
        }
    }
    m.finish(
        "random models of every family (EoS, functionals, FMT) with 1..4 components, pair-specific binary records (k_ij, association overrides, l_ij, gamma_ij), random non-default options; C01-style states (T in [0.4,3] T_c-scale, density (1e-6,0.9) rho_max); per model: a random non-identity permutation, a random zero-mole component, a random split of one component, a random ordered subset, and the mixture-level helpers vs directly built pure models; distinct by hash (clause, model, transformation, state); non-trivial: residual Helmholtz energy not negligible",
        false,
        &[
            "splitting/padding of an associating model can switch between the closed-form and the Newton solution of the association equations; agreement is then limited by tol_cross_assoc (<= 1e-9 in the generated options), tolerance 3e-7",
            "solver-level helpers compared to 1e-8 (critical density 1e-5) whenever both sides converge",
        ],
    )
}

fn info_of<'a>(c: &'a Case, what: Value, ss: &'a StateSpec) -> impl Fn() -> Value + 'a {
    move || json!({"model": c.mc.spec, "transformation": what, "state": ss.json()})
}

fn nontrivial(o: &Obs, ss: &StateSpec) -> bool {
    o.scal[0].1.abs() > 1e-12 * ss.ntot * ss.t
}

// ---- permutation --------------------------------------------------------------------------

fn permutation(m: &mut Monitor, ci: u64, c: &Case, rng: &mut Rng) {
    let n = c.mc.n;
    if n < 2 {
        return;
    }
    let mut pi = rng.permutation(n);
    while pi.iter().enumerate().all(|(i, &p)| i == p) {
        pi = rng.permutation(n);
    }
    let sp = c.mc.spec.select(&pi);
    let Ok(ep) = sp.build() else {
        m.check_bool("perm", &format!("perm|{}|build", c.fam), ci, false, || json!({"model": c.mc.spec, "pi": pi}));
        return;
    };
    let sig = format!("perm{}|{}", quad_tag(&c.mc.spec), c.fam);
    // models on a path with a recorded defect are kept in a clause of their own, so that the
    // worst deviation reported for the main clause is that of the unaffected paths
    let (cl, clt) = if quad_tag(&c.mc.spec).is_empty() { ("perm", "perm: total") } else { ("perm [PC-SAFT EoS, 2 quadrupoles]", "perm: total [PC-SAFT EoS, 2 quadrupoles]") };
    // max density
    {
        let x = rng.simplex(n, 0.1, 1e-6);
        let xp: Vec<f64> = pi.iter().map(|&i| x[i]).collect();
        let (a, b) = (max_density(&c.mc.eos, &x), max_density(&ep, &xp));
        m.check("perm", &format!("{sig}|max_density"), ci, crate::fd::serr(a, b, 0.0), 1e-13, || {
            json!({"model": c.mc.spec, "pi": pi, "x": x, "first": a, "second": b})
        });
    }
    let id_all: Vec<usize> = (0..n).collect();
    let ig = joback(&c.jb, &id_all);
    let igp = joback(&c.jb, &pi);
    let full: Arc<Eos> = Arc::new(EquationOfState::new(ig, c.mc.eos.clone()));
    let fullp: Arc<Eos> = Arc::new(EquationOfState::new(igp, ep.clone()));
    for (si, ss) in c.states.iter().enumerate() {
        let nv: Vec<f64> = ss.x.iter().map(|x| x * ss.ntot).collect();
        let nvp: Vec<f64> = pi.iter().map(|&i| nv[i]).collect();
        let v = ss.ntot / ss.rho;
        let (Some(a), Some(b)) = (tvn(&c.mc.eos, ss.t, v, &nv), tvn(&ep, ss.t, v, &nvp)) else {
            m.skip("perm", "state not constructible");
            continue;
        };
        let (oa, ob) = (observe(c.mc.spec.kind, &a), observe(c.mc.spec.kind, &b));
        if !oa.scal[0].1.is_finite() {
            m.skip("perm", "reference not finite");
            continue;
        }
        m.case(&format!("perm:{}", c.fam), ss.hash(&format!("perm{}{:?}", c.mc.label(), pi)), nontrivial(&oa, ss));
        if si == 0 && m.samples.len() < 2 {
            m.sample(json!({"clause": "perm", "model": c.mc.label(), "pi": pi, "state": ss.json()}));
        }
        let info = info_of(c, json!({"pi": pi}), ss);
        let tol = tol_at(c.mc.spec.kind, ss.eta_frac);
        compare(m, cl, &sig, ci, &oa, &ob, &pi, tol, TOL, &info, &|| nan_cause(&a, &b));
        compare_contributions(m, cl, &sig, ci, &a, &b, oa.scal[0].2, tol, TOL, &info);
        // total properties (ideal gas permuted as well)
        if si % 2 == 0 {
            if let (Some(ta), Some(tb)) = (tvn(&full, ss.t, v, &nv), tvn(&fullp, ss.t, v, &nvp)) {
                if let (Some((sa_, va)), Some((sb_, vb))) = (total_obs(&ta, &id_all), total_obs(&tb, &id_all)) {
                    for ((name, x, sc), (_, y, _)) in sa_.iter().zip(&sb_) {
                        if x.is_finite() || y.is_finite() {
                            chk(m, clt, &format!("{sig}|{name}"), ci, crate::fd::serr(*x, *y, sc * 1e-3), tol, TOL, || {
                                json!({"observable": name, "first": fnum(*x), "second": fnum(*y), "info": info()})
                            });
                        }
                    }
                    let stiff = oa.stiff < 1e-3;
                    for ((name, x, sc), (_, y, _)) in va.iter().zip(&vb) {
                        if stiff && name.starts_with("partial") {
                            continue;
                        }
                        for (k, &i) in pi.iter().enumerate() {
                            if x[i].is_finite() || y[k].is_finite() {
                                chk(m, clt, &format!("{sig}|{name}"), ci, crate::fd::serr(x[i], y[k], sc * 1e-3), tol, TOL, || {
                                    json!({"observable": name, "index": [i, k], "first": fnum(x[i]), "second": fnum(y[k]), "info": info()})
                                });
                            }
                        }
                    }
                }
            }
        }
    }
}

// ---- zero-mole padding ------------------------------------------------------------------

/// tolerance where the two sides may solve the association equations differently
fn assoc_tol(c: &Case, n_assoc_a: usize, n_assoc_b: usize) -> (f64, &'static str) {
    let iterative = |k: usize| k >= 2;
    if c.nassoc >= 1 && (iterative(n_assoc_a) || iterative(n_assoc_b)) {
        (TOL_ASSOC_ITER, "+newton-assoc")
    } else {
        (0.0, "")
    }
}

fn padding(m: &mut Monitor, ci: u64, c: &Case, rng: &mut Rng) {
    let n = c.mc.n;
    if n < 2 {
        return;
    }
    let z = rng.below(n);
    let others: Vec<usize> = (0..n).filter(|&i| i != z).collect();
    let sr = c.mc.spec.select(&others);
    let Ok(er) = sr.build() else {
        m.skip("pad", "reduced model not constructible");
        return;
    };
    let na_full = c.mc.spec.pure.iter().filter(|p| has_sites(p)).count();
    let na_red = sr.pure.iter().filter(|p| has_sites(p)).count();
    let (tol_a, tag) = assoc_tol(c, na_full, na_red);
    let sig = format!("pad|{}{}", c.fam, tag);
    let id_all: Vec<usize> = (0..n).collect();
    let full: Arc<Eos> = Arc::new(EquationOfState::new(joback(&c.jb, &id_all), c.mc.eos.clone()));
    let red: Arc<Eos> = Arc::new(EquationOfState::new(joback(&c.jb, &others), er.clone()));
    let present_r: Vec<usize> = (0..n - 1).collect();
    for (si, ss) in c.states.iter().enumerate() {
        // composition of the present components, density as the same fraction of the
        // maximum density of the reduced mixture
        let xs: f64 = others.iter().map(|&i| ss.x[i]).sum();
        let xr: Vec<f64> = others.iter().map(|&i| ss.x[i] / xs).collect();
        let rho = ss.eta_frac * max_density(&er, &xr);
        let nr: Vec<f64> = xr.iter().map(|x| x * ss.ntot).collect();
        let mut nf = vec![0.0; n];
        for (k, &i) in others.iter().enumerate() {
            nf[i] = nr[k];
        }
        let v = ss.ntot / rho;
        let st = StateSpec { t: ss.t, rho, x: nf.iter().map(|x| x / ss.ntot).collect(), ntot: ss.ntot, eta_frac: ss.eta_frac };
        let (Some(a), Some(b)) = (tvn(&c.mc.eos, ss.t, v, &nf), tvn(&er, ss.t, v, &nr)) else {
            m.skip("pad", "state not constructible");
            continue;
        };
        let ob = observe(c.mc.spec.kind, &b);
        if !ob.scal[0].1.is_finite() {
            m.skip("pad", "reference not finite");
            continue;
        }
        let oa = observe(c.mc.spec.kind, &a);
        m.case(&format!("pad:{}", c.fam), st.hash(&format!("pad{}{}", c.mc.label(), z)), nontrivial(&ob, &st));
        if si == 0 && m.samples.len() < 3 {
            m.sample(json!({"clause": "pad", "model": c.mc.label(), "zero_mole_component": z, "state": st.json()}));
        }
        let info = info_of(c, json!({"zero_mole_component": z}), &st);
        let tol = tol_at(c.mc.spec.kind, ss.eta_frac).max(tol_a);
        compare(m, "pad", &sig, ci, &oa, &ob, &others, tol, TOL, &info, &|| nan_cause(&a, &b));
        compare_contributions(m, "pad", &sig, ci, &a, &b, ob.scal[0].2, tol, TOL, &info);
        // the properties of the absent component itself (infinite dilution) are finite
        {
            let mu = a.residual_chemical_potential().to_reduced();
            let dmu = a.dmu_dni(Contributions::Residual).to_reduced();
            let ok = mu[z].is_finite() && (0..n).all(|j| dmu[[z, j]].is_finite() && dmu[[j, z]].is_finite());
            m.check_bool("pad: absent component finite", &format!("pad|{}|absent finite", c.fam), ci, ok, || {
                json!({"mu_res": mu.iter().map(|x| fnum(*x)).collect::<Vec<_>>(), "info": info()})
            });
        }
        // total properties: the ideal-gas part must skip the absent component (0 ln 0)
        if si % 2 == 0 {
            if let (Some(ta), Some(tb)) = (tvn(&full, ss.t, v, &nf), tvn(&red, ss.t, v, &nr)) {
                if let (Some((sa_, va)), Some((sb_, vb))) = (total_obs(&ta, &others), total_obs(&tb, &present_r)) {
                    for ((name, x, sc), (_, y, _)) in sa_.iter().zip(&sb_) {
                        chk(m, "pad: total", &format!("{sig}|{name}"), ci, crate::fd::serr(*x, *y, sc * 1e-3), tol, TOL, || {
                            json!({"observable": name, "first": fnum(*x), "second": fnum(*y), "info": info()})
                        });
                    }
                    let stiff = ob.stiff < 1e-3;
                    for ((name, x, sc), (_, y, _)) in va.iter().zip(&vb) {
                        if stiff && name.starts_with("partial") {
                            continue;
                        }
                        for (k, &i) in others.iter().enumerate() {
                            chk(m, "pad: total", &format!("{sig}|{name}"), ci, crate::fd::serr(x[i], y[k], sc * 1e-3), tol, TOL, || {
                                json!({"observable": name, "index": [i, k], "first": fnum(x[i]), "second": fnum(y[k]), "info": info()})
                            });
                        }
                    }
                }
            }
        }
    }
}

// ---- splitting --------------------------------------------------------------------------

fn splitting(m: &mut Monitor, ci: u64, c: &Case, rng: &mut Rng) {
    let n = c.mc.n;
    if n > 3 && rng.bool(0.5) {
        // keep most split models at <= 4 components
        return;
    }
    let k = rng.below(n);
    // the twin is inserted at a random position
    let mut list: Vec<usize> = (0..n).collect();
    let pos = rng.below(n + 1);
    list.insert(pos, k);
    let frac = rng.range(0.05, 0.95);
    let mut ss_ = c.mc.spec.select(&list);
    let first = list.iter().position(|&i| i == k).unwrap();
    let second = list.iter().rposition(|&i| i == k).unwrap();
    let mut clause_tag = "split".to_string();
    if c.mc.spec.kind == Kind::EPcSaft {
        let zk = c.mc.spec.pure[k]["model_record"]["z"].as_f64().unwrap_or(0.0);
        let nionic = c.mc.spec.pure.iter().filter(|p| p["model_record"]["z"].as_f64().unwrap_or(0.0) != 0.0).count();
        if zk == 0.0 && nionic > 0 && c.mc.spec.opts.epcsaft_variant == 1 {
            m.skip("split", "ePC-SAFT revised is restricted to one solvent (documented)");
            return;
        }
        if zk != 0.0 {
            // the library switches the dispersion between an ion and itself off (k_ii = 1);
            // the twins get the same value to stay "the same species"
            let b = ss_
                .binary
                .get_or_insert_with(|| scalar_matrix(n + 1, |_, _| json!({"k_ij": [0.0]}), json!({"k_ij": [0.0]})));
            b[first][second] = json!({"k_ij": [1.0, 0.0, 0.0, 0.0]});
            b[second][first] = json!({"k_ij": [1.0, 0.0, 0.0, 0.0]});
        }
        // water with temperature-dependent diameter is recognised by its parameter values
        let r = &c.mc.spec.pure[k]["model_record"];
        let g = |key: &str| r[key].as_f64().unwrap_or(0.0);
        if ((g("m") * 1000.0).round() / 1000.0 == 1.205) && g("epsilon_k").round() == 354.0 && (g("kappa_ab") * 1000.0).round() / 1000.0 == 0.045 && g("epsilon_k_ab").round() == 2426.0 {
            clause_tag = "split+water-twin".to_string();
        }
    }
    if c.mc.spec.kind == Kind::PcSaftFunctional && is_quadrupolar(&c.mc.spec.pure[k]) {
        // recorded defect (C08 F16): the functional's quadrupole term misses the factor 2 of
        // unlike pairs; splitting a quadrupolar component creates such a pair
        clause_tag = "split+functional-quadrupole-twin".to_string();
    }
    if !quad_tag(&c.mc.spec).is_empty() {
        clause_tag = format!("split{}", quad_tag(&c.mc.spec));
    }
    let es = match ss_.build() {
        Ok(e) => e,
        Err(e) => {
            if c.mc.spec.kind == Kind::Uv && c.mc.spec.opts.perturbation == 2 {
                m.skip("split", "B3 is restricted to pure components");
            } else {
                m.skip("split", &format!("split model not constructible: {}", e.0.chars().take(60).collect::<String>()));
            }
            return;
        }
    };
    let na_split = ss_.pure.iter().filter(|p| has_sites(p)).count();
    let (tol_a, tag) = assoc_tol(c, c.nassoc, na_split);
    let sig = format!("{}|{}{}", clause_tag, c.fam, tag);
    // first occurrence gets frac, second 1-frac
    for (si, ss) in c.states.iter().enumerate() {
        let nv: Vec<f64> = ss.x.iter().map(|x| x * ss.ntot).collect();
        let mut nsp: Vec<f64> = list.iter().map(|&i| nv[i]).collect();
        let part = frac * nv[k];
        for (cidx, &i) in list.iter().enumerate() {
            if i == k {
                nsp[cidx] = if cidx == first { part } else { nv[k] - part };
            }
        }
        let v = ss.ntot / ss.rho;
        let (Some(a), Some(b)) = (tvn(&c.mc.eos, ss.t, v, &nv), tvn(&es, ss.t, v, &nsp)) else {
            m.skip("split", "state not constructible");
            continue;
        };
        let oa = observe(c.mc.spec.kind, &a);
        if !oa.scal[0].1.is_finite() {
            m.skip("split", "reference not finite");
            continue;
        }
        let ob = observe(c.mc.spec.kind, &b);
        m.case(&format!("split:{}", c.fam), ss.hash(&format!("split{}{:?}", c.mc.label(), list)), nontrivial(&oa, ss));
        if si == 0 && m.samples.len() < 4 {
            m.sample(json!({"clause": "split", "model": c.mc.label(), "components_of_split_model": list, "fraction": frac, "state": ss.json()}));
        }
        let info = info_of(c, json!({"components_of_split_model": list, "fraction_in_first_copy": frac}), ss);
        let tol = tol_at(c.mc.spec.kind, ss.eta_frac).max(tol_a);
        let cl = if clause_tag == "split" { "split".to_string() } else { format!("split [{}]", &clause_tag[6..]) };
        compare(m, &cl, &sig, ci, &oa, &ob, &list, tol, TOL, &info, &|| nan_cause(&a, &b));
        // (single contributions are not split-invariant: the ideal-chain and hard-chain
        // functionals exchange a mixing term, only their sum is invariant)
    }
}

// ---- subset -----------------------------------------------------------------------------

fn random_sublist(rng: &mut Rng, n: usize) -> Vec<usize> {
    let k = 1 + rng.below(n);
    let p = rng.permutation(n);
    p[..k].to_vec()
}

fn contributions<E: Residual>(s: &State<E>) -> Vec<(String, f64)> {
    s.residual_helmholtz_energy_contributions()
        .into_iter()
        .map(|(n, a)| (n, a.to_reduced()))
        .collect()
}

fn subset(m: &mut Monitor, ci: u64, c: &Case, rng: &mut Rng) {
    let n = c.mc.n;
    let nl = if n == 1 { 1 } else { 2 };
    for li in 0..nl {
        let list = if li == 0 { random_sublist(rng, n) } else { vec![rng.below(n)] };
        let sd = c.mc.spec.select(&list);
        let Ok(direct) = sd.build() else {
            m.skip("subset: state", "direct model not constructible");
            continue;
        };
        let sub: Arc<Model> = Arc::new(c.mc.eos.subset(&list));
        let k = list.len();
        let nondefault = !c.mc.spec.opts.is_default();
        // the same records with default options: tells "options dropped" from other slips
        let dflt = if nondefault { sd.clone().with_opts(Opts { fmt: sd.opts.fmt, perturbation: sd.opts.perturbation, ..Opts::default() }).build().ok() } else { None };
        let ok_comp = sub.components() == k;
        m.check_bool("subset: state", &format!("subset|{}|components", c.ktag), ci, ok_comp, || {
            json!({"model": c.mc.spec, "list": list, "components": sub.components()})
        });
        if !ok_comp {
            continue;
        }
        // max density
        for _ in 0..2 {
            let x = rng.simplex(k, 0.1, 1e-6);
            let (a, b) = (max_density(&sub, &x), max_density(&direct, &x));
            let dev = crate::fd::serr(a, b, 0.0);
            let what = match &dflt {
                Some(d) if dev > 1e-14 && crate::fd::serr(a, max_density(d, &x), 0.0) <= 1e-14 => "options dropped",
                _ => "max_density",
            };
            m.check("subset: max density", &format!("subset|{}|{}", c.ktag, what), ci, dev, 1e-14, || {
                json!({"model": c.mc.spec, "list": list, "x": x, "max_density_of_subset": a, "max_density_of_directly_built_model": b,
                       "options": c.mc.spec.opts})
            });
        }
        m.count(if nondefault { "subset_models_with_nondefault_options" } else { "subset_models_with_default_options" }, 1);
        let idk: Vec<usize> = (0..k).collect();
        for (si, ss) in c.states.iter().enumerate() {
            let xs: f64 = list.iter().map(|&i| ss.x[i]).sum();
            let x: Vec<f64> = list.iter().map(|&i| ss.x[i] / xs).collect();
            let rho = ss.eta_frac * max_density(&direct, &x);
            let nv: Vec<f64> = x.iter().map(|x| x * ss.ntot).collect();
            let v = ss.ntot / rho;
            let st = StateSpec { t: ss.t, rho, x: x.clone(), ntot: ss.ntot, eta_frac: ss.eta_frac };
            let (Some(a), Some(b)) = (tvn(&sub, ss.t, v, &nv), tvn(&direct, ss.t, v, &nv)) else {
                m.skip("subset: state", "state not constructible");
                continue;
            };
            let ob = observe(c.mc.spec.kind, &b);
            if !ob.scal[0].1.is_finite() {
                m.skip("subset: state", "reference not finite");
                continue;
            }
            let oa = observe(c.mc.spec.kind, &a);
            m.case(&format!("subset:{}", c.fam), st.hash(&format!("subset{}{:?}", c.mc.label(), list)), nontrivial(&ob, &st));
            if si == 0 && m.samples.len() < 5 {
                m.sample(json!({"clause": "subset", "model": c.mc.label(), "list": list, "options": c.mc.spec.opts, "state": st.json()}));
            }
            let info = info_of(c, json!({"subset_list": list}), &st);
            // the same records through the same constructors: identical up to the order
            // in which hash maps are traversed (group-contribution models)
            let tol_s = 0.1 * tol_at(c.mc.spec.kind, ss.eta_frac);
            // classify lazily
            let mut sig = format!("subset|{}|state", c.ktag);
            let mut probe = m.fork();
            if !compare(&mut probe, "subset: state", &sig, ci, &oa, &ob, &idk, tol_s, 0.1 * TOL, &info, &|| nan_cause(&a, &b)) {
                if let Some(d) = &dflt {
                    if let Some(s0) = tvn(d, ss.t, v, &nv) {
                        let mut p2 = m.fork();
                        if compare(&mut p2, "subset: state", &sig, ci, &oa, &observe(c.mc.spec.kind, &s0), &idk, tol_s, 0.1 * TOL, &info, &|| nan_cause(&a, &s0)) {
                            sig = format!("subset|{}|options dropped", c.ktag);
                        }
                    }
                }
            }
            compare(m, "subset: state", &sig, ci, &oa, &ob, &idk, tol_s, 0.1 * TOL, &info, &|| nan_cause(&a, &b));
            // contributions: same names (incl. FMT version), same values
            let (ca, cb) = (contributions(&a), contributions(&b));
            let names_ok = ca.len() == cb.len() && ca.iter().zip(&cb).all(|(x, y)| x.0 == y.0);
            m.check_bool("subset: contributions", &format!("subset|{}|contribution names", c.ktag), ci, names_ok, || {
                json!({"subset": ca.iter().map(|x| x.0.clone()).collect::<Vec<_>>(), "direct": cb.iter().map(|x| x.0.clone()).collect::<Vec<_>>(), "info": info()})
            });
            if names_ok {
                let sa = oa.scal[0].2 * 1e3;
                for ((name, x), (_, y)) in ca.iter().zip(&cb) {
                    if x.is_finite() || y.is_finite() {
                        chk(m, "subset: contributions", &format!("subset|{}|contribution value", c.ktag), ci, crate::fd::serr(*x, *y, sa * 1e-3), tol_s, 0.1 * TOL, || {
                            json!({"contribution": name, "subset": fnum(*x), "direct": fnum(*y), "info": info()})
                        });
                    }
                }
            }
        }
    }
}

// ---- mixture-level helpers that call subset internally --------------------------------------

fn helpers(m: &mut Monitor, ci: u64, c: &Case, rng: &mut Rng) {
    let n = c.mc.n;
    if c.mc.spec.kind == Kind::Fmt {
        return; // no attraction: no phase equilibria
    }
    if c.mc.spec.pure.iter().any(|p| p["model_record"]["z"].as_f64().unwrap_or(0.0) != 0.0) {
        // pure ions have no phase equilibria; the permittivity interpolation panics on NaN T
        m.skip("helpers: vapor pressure", "electrolyte mixture: no pure-component equilibria of ions");
        return;
    }
    let eos = &c.mc.eos;
    let pures: Vec<Option<Arc<Model>>> = (0..n).map(|i| c.mc.spec.select(&[i]).build().ok()).collect();
    let fam = &c.fam;
    // does the pure sub-model carry the options of the mixture model? (reported by the
    // subset clause; its consequences for the helpers are filed under the same signature)
    let dropped = !c.mc.spec.opts.is_default()
        && (0..n).any(|i| {
            let sub = eos.subset(&[i]);
            let dflt = c.mc.spec.select(&[i]).with_opts(Opts { fmt: c.mc.spec.opts.fmt, perturbation: c.mc.spec.opts.perturbation, ..Opts::default() }).build();
            match (&pures[i], dflt) {
                (Some(d), Ok(d0)) => {
                    let a = sub.compute_max_density(&arr1(&[1.0]));
                    crate::fd::serr(a, max_density(d, &[1.0]), 0.0) > 1e-14 && crate::fd::serr(a, max_density(&d0, &[1.0]), 0.0) <= 1e-14
                }
                _ => false,
            }
        });
    // consequences of a sub-model that lost its options are kept in clauses of their own
    let sfx = if dropped { " [subset drops options]" } else { "" };
    let kt = &if dropped { format!("subset|{}|options dropped|helpers", c.ktag) } else { format!("helpers|{}", c.ktag) };
    let tmin = c.mc.tscale.iter().cloned().fold(f64::INFINITY, f64::min);
    let info = |t: f64| {
        let spec = c.mc.spec.clone();
        move || json!({"model": spec, "T": t})
    };
    m.case(&format!("helpers:{fam}"), hash_f64s(&format!("helpers{}", c.mc.label()), &[tmin]), true);

    // vapor pressures and pure-component phase equilibria
    let t = tmin * rng.range(0.6, 0.95);
    let temp = Temperature::from_reduced(t);
    let vp = PhaseEquilibrium::vapor_pressure(eos, temp);
    let vles = PhaseEquilibrium::vle_pure_comps(eos, temp);
    for i in 0..n {
        let Some(pe) = &pures[i] else { continue };
        let direct = PhaseEquilibrium::pure(pe, temp, None, SolverOptions::default()).ok();
        match (&vp[i], &direct) {
            (Some(p), Some(d)) => {
                let (p, pd) = (p.to_reduced(), d.vapor().pressure(Contributions::Total).to_reduced());
                m.check(&format!("helpers: vapor pressure{sfx}"), &format!("{kt}|vapor_pressure"), ci, crate::fd::serr(p, pd, 0.0), TOL_SOLVER, || {
                    json!({"component": i, "vapor_pressure": p, "pure_model": pd, "info": info(t)()})
                });
            }
            (None, None) => m.skip(&format!("helpers: vapor pressure{sfx}"), "no pure VLE at this temperature"),
            _ => {
                m.skip(&format!("helpers: vapor pressure{sfx}"), "only one side converged");
                m.count("helpers_one_sided_convergence", 1);
            }
        }
        match (&vles[i], &direct) {
            (Some(v), Some(d)) => {
                // states of the mixture model with zero moles of the other components
                let items = [
                    ("p_vapor", v.vapor().pressure(Contributions::Total).to_reduced(), d.vapor().pressure(Contributions::Total).to_reduced()),
                    ("p_liquid", v.liquid().pressure(Contributions::Total).to_reduced(), d.liquid().pressure(Contributions::Total).to_reduced()),
                    ("rho_vapor", v.vapor().density.to_reduced(), d.vapor().density.to_reduced()),
                    ("rho_liquid", v.liquid().density.to_reduced(), d.liquid().density.to_reduced()),
                ];
                // the liquid pressure is a small difference of large terms: compare on the
                // scale of its residual part
                let pres_l = d.liquid().pressure(Contributions::Residual).to_reduced().abs();
                for (name, x, y) in items {
                    if x.is_finite() != y.is_finite() {
                        let cause = nan_cause(v.liquid(), v.vapor());
                        m.check_bool(&format!("helpers: vle_pure_comps{sfx}"), &format!("nan[{cause}]|{kt}|vle_pure_comps"), ci, false, || {
                            json!({"component": i, "what": name, "mixture_helper": fnum(x), "pure_model": fnum(y), "info": info(t)()})
                        });
                        continue;
                    }
                    let floor = if name == "p_liquid" { pres_l } else { 0.0 };
                    m.check(&format!("helpers: vle_pure_comps{sfx}"), &format!("{kt}|vle_pure_comps|{name}"), ci, crate::fd::serr(x, y, floor), TOL_SOLVER, || {
                        json!({"component": i, "what": name, "mixture_helper": fnum(x), "pure_model": fnum(y), "info": info(t)()})
                    });
                }
                let xl = &v.liquid().molefracs;
                let okx = (0..n).all(|j| if j == i { xl[j] == 1.0 } else { xl[j] == 0.0 });
                m.check_bool(&format!("helpers: vle_pure_comps{sfx}"), &format!("{kt}|vle_pure_comps|composition"), ci, okx, || {
                    json!({"component": i, "molefracs": xl.to_vec(), "info": info(t)()})
                });
            }
            (None, None) => {}
            _ => m.skip(&format!("helpers: vle_pure_comps{sfx}"), "only one side converged"),
        }
    }

    // critical points of the pure components
    if pures.iter().all(|p| p.is_some()) {
        let cp = State::critical_point_pure(eos, None, SolverOptions::default());
        let direct: Vec<_> = pures
            .iter()
            .map(|p| State::critical_point(p.as_ref().unwrap(), None, None, SolverOptions::default()))
            .collect();
        match cp {
            Ok(cps) => {
                for (i, (a, d)) in cps.iter().zip(&direct).enumerate() {
                    let Ok(d) = d else {
                        m.skip(&format!("helpers: critical_point_pure{sfx}"), "only one side converged");
                        continue;
                    };
                    let (ta, td) = (a.temperature.to_reduced(), d.temperature.to_reduced());
                    let (ra, rd) = (a.density.to_reduced(), d.density.to_reduced());
                    m.check(&format!("helpers: critical_point_pure{sfx}"), &format!("{kt}|critical_point_pure|T"), ci, crate::fd::serr(ta, td, 0.0), TOL_SOLVER, || {
                        json!({"component": i, "Tc_helper": ta, "Tc_pure_model": td, "model": c.mc.spec})
                    });
                    m.check(&format!("helpers: critical_point_pure{sfx}"), &format!("{kt}|critical_point_pure|rho"), ci, crate::fd::serr(ra, rd, 0.0), TOL_SOLVER_RHOC, || {
                        json!({"component": i, "rhoc_helper": ra, "rhoc_pure_model": rd, "model": c.mc.spec})
                    });
                }
            }
            Err(_) => {
                if direct.iter().all(|d| d.is_ok()) {
                    m.skip(&format!("helpers: critical_point_pure{sfx}"), "only one side converged");
                    m.count("helpers_one_sided_convergence", 1);
                } else {
                    m.skip(&format!("helpers: critical_point_pure{sfx}"), "no critical point found for some component");
                }
            }
        }
    }

    // ln phi of the pure liquids / symmetric activity coefficients at a liquid mixture state
    {
        let x = rng.simplex(n, 0.0, 1e-6);
        let pmax = vp.iter().flatten().map(|p| p.to_reduced()).fold(0.0, f64::max);
        if pmax > 0.0 && vp.iter().all(|p| p.is_some()) {
            let p = Pressure::from_reduced(pmax * rng.range(1.5, 20.0));
            let moles = Moles::from_reduced(Array1::from_vec(x.clone()));
            if let Ok(st) = State::new_npt(eos, temp, p, &moles, DensityInitialization::Liquid) {
                let pp = st.pressure(Contributions::Total);
                let helper = st.ln_phi_pure_liquid();
                let direct: Vec<Option<f64>> = pures
                    .iter()
                    .map(|pe| {
                        let pe = pe.as_ref()?;
                        State::new_npt(pe, temp, pp, &Moles::from_reduced(arr1(&[1.0])), DensityInitialization::Liquid)
                            .ok()
                            .map(|s| s.ln_phi()[0])
                    })
                    .collect();
                match helper {
                    Ok(h) => {
                        let gam = st.ln_symmetric_activity_coefficient().ok();
                        let lnphi = st.ln_phi();
                        for i in 0..n {
                            let Some(d) = direct[i] else {
                                m.skip(&format!("helpers: ln_phi_pure_liquid{sfx}"), "only one side converged");
                                continue;
                            };
                            if !h[i].is_finite() && !d.is_finite() {
                                m.skip(&format!("helpers: ln_phi_pure_liquid{sfx}"), "not finite on both sides");
                                continue;
                            }
                            m.check(&format!("helpers: ln_phi_pure_liquid{sfx}"), &format!("{kt}|ln_phi_pure_liquid"), ci, crate::fd::serr(h[i], d, 1.0), TOL_SOLVER, || {
                                json!({"component": i, "helper": fnum(h[i]), "pure_model": fnum(d), "x": x, "p": pp.to_reduced(), "info": info(t)()})
                            });
                            if let Some(g) = &gam {
                                let want = if n == 1 { 0.0 } else { lnphi[i] - d };
                                if !g[i].is_finite() && !want.is_finite() {
                                    m.skip(&format!("helpers: ln_symmetric_activity_coefficient{sfx}"), "not finite on both sides");
                                    continue;
                                }
                                m.check(&format!("helpers: ln_symmetric_activity_coefficient{sfx}"), &format!("{kt}|ln_symmetric_activity_coefficient"), ci, crate::fd::serr(g[i], want, 1.0), TOL_SOLVER, || {
                                    json!({"component": i, "helper": fnum(g[i]), "ln_phi_mix - ln_phi_pure_model": fnum(want), "x": x, "info": info(t)()})
                                });
                            }
                        }
                    }
                    Err(_) => {
                        if direct.iter().all(|d| d.is_some()) {
                            m.skip(&format!("helpers: ln_phi_pure_liquid{sfx}"), "only one side converged");
                            m.count("helpers_one_sided_convergence", 1);
                        } else {
                            m.skip(&format!("helpers: ln_phi_pure_liquid{sfx}"), "no liquid root for some pure component");
                        }
                    }
                }
            } else {
                m.skip(&format!("helpers: ln_phi_pure_liquid{sfx}"), "no liquid mixture state");
            }
        } else {
            m.skip(&format!("helpers: ln_phi_pure_liquid{sfx}"), "no common subcritical temperature");
        }
    }

    // Henry's law constants: the solvent equilibrium is computed in eos.subset(solvent)
    if n >= 2 {
        let nsolv = 1 + rng.below(n - 1);
        let perm = rng.permutation(n);
        let mut solvent: Vec<usize> = perm[..nsolv].to_vec();
        solvent.sort();
        let xs = rng.simplex(nsolv, 0.0, 1e-6);
        let mut x = vec![0.0; n];
        for (k, &i) in solvent.iter().enumerate() {
            x[i] = xs[k];
        }
        let ts: f64 = solvent.iter().zip(&xs).map(|(&i, x)| x * c.mc.tscale[i]).sum();
        let th = ts * rng.range(0.6, 0.9);
        let temp = Temperature::from_reduced(th);
        let xa = Array1::from_vec(x.clone());
        let helper = State::henrys_law_constant(eos, temp, &xa);
        // the same computation with the solvent model built directly
        let direct = (|| -> Option<Vec<f64>> {
            let se = c.mc.spec.select(&solvent).build().ok()?;
            let vle = if nsolv == 1 {
                PhaseEquilibrium::pure(&se, temp, None, SolverOptions::default()).ok()?
            } else {
                PhaseEquilibrium::bubble_point(&se, temp, &Array1::from_vec(xs.clone()), None, None, Default::default()).ok()?
            };
            let nl: Vec<f64> = x.iter().map(|x| x * vle.liquid().total_moles.to_reduced()).collect();
            let liquid = tvn(eos, th, vle.liquid().volume.to_reduced(), &nl)?;
            let mut yv = x.clone();
            for (k, &i) in solvent.iter().enumerate() {
                yv[i] = vle.vapor().molefracs[k];
            }
            let nvap: Vec<f64> = yv.iter().map(|y| y * vle.vapor().total_moles.to_reduced()).collect();
            let vapor = tvn(eos, th, vle.vapor().volume.to_reduced(), &nvap)?;
            let p = vle.vapor().pressure(Contributions::Total).to_reduced();
            let (ll, lv) = (liquid.ln_phi(), vapor.ln_phi());
            Some((0..n).filter(|i| x[*i] == 0.0).map(|i| (ll[i] - lv[i]).exp() * p).collect())
        })();
        match (helper, direct) {
            (Ok(h), Some(d)) => {
                let h = h.to_reduced();
                let okn = h.len() == d.len();
                m.check_bool(&format!("helpers: henrys_law_constant{sfx}"), &format!("{kt}|henrys_law_constant|length"), ci, okn, || {
                    json!({"x": x, "returned": h.to_vec(), "info": info(th)()})
                });
                if okn {
                    for (k, (a, b)) in h.iter().zip(&d).enumerate() {
                        if !a.is_finite() && !b.is_finite() {
                            m.skip(&format!("helpers: henrys_law_constant{sfx}"), "not finite on both sides");
                            continue;
                        }
                        m.check(&format!("helpers: henrys_law_constant{sfx}"), &format!("{kt}|henrys_law_constant"), ci, crate::fd::serr(*a, *b, 0.0), TOL_SOLVER, || {
                            json!({"solute_number": k, "x": x, "helper": fnum(*a), "with_directly_built_solvent": fnum(*b), "info": info(th)()})
                        });
                    }
                }
            }
            (Err(_), None) => m.skip(&format!("helpers: henrys_law_constant{sfx}"), "no solvent equilibrium"),
            _ => {
                m.skip(&format!("helpers: henrys_law_constant{sfx}"), "only one side converged");
                m.count("helpers_one_sided_convergence", 1);
            }
        }
    }
}
