//! The shared state stream used by C01, C02, C08, C10: model cases of every family
//! with sampled states.
use crate::monitor::Tier;
use crate::prng::Rng;
use crate::zoo::*;

pub struct StreamCase {
    pub mc: ModelCase,
    pub states: Vec<StateSpec>,
    pub idx: u64,
}

/// (family, n, replicate) grid -> model cases with `nstates` states each.
pub fn build_stream(
    seed: u64,
    tag: &str,
    families: &[&str],
    ncomp: &[usize],
    reps: usize,
    nstates: usize,
    with_functionals: bool,
    tlo: f64,
    thi: f64,
) -> Vec<StreamCase> {
    use rayon::prelude::*;
    let col = Collections::load();
    let mut jobs = Vec::new();
    for (fi, fam) in families.iter().enumerate() {
        for &n in ncomp {
            for r in 0..reps {
                jobs.push((fi, *fam, n, r));
            }
        }
    }
    let cases: Vec<Vec<(ModelCase, Vec<StateSpec>)>> = jobs
        .par_iter()
        .map(|&(fi, fam, n, r)| {
            let mut rng = Rng::derive(seed, tag, (fi * 1000 + n * 100 + r) as u64);
            let mut out = Vec::new();
            let Some(spec) = random_spec(&col, fam, n, &mut rng) else {
                return out;
            };
            let Ok(mc) = ModelCase::new(fam, spec.clone()) else {
                return out;
            };
            let states: Vec<StateSpec> = (0..nstates)
                .map(|_| sample_state(&mc, &mut rng, tlo, thi))
                .collect();
            if with_functionals {
                if let Some(fs) = functional_of(&spec, rng.below(3) as u8) {
                    let ffam = format!("{fam}-functional");
                    if let Ok(fmc) = ModelCase::with_tscale(&ffam, fs, mc.tscale.clone()) {
                        out.push((fmc, states.clone()));
                    }
                }
            }
            out.push((mc, states));
            out
        })
        .collect();
    cases
        .into_iter()
        .flatten()
        .enumerate()
        .map(|(i, (mc, states))| StreamCase {
            mc,
            states,
            idx: i as u64,
        })
        .collect()
}

pub fn stream_sizes(tier: Tier) -> (usize, usize) {
    // (replicates per family x ncomp, states per model)
    tier.pick((8, 24), (300, 150))
}
