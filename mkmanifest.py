#!/usr/bin/env python3
"""Regenerates /verif/MANIFEST.json from the table below (single source of truth)."""
import json, subprocess, os

HERE = os.path.dirname(os.path.abspath(__file__))

CHECKS = {
    "C01": dict(
        text="Runtime monitoring of the real getters: every AD derivative property (p, S, mu, dp/dV, dp/dT, dp/dN, dmu/dN, dmu/dT, dS/dT, d2S/dT2, d2p/dV2, per-contribution p and mu, cp, cv, w, mu_JT, dlnphi/dT|dp|dN) is compared with Richardson finite differences of the next-lower-order getter on neighbouring states, for thousands (quick) to ~10^5 (thorough) random states of every model family incl. functionals. Holds on what was executed; says nothing about states not generated.",
        note="Trusted: finite-difference error model (best of several step sizes, tolerance 1e-6 scaled, relaxed as 1e-2/eta at very low packing fraction where the residual loses precision), harness closed forms, verif hooks do not alter results.",
        technique="relational oracle on executions: AD getter vs finite differences of neighbouring states (seeded random workload, all model families)",
        ref="DESIGN.md 2/C01",
    ),
    "C02": dict(
        text="Runtime monitoring of identities between the derivatives one state reports: Euler A=-pV+sum mu N, V dp/dV+sum N dp/dN=0 (residual and total), sum_j N_j dmu_i/dN_j=V dp/dN_i, symmetry of dmu/dN via an independent swapped hyper-dual evaluation, sum_i N_i dlnphi_i/dN_j=0, partial molar v/s/h sums, and invariance of intensive properties under (V,N)->(lambda V, lambda N), lambda in [1e-3,1e3], on 3.5e3 (quick) / 1.7e5 (thorough) random states of every model family incl. functionals, 1-4 components.",
        note="Identities are judged relative to the sum of |terms| with tolerance 3e-10 (1e-9 for scale invariance), relaxed by 0.1/eta at packing fractions where the residual loses precision and for dilute components in the second composition derivatives.",
        technique="relational oracle on executions: exact thermodynamic identities between getters of one state, metamorphic (lambda V, lambda N) pairs",
        ref="DESIGN.md 2/C02",
    ),
    "C08": dict(
        text="Differential monitoring of pairs of code paths for the same model on random states: functional vs EoS (PC-SAFT x 3 FMT versions, pure-optimised and mixture paths, gc-PC-SAFT, PeTS, SAFT-VRQ Mie; A, p, S, mu, dp/dV, dp/dT, dS/dT, dmu/dN), FMT vs harness BMCSL closed form, enum and ideal-gas wrappers vs bare models, ePC-SAFT without ions vs PC-SAFT, SAFT-VRQ Mie FH0 vs SAFT-VR Mie monomers, analytic vs Newton association at all dual orders, homosegmented GC vs hand-combined record, PR vs textbook closed form in SI. Recorded defects F14-F16 are reported as KNOWN-FINDING.",
        note="Pair tolerances 1e-9..1e-13 scaled by the state's residual energy scale (1e-3 for the VRQ/VR Mie pair whose hard-sphere diameters use different quadratures; relaxed at low density for functionals). Harness closed forms (BMCSL, PR, GC combining rules) are trusted.",
        technique="differential oracle on executions: two implementations of one model on the same seeded random states",
        ref="DESIGN.md 2/C08",
    ),
    "C10": dict(
        text="Runtime monitoring of Total = IdealGas + Residual for every selector-taking getter (each selector on a fresh state), residual-API vs selector-API agreement, p_IG = rho R T in SI, ideal mixing of mu^IG, residual properties vanishing like rho at 1e-8..1e-4 rho_max, and c_p^IG from the Helmholtz derivative vs harness closed forms of the Joback polynomial and DIPPR 100/107/127 for every poling2000 record, every gc substance assembled from joback1987 groups and random coefficient sets, T in [150,1500] K, pure and mixtures.",
        note="Closed forms of the published correlations are the reference model (1e-6; the Joback implementation rescales by the ratio of 2014/2019 gas constants). Sum identities 1e-12 relative to |terms|, relaxed at low packing fraction.",
        technique="relational oracle on executions + reference-model monitor (closed-form heat-capacity correlations)",
        ref="DESIGN.md 2/C10",
    ),
    "C13": dict(
        text="Runtime monitoring of B, C, dB/dT, dC/dT of random pure/binary/ternary models of every non-electrolyte family against the low-density limit built from finite-density states of the same model ((Z-1)/rho at rho, 2rho, 4rho at two density levels, Richardson-extrapolated, the level difference as error bar) and against finite differences in T; finiteness of all four. Recorded defects (uv-theory BH, SAFT-VRQ Mie mixtures, functionals) are reported as KNOWN-FINDING.",
        note="Reference accuracy 1e-9 (B) / 1e-5 (C) where the density expansion converges at the probe densities; cases where it does not (strong association at low T) are counted as unresolved, not checked.",
        technique="relational oracle on executions: virial getters vs extrapolated finite-density states of the same model",
        ref="DESIGN.md 2/C13",
    ),

}

NOT_YET = {}

PENDING_REASON = "check not built yet in this round (planned, see DESIGN.md section 2); not claimed until its monitor is silent on the unchanged tree"

def main():
    props = [json.loads(l) for l in open(os.path.join(HERE, "properties.jsonl"))]
    ids = [p["id"] for p in props]
    commits = subprocess.run(
        ["git", "-C", "/repo", "log", "--format=%H %s"], capture_output=True, text=True
    ).stdout.splitlines()
    hook_commits = [c.split()[0] for c in commits if " verif hooks:" in c]
    checks = []
    for i in ids:
        if i not in CHECKS:
            continue
        c = CHECKS[i]
        checks.append(
            {
                "property_id": i,
                "quick_cmd": f"./fv check {i} --tier quick",
                "thorough_cmd": f"./fv check {i} --tier thorough",
                "evidence_file": f"/verif/evidence/{i}.json",
                "replay_cmd_template": f"./fv check {i} --replay {{path}}",
                "engine": "fv",
                "level_claimed": {
                    "category": "exploration",
                    "text": c["text"],
                    "design_ref": c["ref"],
                },
                "level_note": c["note"],
                "technique": c["technique"],
            }
        )
    na = []
    for i in ids:
        if i in CHECKS:
            continue
        na.append({"property_id": i, "reason": NOT_YET.get(i, PENDING_REASON)})
    manifest = {
        "version": 1,
        "setup_cmd": "./fv build",
        "hooks": {
            "guard": "verif",
            "enable": "cargo feature `verif` of feos / feos-core / feos-dft (harness/Cargo.toml enables it on its path dependencies to /repo); off by default",
            "baseline_off_cmd": "cd /repo && cargo nextest run --workspace --no-fail-fast --test-threads 8 --offline || cargo test --workspace --no-fail-fast --offline",
            "source_commits": hook_commits,
            "add_only": True,
        },
        "engines": [
            {
                "name": "fv",
                "path": "/verif/harness",
                "serves_properties": [c["property_id"] for c in checks],
                "kind_free_text": "Rust harness linked against /repo (path dependency, hooks on): seeded hostile workloads, relational/differential/trace oracles, three-valued verdicts, evidence + replay writer; wrapper script /verif/fv (build + watchdog)",
            }
        ],
        "checks": checks,
        "not_applicable": na,
        "notes": "All checks are runtime monitors over executions of the real code (family: runtime monitoring and sanitizers). Exit 0 = held on everything explored (KNOWN-FINDING lines for recorded defects in known_findings.json), 1 = VIOLATION, 2 = INCONCLUSIVE (never folded into the others). VERIF_SEED / --seed drive every random choice.",
    }
    json.dump(manifest, open(os.path.join(HERE, "MANIFEST.json"), "w"), indent=1)
    print("checks:", [c["property_id"] for c in checks], "not claimed:", len(na))

if __name__ == "__main__":
    main()
