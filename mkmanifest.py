#!/usr/bin/env python3
"""Regenerates /verif/MANIFEST.json from the table below (single source of truth)."""
import json, subprocess, os

HERE = os.path.dirname(os.path.abspath(__file__))

CHECKS = {
    "C01": dict(
        text="Runtime monitoring of the real getters: every AD derivative property (p, S, mu, dp/dV, dp/dT, dp/dN, dmu/dN, dmu/dT, dS/dT, d2S/dT2, d2p/dV2, per-contribution p and mu, cp, cv, w, mu_JT, dlnphi/dT|dp|dN) is compared with Richardson finite differences of the next-lower-order getter on neighbouring states, for thousands (quick) to ~10^5 (thorough) random states of every model family incl. functionals. Holds on what was executed; says nothing about states not generated.",
        note="Trusted: finite-difference error model (best of several step sizes, tolerance 1e-6 scaled, relaxed as 1e-2/eta at very low packing fraction where the residual loses precision), harness closed forms, verif hooks do not alter results.",
        technique="relational oracle on executions: AD getter vs finite differences of neighbouring states (seeded random workload, all model families)",
        ref="DESIGN.md 2/C01",
    ),
    "C02": dict(
        text="Runtime monitoring of identities between the derivatives one state reports: Euler A=-pV+sum mu N, V dp/dV+sum N dp/dN=0 (residual and total), sum_j N_j dmu_i/dN_j=V dp/dN_i, symmetry of dmu/dN via an independent swapped hyper-dual evaluation, sum_i N_i dlnphi_i/dN_j=0, partial molar v/s/h sums, and invariance of intensive properties under (V,N)->(lambda V, lambda N), lambda in [1e-3,1e3], on 3.5e3 (quick) / 1.7e5 (thorough) random states of every model family incl. functionals, 1-4 components.",
        note="Identities are judged relative to the sum of |terms| with tolerance 1e-9 (1e-9 for scale invariance), relaxed by 0.1/eta at packing fractions where the residual loses precision and for dilute components in the second composition derivatives.",
        technique="relational oracle on executions: exact thermodynamic identities between getters of one state, metamorphic (lambda V, lambda N) pairs",
        ref="DESIGN.md 2/C02",
    ),
    "C03": dict(
        text="Runtime monitoring of the state constructors: (a) subsets of the optional State::new inputs (all 2^8 x corruption classes at thorough) with valid / NaN / inf / negative / wrong-length values against a harness re-implementation of the documented determination rule: Ok states echo every supplied input to 1e-13, invalid / over- / under-determined sets are rejected, no panic; (b) deterministic success grid: every record of the Gross-Sadowski collections x T in [0.45,1.65] T_c x p in [1e-4,10] p_c x 3 phase hints must yield a state whose pressure matches (1e-7 rel + solver abs tol); root selection against a 400-point density scan (lowest Gibbs energy without hint, hinted branch when both exist); cross-route clause: State::new(T,V,p,hint) has the density of new_npt(T,p,N,hint) to 1e-6 and echoes V and T exactly (one third of the grid); (c) 3e3 / 1.5e5 random (T,p,initial density) over the model zoo: pressure reproduced whenever Ok, with the hook trace marking executions whose density loop was exhausted; (d) (p,h),(p,s),(T,h),(T,s),(V,u) targets generated from reachable states with perturbed initial temperature/density: target reproduced to solver tolerance and p/T/V echoed whenever Ok. The 2^8 input subsets are enumerated exhaustively in both tiers (6 / 16 random value sets and corruption classes each).",
        note="The re-implemented determination rule (echo_expect) is the reference for Ok/Err classification. Solver tolerances (density iteration abs 1e-12, Newton wrappers atol/rtol on the iterate) enter the oracles explicitly.",
        technique="reference-model monitor (documented determination rule) + relational oracle on every returned state + trace specification over density-iteration exit events",
        ref="DESIGN.md 2/C03",
    ),
    "C04": dict(
        text="Runtime monitoring of PhaseEquilibrium::pure over a deterministic, completely enumerated grid: every pure record of the shipped PC-SAFT collections (~2150), SAFT-VR Mie (lafitte2013) and SAFT-VRQ Mie (>=0.6 T_c, helium FH2 excepted) x 28 (quick) / 217 (thorough) reduced temperatures in [0.45,0.99] of the model's vapour-liquid critical temperature must converge (success clause; the 7 records that fail today are KNOWN-FINDING F10); on every Ok: equal T (exact), equal mu (1e-7 kT), equal p relative to each phase's stiffness, rho_v<rho_l, both phases mechanically stable, hook-trace 'Ok only after a converged event'; inverse problem pure(p_sat(T)); spinodal-start fallback forced through a failpoint agrees to 1e-8; PhaseDiagram::pure with random n in [3,200] has n strictly monotone states ending in the critical point; vapor_pressure / boiling_temperature / vle_pure_comps on mixtures equal the pure-model call; random PR/PeTS/uv models with random solver options: conditions whenever Ok.",
        note="The model's own critical temperature (highest-temperature critical point found from several starts) defines the reduced grid. Failpoints only make a stage return an error it can legitimately return.",
        technique="exhaustive enumeration of a finite success grid + relational oracle on every converged execution + trace specification over hook events + fault injection (failpoints) into the initialisation cascade",
        ref="DESIGN.md 2/C04",
    ),
    "C05": dict(
        text="Runtime monitoring of bubble_point / dew_point / tp_flash and the binary diagrams: deterministic success grid (all pairs of shipped PC-SAFT hydrocarbon records with T_c ratio < 1.5 at thorough, every 12th at quick) x T in {0.65,..,0.9} T_c,low x x in {0.05,..,0.95}: bubble, dew and a flash at (p_bub+p_dew)/2 must be found (14 long-alkane + ring pairs whose flash fails today are KNOWN-FINDING F24); on every returned equilibrium, also for random zoo mixtures (PC-SAFT incl. associating/polar, gc-PC-SAFT, SAFT-VR Mie, PR; binaries/ternaries, random k_ij, random guesses, starved and loose solver options, first flash initialisation disabled by a failpoint): equal T (exact), equal p, equal chemical potentials (1e-5 kT), phases not copies, flash component balance 1e-12 and specified T,p, specified composition kept 1e-13, p_bub >= p_dew for stable saturated phases, hook trace 'Ok only after a converged event'; binary_vle, bubble/dew lines state by state and without panics. Collapsed ideal-gas pseudo-equilibria are KNOWN-FINDING F28. Three-phase part: heteroazeotropes of water + 1-butanol/1-pentanol/1-hexanol and water + hydrocarbons (random k_ij) at given temperature and at given pressure - one temperature (exact), one pressure, specified pressure reproduced, isofugacity in all three phases, no two phases identical; every state of binary_vlle diagrams (VLE branches and LLE branch) at the specified T or p; liquid-liquid flashes started from an equilibrium of another temperature keep their own T and p.",
        note="Isofugacity is evaluated as equality of mu_res/kT + ln rho_i, which does not involve the (possibly vanishing) pressure. Phases count as copies below the library's own 1e-5 threshold.",
        technique="exhaustive enumeration of a finite success grid + relational oracle on every converged execution + trace specification over solver events + fault injection (failpoint on the first flash initialisation, starved options)",
        ref="DESIGN.md 2/C05",
    ),
    "C06": dict(
        text="Runtime monitoring of State::critical_point / critical_point_binary / spinodal: for every pure shipped record (unguided, guided by initial temperatures in [0.5,1.6] T_c, and with the 300/700/500 K trial ladder forced through failpoints) dp/dV and d2p/dV2 vanish (1e-6 of rho k T / V) at positive pressure; random Peng-Robinson triples reproduce (T_c,p_c) (2e-4, 5-digit textbook constants); mixtures: smallest eigenvalue of the scaled composition Hessian and the cubic form along its eigenvector, both recomputed independently from dmu_dni with nalgebra and finite differences, vanish (eigenvalue 1e-4, cubic form 1e-3); binary critical points echo T / reproduce p; spinodals have vanishing dp/dV or eigenvalue, bracket the critical density and lie inside the binodal. Recorded defects F18 (negative-pressure stationary points of SAFT-VR Mie) and F19 (spinodal returns the vapour branch twice at low T) are KNOWN-FINDING.",
        note="Mixture criticality is recomputed outside critical_point.rs; tolerance 1e-4 covers the finite-difference error of the cubic form. Positive pressure is demanded for pure substances only, as the statement says.",
        technique="relational oracle on executions: defining conditions recomputed independently at every returned state; fault injection into the trial-temperature ladder",
        ref="DESIGN.md 2/C06",
    ),
    "C07": dict(
        text="Runtime monitoring of State::stability_analysis / is_stable: every returned trial phase has a strictly negative tangent-plane distance recomputed in the harness from ln phi and mole fractions, at the temperature and pressure of the analysed state; for binary PC-SAFT hydrocarbon pairs (T_c ratio < 1.8, T in [0.6,0.95] T_c,low, random compositions): feeds at 2/50/98 % between dew and bubble pressure (every density root) are reported unstable and tp_flash splits them instead of NoPhaseSplit, feeds 2 % outside the envelope and the phases of converged bubble/dew calculations are reported stable; pure fluids of the shipped collections: states outside the binodal stable, metastable states between binodal and spinodal unstable. Random zoo mixtures contribute trial-phase checks and counted verdicts. Hook events prove that the Newton branch and the Murray regularisation were reached. Pure edges of the binary models (one mole number exactly zero) outside that component's binodal are stable. A flash of an interior feed that ends in an error is classified with the hook trace: giving up although the stability analysis of the feed returned two trial phases and the second start was never tried is a violation; giving up after all available starts is the recorded Rachford-Rice defect (F24).",
        note="Verdicts on phases that are themselves at equilibrium are judged only beyond the solver tolerance band (|tpd| > 1e-6) and above 1e-5 reduced pressure, where fugacity coefficients are resolvable.",
        technique="relational oracle on executions (independent tangent-plane distance) + metamorphic interior/exterior feeds derived from converged envelopes + hook-event coverage gate",
        ref="DESIGN.md 2/C07",
    ),
    "C08": dict(
        text="Differential monitoring of pairs of code paths for the same model on random states: functional vs EoS (PC-SAFT x 3 FMT versions, pure-optimised and mixture paths, gc-PC-SAFT, PeTS, SAFT-VRQ Mie; A, p, S, mu, dp/dV, dp/dT, dS/dT, dmu/dN), FMT vs harness BMCSL closed form, enum and ideal-gas wrappers vs bare models, ePC-SAFT without ions vs PC-SAFT, SAFT-VRQ Mie FH0 vs SAFT-VR Mie monomers, analytic vs Newton association at all dual orders, homosegmented GC vs hand-combined record, PR vs textbook closed form in SI. Recorded defects F14-F16 are reported as KNOWN-FINDING.",
        note="Pair tolerances 1e-9..1e-13 scaled by the state's residual energy scale (1e-3 for the VRQ/VR Mie pair whose hard-sphere diameters use different quadratures; relaxed at low density for functionals). Harness closed forms (BMCSL, PR, GC combining rules) are trusted.",
        technique="differential oracle on executions: two implementations of one model on the same seeded random states",
        ref="DESIGN.md 2/C08",
    ),
    "C09": dict(
        text="Metamorphic monitoring over every model family (EoS and functionals), 1-4 components: random permutation of records + binary matrix + moles permutes component-indexed results and leaves scalars unchanged; zero-mole padding leaves the residual properties of the others unchanged; splitting a component into identical twins changes nothing; Components::subset with non-default options equals the model built directly from the selected records (max density exact, state properties, contribution names) and the mixture-level helpers (vapor_pressure, vle_pure_comps, critical_point_pure, ln_phi_pure_liquid, activity coefficients, Henry constants) equal the pure-model values. Recorded defects (asymmetric EoS quadrupole pair term F16, ePC-SAFT twin water F25, SAFT-VR Mie association NaN F26) are KNOWN-FINDING.",
        note="Tolerance 3e-9 on normalised deviations with an explicit round-off model (low density, chain functionals, trace components, association branch switch).",
        technique="metamorphic / differential oracle on executions: relabelled, padded, split and subset models against the original on seeded random states",
        ref="DESIGN.md 2/C09",
    ),
    "C10": dict(
        text="Runtime monitoring of Total = IdealGas + Residual for every selector-taking getter (each selector on a fresh state), residual-API vs selector-API agreement, p_IG = rho R T in SI, ideal mixing of mu^IG, residual properties vanishing like rho at 1e-8..1e-4 rho_max, and c_p^IG from the Helmholtz derivative vs harness closed forms of the Joback polynomial and DIPPR 100/107/127 for every poling2000 record, every gc substance assembled from joback1987 groups and random coefficient sets, T in [150,1500] K, pure and mixtures. Third order of the ideal-gas Helmholtz energy: dc_v/dT and d2S/dT2 (IdealGas) against a five-point difference quotient of the closed forms; ideal mixing also at partial densities down to 1e-30 A^-3.",
        note="Closed forms of the published correlations are the reference model (1e-6; the Joback implementation rescales by the ratio of 2014/2019 gas constants). Sum identities 1e-12 relative to |terms|, relaxed at low packing fraction.",
        technique="relational oracle on executions + reference-model monitor (closed-form heat-capacity correlations)",
        ref="DESIGN.md 2/C10",
    ),
    "C11": dict(
        text="Runtime monitoring of history and schedule independence on executions of the real State cache. (A) Key level, through a hook that addresses one cached derivative: for random models of all 14 EoS families (1-3 components) and random states, every request (Zeroth, First, Second, SecondMixed in both orders, Third over V, T, N_i: 29 requests for a binary) is evaluated first on a fresh state (canonical value); then every sequence of length 1 and 2 (exhaustive), length 3 (exhaustive on half of the <= 2-component states in the thorough tier, sampled otherwise) and random sequences up to length 50 run on fresh states and on clones; every returned value and, after each sequence, every entry present in the cache (including silently stored by-products) is compared with the canonical value; clones must not share the cache. (B) 52 public getters in random histories up to length 50 with clones midway, against first-evaluation values with a measured round-off scale per getter. (C) Thread storms: 2-16 threads on one Arc<State> issue random key/getter programs, a hook before the cache lock perturbs the schedule (yield / spin / sleep); client-side results and the recorded cache-event trace (sequence, thread, key, hit, value) are checked offline: every value canonical, keys that are never by-products bitwise stable, per-thread events identical to that thread's calls; distinct interleavings and thread switches are counted and gated. (D) PhaseDiagram::par_pure vs pure for random (threads 1-16, chunksize, npoints 3-60) over the shipped pure records: same number of states, same order, same values. (E) The same storm and par_pure on feos-core under ThreadSanitizer (-Zsanitizer=thread -Zbuild-std, both tiers) and Miri (-Zmiri-many-seeds, 64 schedules, thorough). A state derived by update_temperature from an evaluated state equals a fresh state at the new temperature.",
        note="Values are compared to 1e-10 of a natural scale (by-products come from a different dual-number type and differ in the last bits; measured <= 3e-12), relaxed like 1/x_i for derivatives with respect to trace components. Duplicate computation of a key by two threads is counted, not judged (values unchanged). par_pure drops points for the records of finding F10 (unguided pure solve fails): KNOWN-FINDING. Sanitizer build failures / time-outs are inconclusive, never violations.",
        technique="runtime monitor: reference values from fresh states + offline trace checker over hooked cache events under perturbed thread schedules; ThreadSanitizer and Miri on the concurrent workload",
        ref="DESIGN.md 2/C11",
    ),
    "C12": dict(
        text="Differential monitoring of guess independence on executions: every must-succeed pure record of the shipped collections at 3 (quick) / 20 (thorough) temperatures, solved at T and at p without guess and guided by an equilibrium up to 0.3 T_c away; PC-SAFT hydrocarbon pairs without liquid-liquid demixing: bubble / dew points with pressure guesses within a factor 3 and none / exact / blurred vapour-composition guesses, flashes restarted from bubble or dew equilibria; every point of PhaseDiagram::pure, binary_vle, bubble_point_line and dew_point_line (random npoints 3..62, random start temperature) against the stand-alone solve at that point; the same pure diagram with the 'given state' and 'ideal gas' initialisations made to fail by failpoints (hook-observed) so every point restarts from the spinodal; Newton-wrapper constructors (p,h), (p,s), (T,s), (T,p) from two different initial temperatures / densities on supercritical states. Guided and unguided solutions compared in T, p, both densities and both compositions (1e-7; 1e-6 where the solver tolerance is on another quantity). Recorded defect: collapse to a near-trivial pair of phases close to the critical point (F33) is KNOWN-FINDING. Flashes are also started from the bubble-point equilibrium of another temperature (+-5 %).",
        note="A guided call that fails is allowed (statement: 'and converges'). Dew-line points within 3 % of the highest dew temperature are skipped: the dew pressure at given T is two-valued there, so inequality of two solves is not a violation.",
        technique="differential oracle on executions (guided vs unguided solves, diagram points vs stand-alone solves) + fault injection at hooked initialisation stages",
        ref="DESIGN.md 2/C12",
    ),
    "C13": dict(
        text="Runtime monitoring of B, C, dB/dT, dC/dT of random pure/binary/ternary models of every non-electrolyte family against the low-density limit built from finite-density states of the same model ((Z-1)/rho at rho, 2rho, 4rho at two density levels, Richardson-extrapolated, the level difference as error bar) and against finite differences in T; finiteness of all four. Recorded defects (uv-theory BH, SAFT-VRQ Mie mixtures, functionals) are reported as KNOWN-FINDING.",
        note="Reference accuracy 1e-9 (B) / 1e-5 (C) where the density expansion converges at the probe densities; cases where it does not (strong association at low T) are counted as unresolved, not checked.",
        technique="relational oracle on executions: virial getters vs extrapolated finite-density states of the same model",
        ref="DESIGN.md 2/C13",
    ),

    "C14": dict(
        text="Runtime monitoring of parameter construction: synthetic JSON collections (shuffled order, binary records in either orientation, colliding identifier strings, every IdentifierOption) queried with every ordered subset up to size 4 through from_json / from_multiple_json for nine model kinds, plus sampled queries on the shipped files: component order = query order, k_ij found in either orientation, default when absent, duplicate/missing queries rejected, behaviour equal to from_records; group contribution (homo PC-SAFT, hetero gc-PC-SAFT, Joback): permutations of the segment list (exhaustive up to 4 segments) give identical parameters and match a harness reference implementation of the documented combining rules; serde round trip of every shipped record of every model type reproduces records() and behaviour. Synthetic binary records with association parameters and every site-index pair in 0..3 x 0..3 (PC-SAFT and SAFT-VR Mie) are round-tripped twice through serde.",
        note="Harness reference implementations of the combining rules are trusted; serde_json without float_roundtrip moves numbers by <= 1 ulp, allowed.",
        technique="differential / reference-model oracle on executions of the parameter API over enumerated and seeded queries, repeated to expose hash-order dependence",
        ref="DESIGN.md 2/C14",
    ),
    "C15": dict(
        text="Exhaustive enumeration of every JSON file under parameters/ (29 files, 3110 records, rehner2023_binary.json excluded by name): parses with its model's record type and serialises back to the same keys, unique lookup identifiers, positive m/sigma/epsilon/molar weight for pure records and for every assembled gc substance, binary files reference only existing substances/segments, every gc substance assembles from every shipped segment table and from the Joback groups (valence and formula mass checked), every pure PC-SAFT / SAFT-VR Mie / SAFT-VRQ Mie record yields a vapour-liquid critical point at positive plausible (T_c,p_c), a saturation curve on a fixed reduced-temperature grid and finite p,h,s,mu,c_p along it. Records whose saturation solve fails today are KNOWN-FINDING F10.",
        note="Segment tables are increments (published tables contain a negative m for >C<), positivity is therefore demanded of assembled molecules. The file-to-record-type table is part of the check; a new or missing file makes the run inconclusive.",
        technique="exhaustive enumeration of the shipped records driving the real loaders and solvers, with relational oracles per record",
        ref="DESIGN.md 2/C15",
    ),
    "C16": dict(
        text="Runtime monitoring of uniform profiles on every grid type (Cartesian 1-3D, periodic 2-3D with random angles, polar, spherical, cylindrical; 16..4096 points; Lanczos none/1-3) for 8 functional families x 3 FMT versions, pure and mixtures, liquid- and vapour-like: weighted densities equal the bulk weighted densities, Euler-Lagrange residual (plain and log) vanishes, grand potential density = -p, N_i = rho_i x integrate(1), Omega = -p x integrate(1), integrate(1) = closed-form domain volume = volume(); through Pore1D/2D/3D, SolvationProfile, PairCorrelation and PlanarInterface with zero potential: excess grand potential, interfacial tension, excess adsorption, solvation free energy, equimolar radius = 0, g(r) = 1.",
        note="Convolution clauses use 1e-8 (Kierlik-Rosinberg weights amplify round-off ~ eps (pi R/dx)^2), integrals 1e-9. The volume clause is not applied to Cartesian pore axes with their deliberate potential_offset. gc ring molecules are outside the functional's domain (library panics) and excluded.",
        technique="relational oracle on executions: the bulk equation of state is the reference for the discretised functional on uniform profiles",
        ref="DESIGN.md 2/C16",
    ),
    "C17": dict(
        text="Runtime monitoring of the variational consistency of the discretised functional on smooth non-uniform profiles: adjointness of weighted-density and functional-derivative convolutions per weight function (1e-9 Cartesian/periodic, 1e-3 spherical n>128), first-order energy identity vs Richardson finite differences, and - through the verif re-exports - delta_functional_derivative, delta_bond_integrals and the assembled Newton operator vs finite differences of the functional derivative / Euler-Lagrange residual in every geometry (1e-6), plus super-linear residual decay of a Newton-only DFTSolver. First order and adjointness on polar/cylindrical grids (and spherical n<=128) are measured and reported but not judged: their discretisation error is within 100x of a real slip.",
        note="Uses hooks DFTProfile::verif_* (feature verif). Finite-difference error bars as in C01.",
        technique="relational oracle on executions: analytic functional derivatives and linearised operator vs finite differences of the same discretised functional; adjointness as an exact discrete identity",
        ref="DESIGN.md 2/C17",
    ),
    "C18": dict(
        text="Runtime monitoring of DFTProfile::solve on planar interfaces (PC-SAFT, PeTS, gc-PC-SAFT, a binary; T in [0.5,0.95] T_c) and slit/spherical/cylindrical pores with random solver chains (picard/anderson/newton, tolerances to 1e-11, log/non-log, tanh/pDGT/previous-solution starts): on every Ok the recomputed Euler-Lagrange residual is below the last stage's tolerance, densities are finite and positive, Ok only after a converged last stage (hook trace), no panic; Picard/Anderson/Newton agree on gamma, N and Omega; ChemicalPotential leaves the bulk unchanged; Moles/TotalMoles are met within the residual bound and a deterministic mini-grid of 12 constrained cases converges. Recorded defects: Anderson bulk drift F29, cylindrical-pore inconsistencies F30/F31. The residual norm is computed by the harness from the returned density and bulk residual vectors, not taken from the library.",
        note="The residual is recomputed with the library's own Euler-Lagrange operator (C17 checks that operator). Family agreement restricted to T <= 0.9 T_c and boxes >= 180 A.",
        technique="relational oracle on every converged execution + trace specification over solver-stage events + differential oracle between solver families",
        ref="DESIGN.md 2/C18",
    ),
    "C19": dict(
        text="Runtime monitoring of the Gibbs adsorption relation and implicit derivatives: pores re-solved at neighbouring chemical potential / pressure / temperature: -dOmega/dmu = N, dn_dmu / dn_dp / dn_dt vs centred differences with error bars (1e-4 Cartesian and spherical), dn_dmu symmetry for binaries, enthalpy of adsorption vs its definition, Henry limit N/p -> H and ideal-gas enthalpy of adsorption vs -T^2 dlnH/dT; planar interfaces: gamma independent of box length 60-300 A and 256-4096 points (1e-4), decreasing in T with critical exponent ~1.4, pDGT within 15 % of DFT. Cylindrical pores with attractive walls are KNOWN-FINDING F32.",
        note="Spherical Gibbs relation judged against a first-order-in-dr model plus grid refinement; cylindrical tolerances are deliberately weak (0.1) because of F30/F32.",
        technique="differential oracle on executions: implicit-derivative routines vs finite differences of re-solved profiles (with error bars), grid/box metamorphic relations",
        ref="DESIGN.md 2/C19",
    ),
    "C20": dict(
        text="Runtime monitoring of entropy-scaling transport properties (all 146 loetgeringlin2018 records, random binaries, SAFT-VRQ Mie with synthetic coefficients): X = X_ref exp(ln X_reduced) (1e-13), correlation vs harness closed form, positive and finite, mixture with vanishing second component -> pure value, equal s_res/m -> equal reduced property; and of the estimator: every data-set type predicts what the wrapped library call returns in the documented unit, model-generated targets give zero relative difference and zero cost for every loss, NaN policy at failed points, Estimator::cost weight normalisation, each robust loss vs sqrt(f^2 rho(r^2/f^2)) over 5e6 residuals of both signs. Recorded defect F22 (negative thermal-conductivity reference for long chains) is KNOWN-FINDING. Transport properties, references and reduced properties are independent of the amount of substance ((V,N) scaled by 1e-3, 7.5 and up to one mole).",
        note="Harness closed forms of the correlation polynomial and the losses and harness SI constants are the reference. Loss::Linear is checked as the signed identity (documented as an assumption). PeTS transport is not compiled in feos (impl commented out) and is not covered.",
        technique="reference-model monitor (closed forms, unit conversions) + differential oracle (predict vs wrapped library call) on seeded executions",
        ref="DESIGN.md 2/C20",
    ),
}

NOT_YET = {}

PENDING_REASON = "check not built yet in this round (planned, see DESIGN.md section 2); not claimed until its monitor is silent on the unchanged tree"

def main():
    props = [json.loads(l) for l in open(os.path.join(HERE, "properties.jsonl"))]
    ids = [p["id"] for p in props]
    commits = subprocess.run(
        ["git", "-C", "/repo", "log", "--format=%H %s"], capture_output=True, text=True
    ).stdout.splitlines()
    hook_commits = [c.split()[0] for c in commits if " verif hooks:" in c]
    checks = []
    for i in ids:
        if i not in CHECKS:
            continue
        c = CHECKS[i]
        checks.append(
            {
                "property_id": i,
                "quick_cmd": f"./fv check {i} --tier quick",
                "thorough_cmd": f"./fv check {i} --tier thorough",
                "evidence_file": f"/verif/evidence/{i}.json",
                "replay_cmd_template": f"./fv check {i} --replay {{path}}",
                "engine": "fv",
                "level_claimed": {
                    "category": "exploration",
                    "text": c["text"],
                    "design_ref": c["ref"],
                },
                "level_note": c["note"],
                "technique": c["technique"],
            }
        )
    na = []
    for i in ids:
        if i in CHECKS:
            continue
        na.append({"property_id": i, "reason": NOT_YET.get(i, PENDING_REASON)})
    manifest = {
        "version": 1,
        "setup_cmd": "./fv build",
        "hooks": {
            "guard": "verif",
            "enable": "cargo feature `verif` of feos / feos-core / feos-dft (harness/Cargo.toml enables it on its path dependencies to /repo); off by default",
            "baseline_off_cmd": "cd /repo && cargo nextest run --workspace --no-fail-fast --test-threads 8 --offline || cargo test --workspace --no-fail-fast --offline",
            "source_commits": hook_commits,
            "add_only": True,
        },
        "engines": [
            {
                "name": "fv",
                "path": "/verif/harness",
                "serves_properties": [c["property_id"] for c in checks],
                "kind_free_text": "Rust harness linked against /repo (path dependency, hooks on): seeded hostile workloads, relational/differential/trace oracles, three-valued verdicts, evidence + replay writer; wrapper script /verif/fv (build + watchdog)",
            }
        ],
        "checks": checks,
        "not_applicable": na,
        "notes": "All checks are runtime monitors over executions of the real code (family: runtime monitoring and sanitizers). Exit 0 = held on everything explored (KNOWN-FINDING lines for recorded defects in known_findings.json), 1 = VIOLATION, 2 = INCONCLUSIVE (never folded into the others). VERIF_SEED / --seed drive every random choice.",
    }
    json.dump(manifest, open(os.path.join(HERE, "MANIFEST.json"), "w"), indent=1)
    print("checks:", [c["property_id"] for c in checks], "not claimed:", len(na))

if __name__ == "__main__":
    main()
