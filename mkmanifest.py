#!/usr/bin/env python3
"""Regenerates /verif/MANIFEST.json from the table below (single source of truth)."""
import json, subprocess, os

HERE = os.path.dirname(os.path.abspath(__file__))

CHECKS = {
    "C01": dict(
        text="Runtime monitoring of the real getters: every AD derivative property (p, S, mu, dp/dV, dp/dT, dp/dN, dmu/dN, dmu/dT, dS/dT, d2S/dT2, d2p/dV2, per-contribution p and mu, cp, cv, w, mu_JT, dlnphi/dT|dp|dN) is compared with Richardson finite differences of the next-lower-order getter on neighbouring states, for thousands (quick) to ~10^5 (thorough) random states of every model family incl. functionals. Holds on what was executed; says nothing about states not generated.",
        note="Trusted: finite-difference error model (best of several step sizes, tolerance 1e-6 scaled, relaxed as 1e-2/eta at very low packing fraction where the residual loses precision), harness closed forms, verif hooks do not alter results.",
        technique="relational oracle on executions: AD getter vs finite differences of neighbouring states (seeded random workload, all model families)",
        ref="DESIGN.md 2/C01",
    ),
}

NOT_YET = {}

PENDING_REASON = "check not built yet in this round (planned, see DESIGN.md section 2); not claimed until its monitor is silent on the unchanged tree"

def main():
    props = [json.loads(l) for l in open(os.path.join(HERE, "properties.jsonl"))]
    ids = [p["id"] for p in props]
    commits = subprocess.run(
        ["git", "-C", "/repo", "log", "--format=%H %s"], capture_output=True, text=True
    ).stdout.splitlines()
    hook_commits = [c.split()[0] for c in commits if " verif hooks:" in c]
    checks = []
    for i in ids:
        if i not in CHECKS:
            continue
        c = CHECKS[i]
        checks.append(
            {
                "property_id": i,
                "quick_cmd": f"./fv check {i} --tier quick",
                "thorough_cmd": f"./fv check {i} --tier thorough",
                "evidence_file": f"/verif/evidence/{i}.json",
                "replay_cmd_template": f"./fv check {i} --replay {{path}}",
                "engine": "fv",
                "level_claimed": {
                    "category": "exploration",
                    "text": c["text"],
                    "design_ref": c["ref"],
                },
                "level_note": c["note"],
                "technique": c["technique"],
            }
        )
    na = []
    for i in ids:
        if i in CHECKS:
            continue
        na.append({"property_id": i, "reason": NOT_YET.get(i, PENDING_REASON)})
    manifest = {
        "version": 1,
        "setup_cmd": "./fv build",
        "hooks": {
            "guard": "verif",
            "enable": "cargo feature `verif` of feos / feos-core / feos-dft (harness/Cargo.toml enables it on its path dependencies to /repo); off by default",
            "baseline_off_cmd": "cd /repo && cargo nextest run --workspace --no-fail-fast --test-threads 8 --offline || cargo test --workspace --no-fail-fast --offline",
            "source_commits": hook_commits,
            "add_only": True,
        },
        "engines": [
            {
                "name": "fv",
                "path": "/verif/harness",
                "serves_properties": [c["property_id"] for c in checks],
                "kind_free_text": "Rust harness linked against /repo (path dependency, hooks on): seeded hostile workloads, relational/differential/trace oracles, three-valued verdicts, evidence + replay writer; wrapper script /verif/fv (build + watchdog)",
            }
        ],
        "checks": checks,
        "not_applicable": na,
        "notes": "All checks are runtime monitors over executions of the real code (family: runtime monitoring and sanitizers). Exit 0 = held on everything explored (KNOWN-FINDING lines for recorded defects in known_findings.json), 1 = VIOLATION, 2 = INCONCLUSIVE (never folded into the others). VERIF_SEED / --seed drive every random choice.",
    }
    json.dump(manifest, open(os.path.join(HERE, "MANIFEST.json"), "w"), indent=1)
    print("checks:", [c["property_id"] for c in checks], "not claimed:", len(na))

if __name__ == "__main__":
    main()
